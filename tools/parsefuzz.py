#!/usr/bin/env python3
"""C03 machinery: probe orchestration (worker subprocesses, watchdog, crash attribution), seed
corpus extraction, s-expression reader / renderer, patch application (the mutations themselves are
decided by spec/CfgMutate.tla), byte-level mutations, outcome relation, crash signatures, minimiser."""
import json, os, re, glob, random, resource, subprocess, threading, time
from concurrent.futures import ThreadPoolExecutor
import kv
from kv import ToolError, log

BOM = "﻿"
MAIN_NAME = "configuration"          # the name new_from_str gives to the main text
BASE = "(defsrc a b c)\n(deflayer base a b c)\n"
MEM_LIMIT = 4 << 30                  # address-space limit of a worker (runaway expansion => abort, not OOM of the box)


# ------------------------------------------------------------------ probe orchestration
def _limits():
    resource.setrlimit(resource.RLIMIT_AS, (MEM_LIMIT, MEM_LIMIT))
    resource.setrlimit(resource.RLIMIT_CORE, (0, 0))


def _crash_class(rc, stderr):
    if "has overflowed its stack" in stderr:
        return "stack-overflow"
    if "memory allocation of" in stderr:
        return "out-of-memory"
    return "abort(signal %d)" % (-rc) if rc < 0 else "abnormal-exit(%d)" % rc


def _run_shard(items, wd, tag, to_ms, fsfile=None, fsids=None):
    """Runs one worker over `items`, restarting it behind every text that kills or stalls it."""
    results = {}
    inp = os.path.join(wd, "%s.in.ndjson" % tag)
    outp = os.path.join(wd, "%s.out.ndjson" % tag)
    offs = []
    with open(inp, "wb") as f:
        n = 0
        for it in items:
            j = {"id": it["id"], "text": it["text"]}
            if fsids is not None and id(it.get("files")) in fsids:
                j["fs"] = fsids[id(it["files"])]
            else:
                j["files"] = it.get("files", {})
            if it.get("path"):
                j["path"] = it["path"]
            b = (json.dumps(j, ensure_ascii=True) + "\n").encode("ascii")
            offs.append(n)
            n += len(b)
            f.write(b)
        offs.append(n)
    pos = {it["id"]: i for i, it in enumerate(items)}
    skip = 0
    while skip < len(items):
        if os.path.exists(outp):
            os.remove(outp)
        # backstop for the worker's own per-text watchdog: the batch as a whole
        budget = 60 + to_ms / 1000.0 * 3 + 0.05 * (len(items) - skip)
        cmd = [kv.HARNESS, "parse-probe", inp, outp, str(to_ms), str(offs[skip])] + ([fsfile] if fsfile else [])
        p = subprocess.Popen(cmd, stdout=subprocess.DEVNULL,
                             stderr=subprocess.PIPE, text=True, errors="replace", preexec_fn=_limits)
        killed = False
        try:
            _, err = p.communicate(timeout=budget)
        except subprocess.TimeoutExpired:
            p.kill()
            _, err = p.communicate()
            killed = True
        begun = None
        done = set()
        if os.path.exists(outp):
            for line in open(outp, errors="replace"):
                line = line.strip()
                if not line:
                    continue
                try:
                    r = json.loads(line)
                except ValueError:
                    continue     # torn last line of a killed worker
                if r.get("begin"):
                    begun = r["id"]
                else:
                    results[r["id"]] = r
                    done.add(r["id"])
        if p.returncode == 0 and not killed:
            missing = [it["id"] for it in items[skip:] if it["id"] not in done]
            if missing:
                raise ToolError("parse-probe finished but gave no result for %r" % missing[:3])
            break
        if begun is None:
            raise ToolError("parse-probe failed before the first text (rc=%s): %s" % (p.returncode, (err or "")[-500:]))
        if p.returncode == 3 and not killed:
            results[begun] = {"id": begun, "outcome": "timeout", "by": "worker watchdog", "ms": to_ms}
        elif begun not in done:
            if killed:
                results[begun] = {"id": begun, "outcome": "timeout", "by": "batch watchdog"}
            else:
                results[begun] = {"id": begun, "outcome": "crash", "class": _crash_class(p.returncode, err or ""),
                                  "stderr": (err or "")[-300:]}
        else:
            raise ToolError("parse-probe exited abnormally (rc=%s) after finishing %r: %s" %
                            (p.returncode, begun, (err or "")[-500:]))
        skip = pos[begun] + 1
    for f in (inp, outp):
        if os.path.exists(f):
            os.remove(f)
    return results


def run_probe(items, wd, tag="probe", to_ms=5000, shards=None, per_shard=20):
    """items: [{"id","text","files"(,"path")}] -> {id: result}.  Workers are subprocesses; a text that
    overflows the stack / aborts / exceeds the watchdog is attributed (begin marker) and skipped."""
    kv.build_harness()
    if not items:
        return {}
    shards = shards or min(kv.NCPU, 14)
    n = max(1, min(shards, len(items) // per_shard + 1))
    parts = [items[i::n] for i in range(n)]
    # file sets shared by many items (the same dict object) are written once and referenced
    cnt = {}
    for it in items:
        f = it.get("files")
        if f:
            cnt[id(f)] = cnt.get(id(f), 0) + 1
    fsids, fsets = {}, {}
    for it in items:
        f = it.get("files")
        if f and cnt[id(f)] > 1 and id(f) not in fsids:
            fsids[id(f)] = "fs%d" % len(fsids)
            fsets[fsids[id(f)]] = f
    fsfile = None
    if fsets:
        fsfile = os.path.join(wd, "%s.filesets.json" % tag)
        with open(fsfile, "w") as f:
            json.dump(fsets, f, ensure_ascii=True)
    out = {}
    with ThreadPoolExecutor(max_workers=n) as ex:
        for r in ex.map(lambda a: _run_shard(a[1], wd, "%s.%d" % (tag, a[0]), to_ms, fsfile, fsids), enumerate(parts)):
            out.update(r)
    if fsfile:
        os.remove(fsfile)
    return out


# ------------------------------------------------------------------ outcome relation and signatures
def strip_bom(s):
    return s[1:] if s.startswith(BOM) else s


def short_loc(loc):
    loc = loc or ""
    for pre in (kv.REPO.rstrip("/") + "/", "/repo/"):
        if loc.startswith(pre):
            return loc[len(pre):]
    m = re.search(r"/([^/]+-\d+\.\d+\.\d+/src/.*)$", loc)     # a dependency in the cargo registry
    if m:
        return m.group(1)
    m = re.search(r"/(library/.*)$", loc)
    return m.group(1) if m else loc


def judge(item, r):
    """The outcome relation of CfgMutate.tla (Allowed), evaluated on one probe result.
    Returns None if allowed, otherwise a dict(signature, desc)."""
    o = r.get("outcome")
    if o == "ok":
        return None
    if o == "err":
        if r.get("nolabel"):
            return None
        contents = {MAIN_NAME: item["text"]}
        contents.update(item.get("files", {}))
        if item.get("path"):
            contents = dict(item.get("disk", {}))
        name = r.get("file")
        sp = r.get("span")
        if name not in contents:
            return {"signature": "span-names-unknown-file", "desc": "error location names %r which is neither the main text nor an include" % name}
        n = len(strip_bom(contents[name]).encode("utf-8"))
        if not (sp and 0 <= sp[0] <= sp[1] <= n and r.get("in_bounds")):
            return {"signature": "span-outside-file", "desc": "error location %r outside %r (%d bytes)" % (sp, name, n)}
        return None
    if o == "panic":
        return {"signature": "panic %s%s" % (short_loc(r.get("loc")), " (while rendering the diagnostic)" if r.get("phase") == "render" else ""),
                "desc": "panic at %s: %s" % (short_loc(r.get("loc")), r.get("pmsg", ""))}
    if o == "timeout":
        return {"signature": "timeout " + diagnose(item), "desc": "loading did not finish within the watchdog"}
    if o == "crash":
        return {"signature": "%s %s" % (r.get("class"), diagnose(item)), "desc": "worker killed: %s" % r.get("class")}
    raise ToolError("unknown probe outcome %r" % (r,))


# ------------------------------------------------------------------ s-expressions (tools side: reader for diagnosis/minimiser, renderer)
def read_sexprs(text):
    """Small reader with kanata's token rules (enough for diagnosis and minimisation; the seed trees
    given to TLC come from the real reader).  Returns list of nodes: str | list; None if unbalanced."""
    i, n = 0, len(text)
    stack = [[]]
    while i < n:
        c = text[i]
        if c in " \t\n\r\x0c":
            i += 1
        elif c == "(":
            stack.append([])
            i += 1
        elif c == ")":
            if len(stack) == 1:
                return None
            l = stack.pop()
            stack[-1].append(l)
            i += 1
        elif c == '"':
            j = i + 1
            while j < n and text[j] not in '"\n':
                j += 1
            if j >= n or text[j] != '"':
                return None
            stack[-1].append(text[i:j + 1])
            i = j + 1
        elif text.startswith(";;", i):
            j = text.find("\n", i)
            i = n if j < 0 else j + 1
        elif text.startswith("#|", i):
            j = text.find("|#", i + 2)
            if j < 0:
                return None
            i = j + 2
        elif text.startswith('r#"', i):
            j = text.find('"#', i + 3)
            if j < 0:
                return None
            stack[-1].append(text[i:j + 2])
            i = j + 2
        else:
            j = i + 1
            while j < n and text[j] not in ' \t\n\r\x0c()"':
                j += 1
            stack[-1].append(text[i:j])
            i = j
    if len(stack) != 1:
        return None
    return stack[0]


def render(node):
    if isinstance(node, str):
        return node
    return "(" + " ".join(render(x) for x in node) + ")"


def render_top(tops):
    return "\n".join(render(t) for t in tops) + "\n"


def from_json_tree(n, table=None):
    """{"a": text | index into the atom table} | {"l":[..]} -> str | list"""
    if "a" in n:
        a = n["a"]
        return table[a] if isinstance(a, int) else a
    return [from_json_tree(x, table) for x in n["l"]]


def count_nodes(n):
    if "a" in n:
        return 1
    return 1 + sum(count_nodes(x) for x in n["l"])


def apply_patches(tops, patches, table=None):
    """tops: list of python trees (top-level forms).  A patch = {"p":[i1,..,ik], "d":n, "ins":[json nodes]}:
    in the list reached by following child indices i1..i(k-1) (1-based; the root is the list of top-level
    forms), replace the n children starting at index ik by `ins`.  The patches of a mutation address
    disjoint sites and are applied from the last site to the first.  Only the lists along the paths
    are copied; everything else is shared with the seed."""
    t = list(tops)
    for pt in sorted(patches, key=lambda q: q["p"], reverse=True):
        cur = t
        for i in pt["p"][:-1]:
            if i < 1 or i > len(cur) or isinstance(cur[i - 1], str):
                raise ToolError("patch path leaves the tree: %r" % (pt,))
            cur[i - 1] = list(cur[i - 1])
            cur = cur[i - 1]
        k = pt["p"][-1] - 1
        if k < 0 or k + pt["d"] > len(cur):
            raise ToolError("patch out of range: %r (len %d)" % (pt, len(cur)))
        cur[k:k + pt["d"]] = [from_json_tree(x, table) for x in pt["ins"]]
    return t


def diagnose(item):
    """Which parser entry a non-panicking failure (stack overflow / hang) goes through, from the shape
    of the text (with the files it includes): the process is gone, so the entry is inferred rather
    than observed."""
    tops = read_sexprs(strip_bom(item["text"]))
    if tops is None:
        return "in unknown entry (text does not lex)"
    for t in list(tops):
        if isinstance(t, list) and len(t) == 2 and t[0] == "include" and isinstance(t[1], str):
            inc = read_sexprs(strip_bom(item.get("files", {}).get(t[1].strip('"'), "")))
            tops += inc or []
    var = {}
    for t in tops:
        if isinstance(t, list) and t and t[0] == "defvar":
            for k, v in zip(t[1::2], t[2::2]):
                if isinstance(k, str):
                    var[k] = v

    def refs(v):
        if isinstance(v, str):
            return {v[1:]} if v.startswith("$") else set()
        s = set()
        for x in v:
            s |= refs(x)
        return s
    # a variable reachable from itself
    for k in var:
        seen, todo = set(), [k]
        while todo:
            x = todo.pop()
            for y in refs(var.get(x, "")):
                if y == k:
                    return "in defvar resolution (variable refers to itself)"
                if y not in seen and y in var:
                    seen.add(y)
                    todo.append(y)
    if any(isinstance(t, list) and t and t[0] == "deftemplate" for t in tops):
        return "in deftemplate expansion" + template_class(tops)
    d = max_depth(tops)
    if d > 64:
        return "in nesting depth %d" % d
    return "in unknown entry"


EXPAND_KW = ("template-expand", "t!")
TPL_LITERAL = " (a template body expands its own or a later template)"
TPL_SUBST = " (expansion keyword passed as a template argument)"


def template_class(tops):
    """The input class of a text with templates whose loading did not finish (part of the signature, so
    that a known finding for one class does not cover the others):
    TPL_LITERAL  the recursion is written in the text: some deftemplate body names, behind template-expand
                 or t!, its own template or one declared later (what the documented declaration-order
                 rule forbids);
    TPL_SUBST    no such body, but a template call passes the expansion keyword itself as an argument, so
                 an expansion call can come into being by parameter substitution;
    ""           neither."""
    order = {}
    bodies = []
    for t in tops:
        if isinstance(t, list) and len(t) >= 2 and t[0] == "deftemplate" and isinstance(t[1], str):
            order.setdefault(t[1], len(order))
            bodies.append((t[1], t[3:]))

    def named(n):
        """template names standing behind an expansion keyword, at any depth"""
        out = []
        if isinstance(n, list):
            for i, x in enumerate(n):
                if isinstance(x, str):
                    if x in EXPAND_KW and i + 1 < len(n) and isinstance(n[i + 1], str):
                        out.append(n[i + 1])
                else:
                    out += named(x)
        return out
    for name, body in bodies:
        for u in named(body):
            if u in order and order[u] >= order[name]:
                return TPL_LITERAL

    def has_kw(n):
        return n in EXPAND_KW if isinstance(n, str) else any(has_kw(x) for x in n)

    def passes_kw(n):
        if isinstance(n, str):
            return False
        if n and n[0] in EXPAND_KW and any(has_kw(x) for x in n[2:]):
            return True
        return any(passes_kw(x) for x in n)
    if passes_kw(tops):
        return TPL_SUBST
    return ""


def max_depth(n):
    if isinstance(n, str):
        return 0
    return 1 + max([max_depth(x) for x in n] or [0])


# ------------------------------------------------------------------ seed corpus
RUST_STR = re.compile(r'r(#+)"(.*?)"\1|r"([^"]*)"|"((?:[^"\\]|\\.)*)"', re.S)


def rust_unescape(s):
    out, i = [], 0
    while i < len(s):
        c = s[i]
        if c == "\\" and i + 1 < len(s):
            d = s[i + 1]
            if d == "n":
                out.append("\n")
            elif d == "t":
                out.append("\t")
            elif d == "r":
                out.append("\r")
            elif d == "0":
                out.append("\0")
            elif d in "\\\"'":
                out.append(d)
            elif d == "\n":        # line continuation: skip the newline and leading whitespace
                i += 2
                while i < len(s) and s[i] in " \t\n\r":
                    i += 1
                continue
            elif d == "u" and s[i + 2:i + 3] == "{":
                j = s.find("}", i)
                try:
                    out.append(chr(int(s[i + 3:j], 16)))
                except ValueError:
                    pass
                i = j + 1
                continue
            elif d == "x":
                try:
                    out.append(chr(int(s[i + 2:i + 4], 16)))
                except ValueError:
                    pass
                i += 4
                continue
            else:
                out.append(d)
            i += 2
        else:
            out.append(c)
            i += 1
    return "".join(out)


def rust_string_literals(src):
    for m in RUST_STR.finditer(src):
        if m.group(2) is not None:
            yield m.group(2)
        elif m.group(3) is not None:
            yield m.group(3)
        else:
            yield rust_unescape(m.group(4))


def adoc_blocks(src):
    lines = src.split("\n")
    i = 0
    while i < len(lines):
        if lines[i].strip() == "----":
            j = i + 1
            while j < len(lines) and lines[j].strip() != "----":
                j += 1
            yield "\n".join(lines[i + 1:j]) + "\n"
            i = j + 1
        else:
            i += 1


def collect_seed_texts():
    """(origin, text, files) for every shipped sample, doc block and test config literal."""
    R = kv.REPO
    seeds = []
    inc = {}
    for p in sorted(glob.glob(os.path.join(R, "cfg_samples", "*"))):
        if os.path.isfile(p):
            try:
                inc[os.path.basename(p)] = open(p, encoding="utf-8").read()
            except UnicodeDecodeError:
                pass
    for p in sorted(glob.glob(os.path.join(R, "cfg_samples", "*.kbd"))):
        seeds.append(("sample:" + os.path.basename(p), open(p, encoding="utf-8").read(), inc))
    doc = os.path.join(R, "docs", "config.adoc")
    if os.path.exists(doc):
        for i, b in enumerate(adoc_blocks(open(doc, encoding="utf-8").read())):
            if "(" in b:
                seeds.append(("doc:%d" % i, b, {}))
    tests = [os.path.join(R, "parser", "src", "cfg", "tests.rs")] + \
        sorted(glob.glob(os.path.join(R, "parser", "src", "cfg", "tests", "*.rs"))) + \
        sorted(glob.glob(os.path.join(R, "src", "tests", "sim_tests", "*.rs")))
    tinc = {}
    for p in sorted(glob.glob(os.path.join(R, "parser", "test_cfgs", "*"))):
        try:
            tinc[os.path.basename(p)] = open(p, encoding="utf-8").read()
        except (UnicodeDecodeError, IsADirectoryError):
            pass
    for name in sorted(tinc):
        if name.endswith(".kbd"):
            seeds.append(("testcfg:" + name, tinc[name], tinc))
    seen = set()
    for p in tests:
        if not os.path.exists(p):
            continue
        k = 0
        for lit in rust_string_literals(open(p, encoding="utf-8").read()):
            if "(" in lit and ")" in lit and re.search(r"\(\s*def|\(\s*include|\(\s*t!|\(\s*environment|\(\s*platform", lit) and lit not in seen:
                seen.add(lit)
                seeds.append(("test:%s:%d" % (os.path.basename(p), k), lit, {}))
                k += 1
    return seeds


# ------------------------------------------------------------------ byte-level mutations
MULTI = ["é", "€", "\U0001F600", "́", BOM, " ", " "]
OPENERS = ['"', 'r#"', "#|", ";;", "(", ")", '"#', "|#", "#", "|", "r#", "\\"]


def utf8_cut(b):
    """longest valid UTF-8 prefix (the property quantifies over UTF-8 texts)"""
    return b.decode("utf-8", errors="ignore")


def byte_mutations(rng, text, n):
    """n raw mutations of text: truncate, flip a byte, insert multi-byte characters, open strings /
    comments that are never closed, delete / duplicate a slice, splice two halves."""
    out = []
    b = text.encode("utf-8")
    L = len(b)
    for _ in range(n):
        kind = rng.choice(["trunc", "flip", "multi", "open", "del", "dup", "openend", "multi-delim", "ws"])
        pos = rng.randrange(L + 1) if L else 0
        if kind == "trunc":
            m = utf8_cut(b[:pos])
        elif kind == "flip":
            if not L:
                continue
            pos = min(pos, L - 1)
            c = b[pos] ^ (1 << rng.randrange(7))
            m = utf8_cut(b[:pos] + bytes([c])) + utf8_cut(b[pos + 1:]) if c >= 0x80 else (b[:pos] + bytes([c]) + b[pos + 1:]).decode("utf-8", errors="ignore")
        elif kind == "multi":
            pre = utf8_cut(b[:pos])
            m = pre + rng.choice(MULTI) * rng.choice([1, 1, 2, 5]) + text[len(pre):]
        elif kind == "multi-delim":
            # a multi-byte character right before / after a delimiter or at the very end
            pre = utf8_cut(b[:pos])
            m = pre + rng.choice(MULTI) + rng.choice(OPENERS) + rng.choice(MULTI) + text[len(pre):]
        elif kind == "open":
            pre = utf8_cut(b[:pos])
            m = pre + rng.choice(OPENERS) + text[len(pre):]
        elif kind == "openend":
            pre = utf8_cut(b[:pos])
            m = pre + rng.choice(OPENERS) + rng.choice(["", "x", rng.choice(MULTI), "\n", " " + rng.choice(MULTI)])
        elif kind == "del":
            q = min(L, pos + rng.choice([1, 2, 3, 8, 40]))
            m = utf8_cut(b[:pos]) + utf8_cut(b[q:])
        elif kind == "dup":
            q = min(L, pos + rng.choice([1, 2, 8, 40, 200]))
            m = utf8_cut(b[:q]) + b[pos:].decode("utf-8", errors="ignore")
        else:
            pre = utf8_cut(b[:pos])
            m = pre + rng.choice(["\t", "\r", "\x0c", "\r\n", "\x00", "\x0b", "\x7f"]) + text[len(pre):]
        out.append((kind, m))
    return out


# ------------------------------------------------------------------ minimiser
def minimise(item, sig, wd, budget_s=40, to_ms=5000):
    """Greedy tree reduction keeping the failure signature: drop top-level forms, then sub-expressions,
    then hoist children.  Falls back to the original text when it does not lex."""
    t0 = time.time()
    text = item["text"]
    tops = read_sexprs(strip_bom(text))
    if tops is None:
        return text
    files = item.get("files", {})
    cnt = [0]

    def fails(cand_tops):
        cnt[0] += 1
        it = {"id": "min%d" % cnt[0], "text": render_top(cand_tops), "files": files}
        r = run_probe([it], wd, "min", to_ms=to_ms, shards=1)[it["id"]]
        j = judge(it, r)
        return j is not None and j["signature"] == sig

    if not fails(tops):
        return text      # rendering the tree changed the behaviour: keep the original bytes

    def paths(n, pre):
        out = []
        if isinstance(n, list):
            for i, x in enumerate(n):
                out.append(pre + [i])
                out += paths(x, pre + [i])
        return out

    import copy
    changed = True
    while changed and time.time() - t0 < budget_s:
        changed = False
        for p in sorted(paths(tops, []), key=lambda q: (len(q), q)):
            if time.time() - t0 > budget_s:
                break
            cand = copy.deepcopy(tops)
            cur = cand
            try:
                for i in p[:-1]:
                    cur = cur[i]
                node = cur[p[-1]]
            except (IndexError, TypeError):
                continue
            # 1. delete the node
            del cur[p[-1]]
            if fails(cand):
                tops = cand
                changed = True
                break
            # 2. replace a list by one of its children / an atom by a short one
            cand = copy.deepcopy(tops)
            cur = cand
            for i in p[:-1]:
                cur = cur[i]
            if isinstance(node, list) and len(p) > 1:
                done = False
                for ch in node:
                    if time.time() - t0 > budget_s:
                        break
                    cur[p[-1]] = ch
                    if fails(cand):
                        tops = copy.deepcopy(cand)
                        changed = done = True
                        break
                if done:
                    break
            elif isinstance(node, str) and len(node) > 1 and node not in ("a",):
                cur[p[-1]] = "a"
                if fails(cand):
                    tops = cand
                    changed = True
                    break
    return render_top(tops)


# ------------------------------------------------------------------ vocabulary / grammar frames
def vocabulary():
    """[(name, "action"|"word")]: the list-action names and every other keyword-like string literal
    of the parser's source."""
    R = os.path.join(kv.REPO, "parser", "src", "cfg")
    acts, words = [], []
    la = os.path.join(R, "list_actions.rs")
    if os.path.exists(la):
        acts = re.findall(r'pub const \w+: &str = "([^"]+)";', open(la, encoding="utf-8").read())
    seen = set(acts)
    for p in sorted(glob.glob(os.path.join(R, "*.rs"))):
        if os.path.basename(p) in ("tests.rs", "list_actions.rs"):
            continue
        for w in re.findall(r'"([a-z][a-z0-9+_-]{1,40}[a-z0-9!])"', open(p, encoding="utf-8").read()):
            if w not in seen:
                seen.add(w)
                words.append(w)
    return [(a, "action") for a in acts] + [(w, "word") for w in words]


GBASE = "(defsrc a b)\n(defalias kvk x)\n(defvar kvv y)\n"
FRAMES = {
    "action": GBASE + "(deflayer l %s b)\n",
    "multi": GBASE + "(deflayer l (multi a %s) b)\n",
    "switch": GBASE + "(deflayer l (switch (%s) a break) b)\n",
    "template": "(deftemplate kvt () %s)\n" + GBASE + "(deflayer l (t! kvt) b)\n",
    "top": GBASE + "(deflayer l a b)\n%s\n",
}


def frame(ctx, name, args):
    a = " ".join(render(from_json_tree(x)) for x in args)
    inner = (name + " " + a).strip()
    if ctx in FRAMES:
        return FRAMES[ctx] % ("(" + inner + ")"), {}
    if ctx == "defcfg":
        return "(defcfg " + inner + ")\n" + GBASE + "(deflayer l a b)\n", {}
    if ctx == "zippy":
        return GBASE + "(deflayer l a b)\n(defzippy f " + inner + ")\n", {"f": "ab\tcd\n"}
    if ctx == "layeropt":
        return GBASE + "(deflayer (l " + inner + ") a b)\n", {}
    raise ToolError("unknown grammar context %r" % ctx)


# ------------------------------------------------------------------ template graphs (spec/CfgTemplates.tla)
def template_text(g, use, pos):
    """The text of one (graph, use, pos) line of CfgTemplates."""
    n = len(g)

    def has_param(j):
        return j <= n and g[j - 1]["k"] == "subst"

    def call(kw, j):
        return "(%s t%d%s)" % (kw, j, " " + kw if has_param(j) else "")

    def body(e):
        k, j = e["k"], e["j"]
        if k == "const":
            return "a"
        if k in ("long", "nlong"):
            c = call("template-expand", j)
        elif k in ("short", "nshort"):
            c = call("t!", j)
        elif k == "subst":
            return "($x t%d%s)" % (j, " $x" if has_param(j) else "")
        else:
            raise ToolError("unknown template body kind %r" % k)
        return "(multi %s b)" % c if k[0] == "n" else c
    decls = "".join("(deftemplate t%d (%s) %s)\n" % (i + 1, "x" if e["k"] == "subst" else "", body(e)) for i, e in enumerate(g))
    if use == 0:
        u = "a"
    elif use <= n:
        u = call("t!", use)
    else:
        u = call("template-expand", use - n)
    layer = "(defsrc a)\n(deflayer base %s)\n" % u
    return decls + layer if pos == "before" else layer + decls


# ------------------------------------------------------------------ capacity boundaries (spec/CfgCaps.tla)
KEYNAMES = [chr(c) for c in range(ord("a"), ord("z") + 1)] + [str(d) for d in range(10)]


def _keys(n, off=0):
    return " ".join(KEYNAMES[(i + off) % 26] for i in range(n))


def local_codes(wd):
    """The key codes deflocalkeys accepts (= the codes that have a slot in a layer row and a name), asked
    from the real loader: one tiny text per code 0..800."""
    items = [{"id": i, "text": "(deflocalkeys-linux kvk %d)\n(defsrc kvk)\n(deflayer base a)\n" % i, "files": {}} for i in range(801)]
    r = run_probe(items, wd, "codes", to_ms=5000, shards=4)
    return [i for i in range(801) if r[i]["outcome"] == "ok"]


def cap_text(c, codes):
    """The text of one case of CfgCaps: only prints what the case describes.  codes: local_codes()."""
    cap, t, n, a, b, ops = c["c"], c["t"], c["n"], c["a"], c["b"], list(c["ops"])
    L1 = "(defsrc a)\n(deflayer base %s)\n"
    if cap == "switch-opcodes":
        last = {"key": "b", "key-history": "(key-history a 1)", "key-timing": "(key-timing 1 lt 100)",
                "input": "(input real a)", "input-virtual": "(input virtual kvv)", "input-history": "(input-history real a 1)",
                "layer": "(layer base)", "base-layer": "(base-layer base)"}[a]
        fill = _keys(n)
        inner = (fill + " " + last) if b == "inner" else last
        for op in reversed(ops):
            inner = "(%s %s)" % (op, inner)
        km = inner if b == "inner" else fill + " " + inner
        return "(defvirtualkeys kvv a)\n" + L1 % ("(switch (%s) x break)" % km)
    if cap == "switch-depth":
        pat = ["or", "and", "not"] if a == "mixed" else [a]
        e = "a"
        for i in range(t):
            e = "(%s %s)" % (pat[(t - 1 - i) % len(pat)], e)
        return L1 % ("(switch (%s) x break)" % e)
    if cap == "key-recency":
        item = {"key-history": "(key-history a %d)", "input-history": "(input-history real a %d)", "key-timing": "(key-timing %d lt 100)"}[a] % t
        return L1 % ("(switch (%s) x break)" % item)
    if cap == "chord-keys":
        cs = [x for x in codes if x != 0]      # a defsrc key with code 0 does not take part in the layer
        if t > len(cs):
            raise ToolError("chord-keys: %d keys needed, the loader names only %d codes" % (t, len(cs)))
        ks = ["kv%d" % i for i in range(t)]
        if a == "one-chord":
            body = "(%s) x" % " ".join(ks)
        elif a == "singles":
            body = " ".join("(%s) x" % k for k in ks)
        else:
            h = t // 2
            body = "(%s) x (%s) y" % (" ".join(ks[:h]), " ".join(ks[h:]))
        return "(deflocalkeys-linux %s)\n(defsrc %s)\n(deflayer base %s)\n(defchords g 100 %s)\n" % (
            " ".join("%s %d" % (k, cs[i]) for i, k in enumerate(ks)), " ".join(ks),
            " ".join("(chord g %s)" % k for k in ks), body)
    if cap == "chord-groups":
        # every group has to be bound somewhere and a key takes one chord: as many layers as it needs
        cs = [x for x in codes if x != 0]
        ks = ["kv%d" % i for i in range(len(cs))]
        out = ["(deflocalkeys-linux %s)\n(defsrc %s)\n" % (" ".join("%s %d" % (k, cs[i]) for i, k in enumerate(ks)), " ".join(ks))]
        for l in range((t + len(ks) - 1) // len(ks)):
            row = ["(chord g%d a)" % g if g < t else "a" for g in range(l * len(ks), (l + 1) * len(ks))]
            out.append("(deflayer l%d %s)\n" % (l, " ".join(row)))
        out += ["(defchords g%d 100 (a) x)\n" % i for i in range(t)]
        return "".join(out)
    if cap == "virtual-keys":
        ent = ["v%d a" % i for i in range(t)]
        if a in ("deffakekeys", "defvirtualkeys"):
            forms = "(%s %s)\n" % (a, " ".join(ent))
        elif a == "both":
            forms = "(deffakekeys %s)\n(defvirtualkeys %s)\n" % (" ".join(ent[:t // 2]), " ".join(ent[t // 2:]))
        else:
            forms = "(deffakekeys %s)\n(deffakekeys %s)\n" % (" ".join(ent[:t - 1]), ent[t - 1])
        return L1 % "(on-press tap-vkey v0)" + forms
    if cap == "layers":
        return "(defsrc a)\n" + "".join("(deflayer l%d a)\n" % i for i in range(t))
    if cap == "seq-overlap":
        grp = "O-(%s)" % _keys(t)
        seq = {"alone": grp, "key-before": "z " + grp, "key-after": grp + " z", "two-groups": grp + " O-(y z)"}[a]
        return "(defsrc a)\n(deflayer base sldr)\n(defvirtualkeys v x)\n(defseq v (%s))\n" % seq
    if cap == "localkey-code":
        return "(deflocalkeys-linux kvk %d)\n(defsrc %s)\n(deflayer base a)\n" % (t, "kvk" if a == "in-defsrc" else "a")
    if cap == "defsrc-keys":
        names = ["kv%d" % i for i in range(len(codes))]
        src = {"all-but-one": names[:-1], "all": names, "all-plus-one-again": names + names[:1],
               "all-plus-two-again": names + names[-2:]}[a]
        return "(deflocalkeys-linux %s)\n(defsrc %s)\n(deflayer base %s)\n" % (
            " ".join("%s %d" % (k, codes[i]) for i, k in enumerate(names)), " ".join(src), " ".join("a" for _ in src))
    if cap == "distance":
        ac = {"mwheel-up": "(mwheel-up 50 %d)", "movemouse-up": "(movemouse-up 5 %d)",
              "movemouse-accel-min": "(movemouse-accel-up 5 1000 %d 30000)", "movemouse-accel-max": "(movemouse-accel-up 5 1000 1 %d)"}[a] % t
        return L1 % ac
    if cap == "hwid":
        ids = ", ".join(str(i % 256) for i in range(t))
        val = '"%s"' % ids if a.endswith("hwid") else '("%s")' % ids
        return "(defcfg %s %s)\n" % (a, val) + L1 % "a"
    if cap == "width":
        if a in ("macro", "multi"):
            act = {"macro": "(macro %s)", "multi": "(multi %s)", }[a] % _keys(t)
            return L1 % act
        if a == "concat":
            return "(defvar kvc (concat %s))\n" % _keys(t) + L1 % "(macro $kvc)"
        if a in ("tap-dance", "tap-dance-eager"):
            return L1 % ("(%s 200 (%s))" % (a, _keys(t)))
        if a == "defseq-keys":
            return "(defsrc a)\n(deflayer base sldr)\n(defvirtualkeys v x)\n(defseq v (%s))\n" % _keys(t)
        if a == "defalias":
            return "(defsrc a)\n(defalias %s)\n(deflayer base @n%d)\n" % (" ".join("n%d a" % i for i in range(t)), t - 1)
        if a == "defvar":
            return "(defsrc a)\n(defvar %s)\n(deflayer base $n%d)\n" % (" ".join("n%d a" % i for i in range(t)), t - 1)
        if a == "deflayer":
            return "(defsrc a)\n" + "".join("(deflayer l%d a)\n" % i for i in range(t))
    raise ToolError("unknown capacity case %r" % (c,))


# ------------------------------------------------------------------ modifier prefixes (spec/CfgPrefixes.tla)
UNI_PREFIX = {"uLS": "‹⇧", "uRS": "⇧›", "uLC": "‹⎈", "uRC": "⎈›", "uLM": "‹◆", "uRM": "◆›",
              "uLA": "‹⎇", "uRA": "⎇›", "uC": "⎈"}
PFX_FRAMES = {
    "action": "(defsrc a b)\n(deflayer base %s b)\n",
    "multi": "(defsrc a b)\n(deflayer base (multi %s c) b)\n",
    "tap-hold-tap": "(defsrc a b)\n(deflayer base (tap-hold 200 200 %s c) b)\n",
    "tap-hold-hold": "(defsrc a b)\n(deflayer base (tap-hold 200 200 c %s) b)\n",
    "tap-dance": "(defsrc a b)\n(deflayer base (tap-dance 200 (%s c)) b)\n",
    "one-shot": "(defsrc a b)\n(deflayer base (one-shot 500 %s) b)\n",
    "macro": "(defsrc a b)\n(deflayer base (macro %s c) b)\n",
    "macro-in-group": "(defsrc a b)\n(deflayer base (macro A-(%s c) d) b)\n",
    "macro-release-cancel": "(defsrc a b)\n(deflayer base (macro-release-cancel c %s 10 d) b)\n",
    "defseq-first": "(defsrc a b)\n(deflayer base sldr b)\n(defvirtualkeys v x)\n(defseq v (%s b))\n",
    "defseq-last": "(defsrc a b)\n(deflayer base sldr b)\n(defvirtualkeys v x)\n(defseq v (b %s))\n",
    "defseq-only": "(defsrc a b)\n(deflayer base sldr b)\n(defvirtualkeys v x)\n(defseq v (%s))\n",
    "override-in": "(defsrc a b)\n(deflayer base a b)\n(defoverrides (%s) (c))\n",
    "override-out": "(defsrc a b)\n(deflayer base a b)\n(defoverrides (lsft a) (%s))\n",
    "unmod": "(defsrc a b)\n(deflayer base (unmod %s) b)\n",
    "unshift": "(defsrc a b)\n(deflayer base (unshift %s) b)\n",
    "zippy-output": "(defsrc a b)\n(deflayer base a b)\n(defzippy f output-character-mappings (x %s))\n",
    "zippy-file": "(defsrc a b)\n(deflayer base a b)\n(defzippy f)\n",
    "defchords-action": "(defsrc a b)\n(deflayer base (chord g k1) (chord g k2))\n(defchords g 100 (k1) a (k2) b (k1 k2) %s)\n",
    "defchords-key": "(defsrc a b)\n(deflayer base (chord g %s) b)\n(defchords g 100 (%s) c)\n",
    "chordsv2-action": "(defcfg concurrent-tap-hold yes)\n(defsrc a b)\n(deflayer base a b)\n(defchordsv2 (a b) %s 100 all-released ())\n",
    "chordsv2-key": "(defcfg concurrent-tap-hold yes)\n(defsrc a b)\n(deflayer base a b)\n(defchordsv2 (%s b) c 100 all-released ())\n",
    "switch-match": "(defsrc a b)\n(deflayer base (switch (%s) c break) b)\n",
    "switch-action": "(defsrc a b)\n(deflayer base (switch (a) %s break) b)\n",
    "alias": "(defsrc a b)\n(defalias kva %s)\n(deflayer base @kva b)\n",
    "variable": "(defsrc a b)\n(defvar kvv %s)\n(deflayer base $kvv b)\n",
    "fork-keys": "(defsrc a b)\n(deflayer base (fork a c (%s)) b)\n",
    "release-key": "(defsrc a b)\n(deflayer base (release-key %s) b)\n",
    "caps-word-keys": "(defsrc a b)\n(deflayer base (caps-word-custom 2000 (%s) (c)) b)\n",
    "defsrc": "(defsrc %s b)\n(deflayer base a b)\n",
    "deflayermap-key": "(defsrc a b)\n(deflayermap (base) %s c)\n",
    "sequence-noerase": "(defsrc a b)\n(deflayer base (sequence-noerase 2) b)\n(defvirtualkeys v x)\n(defseq v (a %s))\n",
}


def prefix_text(pre, pos, form):
    """The text and files of one case of CfgPrefixes."""
    p = "".join(UNI_PREFIX.get(x, x) for x in pre)
    x = {"key": p + "a", "group": p + "(a b)", "bare": p}[form]
    if pos not in PFX_FRAMES:
        raise ToolError("unknown prefix position %r" % pos)
    fr = PFX_FRAMES[pos]
    files = {}
    if pos == "zippy-output":
        files = {"f": "ab\tx\n"}
        text = fr % x
    elif pos == "zippy-file":
        files = {"f": "ab\t%s\ncd\tx%s\n" % (x, x)}
        text = fr
    else:
        text = fr.replace("%s", x)
    return text, files
