#!/bin/sh
# usage: tools/mutant.sh <patch.diff> <ID> [tier]
# Applies a patch to a scratch git worktree of /repo under /tmp, runs ./check <ID> against it
# (private harness copy, evidence/replays kept under work/alt_*), prints the exit code, removes the worktree.
set -u
PATCH=$(readlink -f "$1"); ID=$2; TIER=${3:-quick}
WT=/tmp/kvmut_$$_$(basename "$PATCH" .diff)
git -C /repo worktree add -q --detach "$WT" HEAD || exit 2
if ! git -C "$WT" apply "$PATCH"; then echo "patch does not apply"; git -C /repo worktree remove --force "$WT"; exit 2; fi
cd "$(dirname "$0")/.."
KVERIF_REPO="$WT" ./check "$ID" --tier "$TIER"; RC=$?
echo "MUTANT $(basename "$PATCH") check=$ID rc=$RC"
# scratch of this run (work/alt_<tag of the worktree path>): keep only evidence and replay files
ALT=work/alt_$(python3 -c "import hashlib,sys;print(hashlib.md5(sys.argv[1].encode()).hexdigest()[:8])" "$WT")
if [ -d "$ALT" ]; then find "$ALT" -mindepth 1 -maxdepth 1 ! -name evidence ! -name replays -exec rm -rf {} +; fi
git -C /repo worktree remove --force "$WT"
git -C /repo worktree prune
exit $RC
