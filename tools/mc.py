#!/usr/bin/env python3
"""Generated model-checking instances (L3): L1 (Kanata.tla) || L2 monitor || environment.
One instance = one .kbd text + environment bounds + monitor parameters."""
import json, os, time
from kv import *

MC_TEMPLATE = r'''---- MODULE %(mod)s ----
EXTENDS Kanata, Json%(extends)s
%(consts)s

EnvKeys == %(keys)s
QMax == %(qmax)d
MonParams == %(monparams)s

VARIABLES K, phys, mon, hist
vars == <<K, phys, mon, hist>>
MonOk == %(monok)s

Init == K = InitK /\ phys = {} /\ mon = %(moninit)s /\ hist = <<>>

Alive == K.L.panic = "" /\ MonOk
CanInput == Alive /\ Len(K.L.queue) < QMax %(extra_guard)s
Press(c) == /\ CanInput /\ c \notin phys
            /\ K' = HandleInput(K, "d", c) /\ phys' = phys \cup {c}
            /\ mon' = %(moninput_d)s
            /\ hist' = Append(hist, <<"d", c>>)
Release(c) == /\ CanInput /\ c \in phys
              /\ K' = HandleInput(K, "u", c) /\ phys' = phys \ {c}
              /\ mon' = %(moninput_u)s
              /\ hist' = Append(hist, <<"u", c>>)
%(extra_actions)s
Tick == /\ Alive
        /\ LET s == StepTick(K) IN
           /\ K' = s.K
           /\ mon' = %(montick)s
        /\ UNCHANGED phys
        /\ hist' = Append(hist, <<"t">>)
Next == (\E c \in EnvKeys : Press(c) \/ Release(c)) \/ Tick %(extra_next)s

View == %(view)s
LastIsTick == hist' # <<>> /\ hist'[Len(hist')][1] = "t"
Expect == IF LastIsTick
          THEN [out |-> K'.out, idle |-> IsIdle(K'), cb |-> CanBlockUpdate(K').cb, proj |-> Proj(K')]
          ELSE [out |-> K'.out, proj |-> Proj(K')]
Edge == PrintT(<<"EDGE", ToJson([h |-> hist', x |-> Expect])>>)

\* soft invariants: print a witness (the shortest input history reaching the state) and go on;
\* a state with a monitor error or a panic has no successors.  The witnesses are then
\* replayed on the real code and judged there (DESIGN 3.3).
PanicProbe == K.L.panic = "" \/ PrintT(<<"PANIC", ToJson([h |-> hist, site |-> K.L.panic])>>)
MonProbe == MonOk \/ PrintT(<<"MONERR", ToJson([h |-> hist, err |-> mon.err])>>)
\* C07 part 1: a tick taken where the loop would block is a stutter on everything that can
\* influence the future, and emits nothing
TickIsStutter == CanBlockUpdate(K).cb =>
                   LET s == StepTick(K) IN s.K.out = <<>> /\ [s.K EXCEPT !.out = <<>>] = [K EXCEPT !.out = <<>>]
StutterProbe == TickIsStutter \/ PrintT(<<"NOSTUTTER", ToJson([h |-> hist])>>)
%(extra_defs)s
====
'''

CFG_TEMPLATE = CONST_CFG + r'''INIT Init
NEXT Next
VIEW View
%(edge)s
CHECK_DEADLOCK FALSE
%(invariants)s
'''


def gen_instance(inst, wd):
    """Writes MC module + cfg for the instance; returns (module name, kbd path, caps)."""
    universe = inst.get("universe", inst["keys"])
    dump, kbd = dump_cfg(inst["kbd"], universe, wd, inst["name"])
    consts, caps = gen_constants(dump, inst.get("custom_th"), inst.get("caps"), inst.get("track_hist"))
    consts += "\nBugDef == " + tla_val(inst.get("bug", "none"))
    mod = "MC_" + inst["name"]
    mon = inst.get("monitor")  # dict: module, params
    if mon:
        extends = "\nMon == INSTANCE " + mon["module"]
        moninit = "Mon!MonInit(MonParams)"
        moninput_d = 'Mon!MonIn(mon, [e |-> "d", c |-> c, out |-> K\'.out])'
        moninput_u = 'Mon!MonIn(mon, [e |-> "u", c |-> c, out |-> K\'.out])'
        montick = "Mon!MonTick(mon, s.K.out, s.idle, s.cb)"
        monok = 'mon.err = ""'
        monparams = tla_val(mon["params"])
    else:
        extends = ""
        moninit = "0"
        moninput_d = moninput_u = montick = "mon"
        monok = "TRUE"
        monparams = "0"
    invs = ["PanicProbe", "MonProbe"] + inst.get("invariants", ["StutterProbe"])
    text = MC_TEMPLATE % dict(
        mod=mod, extends=extends, consts=consts, keys="{" + ", ".join(str(k) for k in inst["keys"]) + "}",
        qmax=inst.get("qmax", 3), monparams=monparams, moninit=moninit, moninput_d=moninput_d,
        moninput_u=moninput_u, montick=montick, monok=monok,
        extra_guard=inst.get("extra_guard", ""), extra_actions=inst.get("extra_actions", ""),
        extra_next=inst.get("extra_next", ""), extra_defs=inst.get("extra_defs", ""),
        view=inst.get("view", "<<K, phys, mon>>"))
    with open(os.path.join(wd, mod + ".tla"), "w") as f:
        f.write(text)
    cfg = CFG_TEMPLATE % dict(
        edge="ACTION_CONSTRAINT Edge" if inst.get("edges", True) else "",
        invariants="\n".join("INVARIANT " + i for i in invs))
    if inst.get("constraint"):
        cfg += "CONSTRAINT %s\n" % inst["constraint"]
    with open(os.path.join(wd, mod + ".cfg"), "w") as f:
        f.write(cfg)
    return mod, kbd, caps, dump


def drift_histories(path, limit, seed_text=""):
    """All drifting edge histories (as [{"h": [...]}]), shortest first up to `limit`, plus a random sample of the rest."""
    import random
    hs = []
    if os.path.exists(path):
        for line in open(path):
            line = line.strip()
            if line:
                hs.append(json.loads(line))
    hs.sort(key=lambda d: len(d["h"]))
    if len(hs) <= limit:
        return hs
    head, rest = hs[:limit], hs[limit:]
    rng = random.Random(os.environ.get("VERIF_SEED", "1") + seed_text)
    return head + rng.sample(rest, min(len(rest), limit // 2))


def check_instance(inst, wd, workers=8, timeout=900, replay=True):
    """TLC exhaustive run of the instance (binding D) + edge-cover replay on the real code
    (binding B).  Returns a result dict; raises ToolError on tool problems."""
    t0 = time.time()
    mod, kbd, caps, dump = gen_instance(inst, wd)
    r = run_tlc(wd, mod, workers=workers, timeout=timeout, heap=inst.get("heap", "8g"))
    res = {"name": inst["name"], "states": r["distinct"], "generated": r["generated"],
           "tlc_wall_s": round(r["wall_s"], 1), "violated": r["violated"], "finished": r["finished"],
           "tlc_out": r["out"], "kbd": kbd, "cap": caps["age"]}
    if r["rc"] == 124:
        raise ToolError("TLC timed out on %s" % mod)
    if r["error"] and not r["violated"]:
        raise ToolError("TLC error on %s: %s (see %s)" % (mod, r["error"], r["out"]))
    for tag in ("PANIC", "MONERR", "NOSTUTTER") + tuple(inst.get("extra_tags", ())):
        f = os.path.join(wd, mod + "." + tag.lower() + ".ndjson")
        res["n_" + tag.lower()] = extract_prints(r["out"], tag, f)
        res[tag.lower() + "_file"] = f
    if inst.get("edges", True):
        edges = os.path.join(wd, mod + ".edges.ndjson")
        n = extract_prints(r["out"], "EDGE", edges)
        res["edges"] = n
        res["edges_file"] = edges
        if replay and n:
            rr = replay_edges(kbd, edges, caps["age"])
            res["replayed"] = rr["edges"]
            res["drift"] = rr["mismatches"]
            res["drift_detail"] = rr["samples"][:5]
            res["drift_file"] = rr["drift_file"]
            # every drifting history is handed to the caller to be recorded on the code and judged by the L2
            # monitor (DESIGN 3.3): shortest first, capped; beyond the cap a seeded random sample
            det = rr["samples"][:5]     # with expected / observed (debugging a model drift)
            seen_h = {json.dumps(d["h"]) for d in det}
            res["drift_samples"] = det + [d for d in drift_histories(rr["drift_file"], inst.get("drift_limit", 1500), inst["name"])
                                          if json.dumps(d["h"]) not in seen_h]
            res["drift_judged"] = len(res["drift_samples"])
            res["impl_panics"] = rr["panics"]
    res["wall_s"] = round(time.time() - t0, 1)
    # the TLC output and the edge list have one line per model transition (hundreds of MB per instance): drop them once
    # the probes are extracted and the edges replayed (KVERIF_KEEP=1 keeps them for debugging)
    if not os.environ.get("KVERIF_KEEP"):
        for k in ("tlc_out", "edges_file"):
            f = res.get(k)
            if f and os.path.exists(f):
                try:
                    os.remove(f)
                except OSError:
                    pass
    return res
