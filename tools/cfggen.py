#!/usr/bin/env python3
"""Seeded generator of kanata configurations over the whole action grammar (DESIGN 5, C02/C01/C07).

  list_action_names()                      names of list actions, read from the working tree's
                                           parser/src/cfg/list_actions.rs at run time
  gen_config(rng, depth=3, features=None,
             latch_free=False)             -> (kbd_text, meta)   random config
  enum_contexts(nest=1)                    -> iterator of (label, kbd_text, meta): every atom / list action with
                                           representative arguments placed in every context
  gen_history(rng, codes, n, arbitrary=True,
              numbers=())                  -> harness script (list of steps)
  accepted(cfgs, wd)                       -> per text: None (rejected) or {"mapped","nfake","chv2"} from the
                                           real parser (harness `crash accept`)

Nothing here decides what is a valid configuration: every text goes through the real parser and only
accepted ones are used; the acceptance ratio is reported by the callers.

`latch_free=True` (C01, C07): virtual keys are only operated in balanced press/release pairs (tap, or press
on press + release on release, or hold-for-duration), never toggled, and never pressed from on-idle.
"""
import hashlib, json, os, re, subprocess
import kv

NUMS = [0, 1, 2, 5, 50, 65535]
NZ = [1, 2, 5, 50, 65535]
SMALL = [0, 1, 2, 5]          # arguments of the *sleeping* delay actions (they block the loop by design)

KEY_POOL = ["a", "b", "c", "d", "e", "f", "g", "h", "i", "j", "k", "l", "1", "2", "3", "spc", "ret", "tab",
            "lsft", "rsft", "lctl", "lalt", "ralt", "lmet", "caps", "esc", "bspc", "f1", "f2", "left", "right"]
OUT_KEYS = ["a", "b", "c", "x", "y", "z", "1", "2", "lsft", "lctl", "lalt", "rsft", "ralt", "spc", "ret", "bspc",
            "f13", "kp1", "vold", "brdn"]
MODS = ["C-", "S-", "A-", "M-", "RA-", "RS-", "RC-", "RM-"]

# list actions that are never generated, with the reason (reported in the evidence)
EXCLUDED = {
    "cmd": "runs external programs (cmd feature off in the harness build)",
    "cmd-log": "runs external programs", "cmd-output-keys": "runs external programs",
    "clipboard-cmd-set": "runs external programs", "clipboard-save-cmd-set": "runs external programs",
    "clipboard-set": "needs the OS clipboard", "clipboard-save": "needs the OS clipboard",
    "clipboard-restore": "needs the OS clipboard", "clipboard-save-set": "needs the OS clipboard",
    "clipboard-save-swap": "needs the OS clipboard",
    "lrld-file": "needs configuration files on disk (C15)",
    "push-msg": "needs a TCP client",
}

ATOMS = ["XX", "_", "use-defsrc", "rpt", "rpt-any", "sldr", "scnl", "mlft", "mrgt", "mmid", "mfwd", "mbck",
         "mltp", "mrtp", "mmtp", "mftp", "mbtp", "mwu", "mwd", "mwl", "mwr", "dynamic-macro-record-stop",
         "lrld", "lrld-next", "lrld-prev", "nop0", "nop9", "•", "‗"]


def list_action_names():
    """The LIST_ACTIONS array of the working tree's list_actions.rs, constants resolved."""
    src = open(os.path.join(kv.REPO, "parser", "src", "cfg", "list_actions.rs"), encoding="utf-8").read()
    consts = dict(re.findall(r'pub const (\w+): &str =\s*"([^"]*)";', src))
    body = src[src.index("const LIST_ACTIONS"):]
    body = body[body.index("= &[") + 4:body.index("];")]
    names = []
    for tok in re.findall(r"\w+", body):
        if tok in consts and consts[tok] not in names:
            names.append(consts[tok])
    if len(names) < 50:
        raise kv.ToolError("could not read the list action names from list_actions.rs")
    return names


class G:
    """generation context"""

    def __init__(self, rng, depth, latch_free=False, features=None, zero_rate=0.004):
        self.rng, self.depth, self.latch_free = rng, depth, latch_free
        self.zero_rate = zero_rate
        self.layers = ["l0"]
        self.vkeys = []
        self.groups = []          # chords v1 groups: name -> keys
        self.src = []
        self.used = set()
        self.numbers = set()
        self.names = [n for n in list_action_names() if n not in EXCLUDED]
        self.unknown = [n for n in self.names if n not in SHAPES]
        self.names = [n for n in self.names if n in SHAPES]
        if features is not None:
            self.names = [n for n in self.names if n in features or FAMILY.get(n) in features]
        self.atoms = [a for a in ATOMS if features is None or a in features or "atoms" in features]
        self.in_multi = 0

    # ---- numbers
    def nz(self, pool=NZ):
        """argument the parser documents as 1-65535: 0 only at the small probe rate"""
        v = 0 if self.rng.random() < self.zero_rate else self.rng.choice(pool)
        self.numbers.add(v)
        return v

    def num(self, pool=NUMS):
        v = self.rng.choice(pool)
        self.numbers.add(v)
        return v

    def key(self):
        return self.rng.choice(OUT_KEYS)

    def srckey(self):
        return self.rng.choice(self.src) if self.src else "a"

    def outchord(self):
        return "".join(self.rng.sample(MODS, self.rng.randint(1, 3))) + self.rng.choice(["a", "b", "1", "x"])

    def layer(self):
        return self.rng.choice(self.layers)

    def vkey(self):
        return self.rng.choice(self.vkeys) if self.vkeys else None

    def simple(self):
        r = self.rng.random()
        if r < 0.6:
            return self.key()
        if r < 0.8:
            return self.outchord()
        return self.rng.choice(["XX", "_"])

    # ---- actions
    def action(self, d):
        r = self.rng.random()
        if d <= 0 or r < 0.25:
            if self.rng.random() < 0.35 and self.atoms:
                a = self.rng.choice(self.atoms)
                self.used.add(a)
                return a
            return self.simple()
        for _ in range(8):
            n = self.rng.choice(self.names)
            t = SHAPES[n](self, n, d - 1)
            if t is not None:
                self.used.add(n)
                return t
        return self.simple()

    def actions(self, d, lo, hi):
        return [self.action(d) for _ in range(self.rng.randint(lo, hi))]


# ------------------------------------------------------------------ argument shapes
def _tap_action(g, d):
    """the parser rejects a tap-hold as the tap action of a tap-hold: generated only at the probe rate"""
    for _ in range(6):
        a = g.action(d)
        if not re.match(r"\((tap-hold|tap⬓)", a) or g.rng.random() < 0.02:
            return a
    return g.simple()


def _th(g, n, d):
    return "(%s %d %d %s %s)" % (n, g.num(), g.nz(), _tap_action(g, d), g.action(d))


def _th_timeout(g, n, d):
    return "(%s %d %d %s %s %s)" % (n, g.num(), g.nz(), _tap_action(g, d), g.action(d), g.action(d))


def _th_keys(g, n, d):
    ks = " ".join(g.rng.sample(KEY_POOL, g.rng.randint(0, 3)))
    return "(%s %d %d %s %s (%s))" % (n, g.num(), g.nz(), _tap_action(g, d), g.action(d), ks)


def _layer(g, n, d):
    return "(%s %s)" % (n, g.layer())


def _multi(g, n, d):
    g.in_multi += 1
    acs = g.actions(d, 1, 4)
    if g.rng.random() < 0.1:
        acs.append("reverse-release-order")
    g.in_multi -= 1
    return "(multi %s)" % " ".join(acs)


def macro_items(g, d, lo=1, hi=6):
    items = []
    for _ in range(g.rng.randint(lo, hi)):
        r = g.rng.random()
        if r < 0.45:
            items.append(g.key())
        elif r < 0.6:
            items.append(str(g.nz([1, 2, 5, 50, 65535] if g.rng.random() < 0.1 else [1, 2, 5, 50])))
        elif r < 0.7:
            items.append(g.outchord())
        elif r < 0.8:
            items.append(g.rng.choice(MODS) + "(" + " ".join(macro_items(g, 0, 1, 3)) + ")")
        else:
            c = custom_action(g, d)
            items.append(c if c else g.key())
    return items


def _macro(g, n, d):
    return "(%s %s)" % (n, " ".join(macro_items(g, d)))


CUSTOM_NAMES = ["unicode", "on-press-fakekey", "on-release-fakekey", "on-press", "on-release", "on-idle",
                "hold-for-duration", "mwheel-up", "mwheel-left", "movemouse-up", "movemouse-left",
                "movemouse-accel-down", "movemouse-speed", "setmouse", "dynamic-macro-record", "dynamic-macro-play",
                "dynamic-macro-record-stop-truncate", "arbitrary-code", "caps-word", "caps-word-custom", "sequence",
                "sequence-noerase", "unmod", "unshift", "lrld-num", "on-press-fakekey-delay", "on-idle-fakekey"]


def custom_action(g, d):
    """an action that parses to Action::Custom (allowed inside macros)"""
    cands = [n for n in CUSTOM_NAMES if n in g.names]
    if g.rng.random() < 0.3 or not cands:
        return g.rng.choice(["mlft", "mltp", "mwu", "rpt", "sldr", "scnl", "dynamic-macro-record-stop"])
    n = g.rng.choice(cands)
    t = SHAPES[n](g, n, d)
    if t is not None:
        g.used.add(n)
    return t


def _unicode(g, n, d):
    return "(%s %s)" % (n, g.rng.choice(["r", "é", "🙂", "1", "ß", '"("']))


def _oneshot(g, n, d):
    inner = g.rng.choice([g.key(), g.key(), g.outchord(), "(layer-while-held %s)" % g.layer(), "(layer-toggle %s)" % g.layer()])
    if g.rng.random() < 0.02:
        inner = g.action(d)
    return "(%s %d %s)" % (n, g.nz(), inner)


def _os_pause(g, n, d):
    return "(%s %d)" % (n, g.nz())


def _tapdance(g, n, d):
    return "(%s %d (%s))" % (n, g.nz(), " ".join(g.actions(d, 0 if g.rng.random() < 0.05 else 1, 4)))


def _chord(g, n, d):
    if not g.groups:
        return None
    name, keys = g.rng.choice(g.groups)
    return "(chord %s %s)" % (name, g.rng.choice(keys))


def _relkey(g, n, d):
    return "(%s %s)" % (n, g.key())


VK_OPS = ["press-vkey", "release-vkey", "tap-vkey", "toggle-vkey", "press-virtualkey", "tap-virtualkey"]
FK_OPS = ["press", "release", "tap", "toggle"]


def _fk_press(g, n, d):
    v = g.vkey()
    if v is None:
        return None
    if g.latch_free:
        return "(%s %s tap)" % (n, v)
    return "(%s %s %s)" % (n, v, g.rng.choice(FK_OPS))


def _fk_delay(g, n, d):
    return "(%s %d)" % (n, g.num(SMALL))


def _fk_idle(g, n, d):
    v = g.vkey()
    if v is None:
        return None
    op = "tap" if g.latch_free else g.rng.choice(["tap", "press", "release"])
    return "(%s %s %s %d)" % (n, v, op, g.nz())


def _on_press(g, n, d):
    v = g.vkey()
    if v is None:
        return None
    if g.latch_free:
        return "(%s tap-vkey %s)" % (n, v)
    return "(%s %s %s)" % (n, g.rng.choice(VK_OPS), v)


def _on_idle(g, n, d):
    v = g.vkey()
    if v is None:
        return None
    op = "tap-vkey" if g.latch_free else g.rng.choice(VK_OPS)
    return "(%s %d %s %s)" % (n, g.nz(), op, v)


def _hold_for(g, n, d):
    v = g.vkey()
    if v is None:
        return None
    return "(%s %d %s)" % (n, g.nz(), v)


def _mwheel(g, n, d):
    return "(%s %d %d)" % (n, g.nz(), g.nz([1, 2, 5, 120, 30000]))


def _mmaccel(g, n, d):
    a, b = sorted([g.nz([1, 2, 5, 50, 30000]), g.nz([1, 2, 5, 50, 30000])])
    return "(%s %d %d %d %d)" % (n, g.nz(), g.nz(), a, b)


def _one_nz(g, n, d):
    return "(%s %d)" % (n, g.nz())


def _one_num(g, n, d):
    return "(%s %d)" % (n, g.num())


def _setmouse(g, n, d):
    return "(%s %d %d)" % (n, g.num(), g.num())


def _dynrec(g, n, d):
    return "(%s %d)" % (n, g.num([0, 1, 2, 65535]))


def _arbcode(g, n, d):
    return "(%s %d)" % (n, g.rng.choice([0, 1, 30, 255, 700, 767]))


def _fork(g, n, d):
    ks = " ".join(g.rng.sample(["lsft", "rsft", "lctl", "a", "b", "x"], g.rng.randint(0, 3)))
    return "(fork %s %s (%s))" % (g.action(d), g.action(d), ks)


def _capsword(g, n, d):
    return "(%s %d)" % (n, g.nz())


def _capsword_custom(g, n, d):
    a = " ".join(g.rng.sample(KEY_POOL[:12], g.rng.randint(0, 3)))
    b = " ".join(g.rng.sample(KEY_POOL[12:20], g.rng.randint(0, 3)))
    return "(%s %d (%s) (%s))" % (n, g.nz(), a, b)


def switch_expr(g, d):
    r = g.rng.random()
    k = g.rng.choice(KEY_POOL[:8] + ["lsft", "lctl"])
    if d <= 0 or r < 0.35:
        return k
    if r < 0.45:
        return "(key-history %s %d)" % (k, g.rng.choice([1, 2, 8]))
    if r < 0.55:
        return "(key-timing %d %s %d)" % (g.rng.choice([1, 2, 8]), g.rng.choice(["lt", "gt", "less-than", "greater-than"]),
                                           g.num([0, 1, 5, 50, 65535]))
    if r < 0.62:
        if g.vkeys and g.rng.random() < 0.4:
            return "(input virtual %s)" % g.vkey()
        return "(input real %s)" % g.srckey()
    if r < 0.69:
        return "(input-history real %s %d)" % (g.srckey(), g.rng.choice([1, 2, 8]))
    if r < 0.76:
        return "(%s %s)" % (g.rng.choice(["layer", "base-layer"]), g.layer())
    op = g.rng.choice(["and", "or", "not"])
    return "(%s %s)" % (op, " ".join(switch_expr(g, d - 1) for _ in range(g.rng.randint(1, 3))))


def _switch(g, n, d):
    cases = []
    for _ in range(g.rng.randint(1, 4)):
        cond = " ".join(switch_expr(g, 2) for _ in range(g.rng.randint(0, 2)))
        cases.append("(%s) %s %s" % (cond, g.action(d), g.rng.choice(["break", "fallthrough"])))
    return "(switch %s)" % " ".join(cases)


def _sequence(g, n, d):
    if g.rng.random() < 0.5:
        return "(%s %d)" % (n, g.nz())
    return "(%s %d %s)" % (n, g.nz(), g.rng.choice(["visible-backspaced", "hidden-suppressed", "hidden-delay-type"]))


def _unmod(g, n, d):
    ks = " ".join(g.rng.sample(["a", "b", "1", "x", "lsft"], g.rng.randint(1, 3)))
    if n == "unmod" and g.rng.random() < 0.3:
        return "(unmod (%s) %s)" % (" ".join(g.rng.sample(["lsft", "rsft", "lctl", "ralt"], g.rng.randint(1, 2))), ks)
    return "(%s %s)" % (n, ks)


def _lrld_num(g, n, d):
    return "(%s %d)" % (n, g.nz([1, 2, 65535]))


SHAPES = {}
FAMILY = {}


def _reg(fam, fn, *names):
    for n in names:
        SHAPES[n] = fn
        FAMILY[n] = fam


_reg("layer", _layer, "layer-switch", "layer-toggle", "layer-while-held", "release-layer", "layer↑")
_reg("tap-hold", _th, "tap-hold", "tap-hold-press", "tap⬓↓", "tap-hold-release", "tap⬓↑")
_reg("tap-hold", _th_timeout, "tap-hold-press-timeout", "tap⬓↓timeout", "tap-hold-release-timeout", "tap⬓↑timeout")
_reg("tap-hold", _th_keys, "tap-hold-release-keys", "tap⬓↑keys", "tap-hold-except-keys", "tap⬓⤫keys")
_reg("multi", _multi, "multi")
_reg("macro", _macro, "macro", "macro-repeat", "macro⟳", "macro-release-cancel", "macro↑⤫", "macro-repeat-release-cancel",
     "macro⟳↑⤫", "macro-cancel-on-press", "macro-repeat-cancel-on-press", "macro-release-cancel-and-cancel-on-press",
     "macro-repeat-release-cancel-and-cancel-on-press")
_reg("unicode", _unicode, "unicode", "🔣")
_reg("one-shot", _oneshot, "one-shot", "one-shot-press", "one-shot↓", "one-shot-release", "one-shot↑", "one-shot-press-pcancel",
     "one-shot↓⤫", "one-shot-release-pcancel", "one-shot↑⤫")
_reg("one-shot", _os_pause, "one-shot-pause-processing")
_reg("tap-dance", _tapdance, "tap-dance", "tap-dance-eager")
_reg("chord", _chord, "chord")
_reg("release", _relkey, "release-key", "key↑")
_reg("vkey", _fk_press, "on-press-fakekey", "on↓fakekey", "on-release-fakekey", "on↑fakekey")
_reg("vkey", _fk_delay, "on-press-delay", "on-release-delay", "on-press-fakekey-delay", "on↓fakekey-delay",
     "on-release-fakekey-delay", "on↑fakekey-delay")
_reg("vkey", _fk_idle, "on-idle-fakekey")
_reg("vkey", _on_press, "on-press", "on↓", "on-release", "on↑")
_reg("vkey", _on_idle, "on-idle")
_reg("vkey", _hold_for, "hold-for-duration")
_reg("mouse", _mwheel, "mwheel-up", "mwheel-down", "mwheel-left", "mwheel-right", "🖱☸↑", "🖱☸↓", "🖱☸←", "🖱☸→",
     "movemouse-up", "movemouse-down", "movemouse-left", "movemouse-right", "🖱↑", "🖱↓", "🖱←", "🖱→")
_reg("mouse", _mmaccel, "movemouse-accel-up", "movemouse-accel-down", "movemouse-accel-left", "movemouse-accel-right",
     "🖱accel↑", "🖱accel↓", "🖱accel←", "🖱accel→")
_reg("mouse", _one_nz, "movemouse-speed", "🖱speed")
_reg("mouse", _setmouse, "setmouse", "set🖱")
_reg("dynamic-macro", _dynrec, "dynamic-macro-record", "dynamic-macro-play")
_reg("dynamic-macro", _one_num, "dynamic-macro-record-stop-truncate")
_reg("arbitrary-code", _arbcode, "arbitrary-code")
_reg("fork", _fork, "fork")
_reg("caps-word", _capsword, "caps-word", "word⇪", "caps-word-toggle", "word⇪toggle")
_reg("caps-word", _capsword_custom, "caps-word-custom", "word⇪custom", "caps-word-custom-toggle", "word⇪custom-toggle")
_reg("switch", _switch, "switch")
_reg("sequence", _sequence, "sequence")
_reg("sequence", _one_nz, "sequence-noerase")
_reg("unmod", _unmod, "unmod", "unshift", "un⇧")
_reg("lrld", _lrld_num, "lrld-num")


# ------------------------------------------------------------------ whole configurations
def gen_config(rng, depth=3, features=None, latch_free=False, zero_rate=0.004):
    g = G(rng, depth, latch_free, features, zero_rate)
    nk = rng.randint(2, 8)
    g.src = rng.sample(KEY_POOL, nk)
    nl = rng.choice([1, 1, 2, 2, 3, 4])
    g.layers = ["l%d" % i for i in range(nl)]
    want = lambda f: features is None or f in features
    parts = []
    # ---- defcfg
    opts = {}
    chv2 = want("chordsv2") and rng.random() < 0.3
    if rng.random() < 0.5:
        opts["process-unmapped-keys"] = "yes"
    if chv2 or rng.random() < 0.3:
        opts["concurrent-tap-hold"] = "yes"
    for name, vals, p in (("delegate-to-first-layer", ["yes", "no"], 0.2),
                          ("transparent-key-resolution", ["to-base-layer", "layer-stack"], 0.3),
                          ("rapid-event-delay", NUMS, 0.3),
                          ("sequence-timeout", NZ, 0.3),
                          ("sequence-input-mode", ["visible-backspaced", "hidden-suppressed", "hidden-delay-type"], 0.3),
                          ("sequence-backtrack-modcancel", ["yes", "no"], 0.2),
                          ("sequence-always-on", ["yes", "no"], 0.1),
                          ("dynamic-macro-max-presses", NUMS, 0.3),
                          ("dynamic-macro-replay-delay-behaviour", ["constant", "recorded"], 0.3),
                          ("override-release-on-activation", ["yes", "no"], 0.2),
                          ("movemouse-inherit-accel-state", ["yes", "no"], 0.2),
                          ("movemouse-smooth-diagonals", ["yes", "no"], 0.2),
                          ("block-unmapped-keys", ["yes", "no"], 0.1),
                          ("allow-hardware-repeat", ["yes", "no"], 0.2)):
        if rng.random() < p:
            opts[name] = str(rng.choice(vals))
    if chv2 and rng.random() < 0.5:
        opts["chords-v2-min-idle"] = str(rng.choice([5, 6, 50, 65535]))
    if opts:
        parts.append("(defcfg %s)" % " ".join("%s %s" % kv_ for kv_ in opts.items()))
    parts.append("(defsrc %s)" % " ".join(g.src))
    # ---- virtual keys: a body only sees the names defined before it in its own block (parser rule), so the
    # bodies are generated first, block by block, with the visible names growing
    nv = rng.choice([0, 0, 1, 2, 4]) if want("vkey") else 0
    allv = ["v%d" % i for i in range(nv)]
    half = (nv + 1) // 2
    vk_body = []
    for block, names in (("defvirtualkeys", allv[:half]), ("deffakekeys", allv[half:])):
        g.vkeys = []
        ents = []
        for v in names:
            ents.append("%s %s" % (v, g.action(depth - 1)))
            g.vkeys.append(v)
        if ents:
            vk_body.append("(%s %s)" % (block, " ".join(ents)))
    g.vkeys = allv
    # ---- chords v1: every key of a group is bound with (chord group key) on the base layer
    bound = {}
    if want("chord") and rng.random() < 0.3 and nk >= 2:
        free = list(g.src)
        for gi in range(rng.randint(1, 2)):
            if len(free) < 2:
                break
            keys = rng.sample(free, rng.randint(2, min(4, len(free))))
            for k in keys:
                free.remove(k)
                bound[k] = "(chord cg%d %s)" % (gi, k)
            g.groups.append(("cg%d" % gi, keys))
    body = []
    for name, keys in g.groups:
        ents = []
        seen = set()
        for k in keys:
            ents.append("(%s) %s" % (k, g.action(depth - 1)))
            seen.add(frozenset([k]))
        for _ in range(rng.randint(1, 3)):
            sub = rng.sample(keys, rng.randint(2, len(keys)))
            if frozenset(sub) in seen:
                continue
            seen.add(frozenset(sub))
            ents.append("(%s) %s" % (" ".join(sub), g.action(depth - 1)))
        body.append("(defchords %s %d %s)" % (name, g.nz(), " ".join(ents)))
    # ---- aliases
    aliases = []
    for i in range(rng.choice([0, 1, 2, 4])):
        aliases.append(("al%d" % i, g.action(depth)))
    if aliases:
        body.append("(defalias %s)" % " ".join("%s %s" % a for a in aliases))
    # ---- layers
    for li, ln in enumerate(g.layers):
        acts = []
        for k in g.src:
            r = rng.random()
            if k in bound and (li == 0 or r < 0.5):
                acts.append(bound[k])
            elif aliases and r < 0.15:
                acts.append("@" + rng.choice(aliases)[0])
            elif r < 0.25 and li > 0:
                acts.append("_")
            else:
                acts.append(g.action(depth))
        body.append("(deflayer %s %s)" % (ln, " ".join(acts)))
    body += vk_body
    # ---- sequences (distinct first keys: no sequence is a prefix of another)
    if g.vkeys and want("sequence") and rng.random() < 0.4:
        firsts = rng.sample(["a", "b", "c", "x", "1"], min(5, len(g.vkeys)))
        for v, f in zip(rng.sample(g.vkeys, len(firsts)), firsts):
            ks = [f] + [rng.choice(["a", "b", "c", "S-a", "x"]) for _ in range(rng.randint(0, 3))]
            if rng.random() < 0.2 and len(ks) >= 2:
                ks = ["O-(%s)" % " ".join(sorted(set(k for k in ks if "-" not in k)) + ["y", "z"])]
            body.append("(defseq %s (%s))" % (v, " ".join(ks)))
    # ---- chords v2
    if chv2 and nk >= 2:
        ents = []
        seen = set()
        for _ in range(rng.randint(1, 4)):
            keys = rng.sample(g.src, rng.randint(2, min(4, nk)))
            if frozenset(keys) in seen:
                continue
            seen.add(frozenset(keys))
            dis = " ".join(rng.sample(g.layers, rng.randint(0, min(2, nl))))
            ents.append("(%s) %s %d %s (%s)" % (" ".join(keys), g.action(depth - 1), g.nz(),
                                                rng.choice(["all-released", "first-release"]), dis))
        body.append("(defchordsv2 %s)" % " ".join(ents))
    # ---- overrides: exactly one non-modifier key on each side
    if want("overrides") and rng.random() < 0.2:
        ents = []
        for _ in range(rng.randint(1, 3)):
            i_ = rng.sample(["lsft", "lctl", "ralt"], rng.randint(0, 2)) + [rng.choice(["a", "b", "1"])]
            o_ = rng.sample(["rsft", "lalt"], rng.randint(0, 1)) + [rng.choice(["x", "2", "left"])]
            ents.append("(%s) (%s)" % (" ".join(i_), " ".join(o_)))
        body.append("(defoverrides %s)" % " ".join(ents))
    text = "\n".join(parts + body) + "\n"
    meta = {"src": list(g.src), "layers": list(g.layers), "vkeys": list(g.vkeys), "used": sorted(g.used),
            "numbers": sorted(g.numbers), "process_unmapped": opts.get("process-unmapped-keys") == "yes",
            "chv2": chv2, "latch_free": latch_free, "unknown_list_actions": g.unknown,
            "hash": hashlib.md5(text.encode()).hexdigest()[:12]}
    return text, meta


# ------------------------------------------------------------------ context enumerator
def representative_actions():
    """(label, text) for every atom action and every list action with representative arguments.
    The environment the texts refer to: layers l0 l1, virtual keys v0 v1, chords v1 group cg (keys c d)."""
    import random
    out = []
    for a in ATOMS + ["a", "S-a", "C-S-lalt", "reverse-release-order"]:
        out.append((a, a))
    rep = {
        "tap-hold": "(%s 50 50 x y)", "tap-hold-timeout": "(%s 50 50 x y z)", "tap-hold-keys": "(%s 50 50 x y (b))",
    }
    fixed = {
        _th: "({n} 50 50 x y)", _th_timeout: "({n} 50 50 x y z)", _th_keys: "({n} 50 50 x y (b))",
        _layer: "({n} l1)", _multi: "(multi x (layer-while-held l1))", _macro: "({n} x 5 S-y (unicode r) z)",
        _unicode: "({n} r)", _oneshot: "({n} 50 lsft)", _os_pause: "({n} 5)", _tapdance: "({n} 50 (x y z))",
        _chord: "(chord cg c)", _relkey: "({n} a)", _fk_press: "({n} v0 tap)", _fk_delay: "({n} 2)",
        _fk_idle: "({n} v0 tap 5)", _on_press: "({n} tap-vkey v0)", _on_idle: "({n} 5 tap-vkey v0)",
        _hold_for: "({n} 5 v0)", _mwheel: "({n} 5 120)", _mmaccel: "({n} 5 50 1 5)", _one_nz: "({n} 5)",
        _one_num: "({n} 1)", _setmouse: "({n} 1 65535)", _dynrec: "({n} 1)", _arbcode: "({n} 700)",
        _fork: "(fork x y (lsft))", _capsword: "({n} 50)", _capsword_custom: "({n} 50 (a b) (c))",
        _switch: "(switch ((or lsft (key-history a 1))) x break () y fallthrough)", _sequence: "({n} 50)",
        _unmod: "({n} a)", _lrld_num: "({n} 1)",
    }
    names = [n for n in list_action_names() if n not in EXCLUDED]
    unknown = []
    for n in names:
        fn = SHAPES.get(n)
        if fn is None:
            unknown.append(n)
            continue
        out.append((n, fixed[fn].format(n=n)))
    # a few extra argument shapes with boundary numbers
    out += [("tap-hold#max", "(tap-hold 65535 65535 x y)"), ("tap-hold#0tap", "(tap-hold 0 1 x y)"),
            ("one-shot#layer", "(one-shot 5 (layer-while-held l1))"), ("tap-dance-eager#empty", "(tap-dance-eager 50 ())"),
            ("tap-dance#empty", "(tap-dance 50 ())"), ("macro#delay-max", "(macro x 65535 y)"),
            ("multi#rec2", "(multi (dynamic-macro-record 1) (dynamic-macro-record 2))"),
            ("multi#recstop", "(multi (dynamic-macro-record 1) dynamic-macro-record-stop)"),
            ("on-press#toggle", "(on-press toggle-vkey v1)"), ("on-press#press", "(on-press press-vkey v1)"),
            ("on-idle#press", "(on-idle 1 press-vkey v1)"), ("hold-for-duration#max", "(hold-for-duration 65535 v1)"),
            ("sequence#hidden", "(sequence 5 hidden-delay-type)"), ("movemouse-accel#max", "(movemouse-accel-up 1 65535 1 30000)"),
            ("mwheel#1", "(mwheel-up 1 30000)"), ("caps-word#1", "(caps-word 1)"),
            ("switch#deep", "(switch ((and (or a b (not c)) (key-timing 8 lt 65535) (input real a) (layer l1))) x fallthrough "
                            "((input-history real b 8)) (layer-while-held l1) break)")]
    return out, unknown


CONTEXTS = ["layer", "alias", "vkey", "chordv1", "chordv2", "tap-dance", "tap-dance-eager", "fork-left", "fork-right",
            "switch", "multi", "one-shot", "tap-hold-tap", "tap-hold-hold", "tap-hold-timeout", "macro", "layer1-trans"]


def wrap(ctx, a):
    """the action text `a` wrapped in a context action; None for contexts that are whole-config placements"""
    return {
        "tap-dance": "(tap-dance 50 (%s q))" % a, "tap-dance-eager": "(tap-dance-eager 50 (q %s))" % a,
        "fork-left": "(fork %s q (lsft))" % a, "fork-right": "(fork q %s (lsft))" % a,
        "switch": "(switch () %s break)" % a, "multi": "(multi %s q)" % a, "one-shot": "(one-shot 50 %s)" % a,
        "tap-hold-tap": "(tap-hold 50 50 %s q)" % a, "tap-hold-hold": "(tap-hold 50 50 q %s)" % a,
        "tap-hold-timeout": "(tap-hold-press-timeout 50 50 q w %s)" % a, "macro": "(macro q %s w)" % a,
    }.get(ctx)


def context_config(ctx, a, inner=None):
    """whole configuration with action text `a` placed in context `ctx` on key `a` (code 30).
    defsrc a b c d lsft; b = chord partner, c d = chords v1 group cg, lsft = fork trigger.
    `inner`: optional second context wrapped around `a` first (depth 2 nesting)."""
    if inner:
        a = wrap(inner, a)
        if a is None:
            return None
    cfgopts = "process-unmapped-keys yes concurrent-tap-hold yes"
    src = "(defsrc a b c d lsft e)"
    pre = ["(defvirtualkeys v0 p v1 (multi lctl (layer-while-held l1)))",
           "(defchords cg 50 (c) c (d) d (c d) r)"]
    key_a = None
    extra = []
    if ctx == "layer":
        key_a = a
    elif ctx == "alias":
        extra.append("(defalias al %s)" % a)
        key_a = "@al"
    elif ctx == "vkey":
        pre[0] = "(defvirtualkeys v0 p v1 (multi lctl (layer-while-held l1)) vx %s)" % a
        key_a = "(multi (on-press press-vkey vx) (on-release release-vkey vx))"
    elif ctx == "chordv1":
        pre[1] = "(defchords cg 50 (c) c (d) d (c d) r)\n(defchords cx 50 (a) t (b) u (a b) %s)" % a
        key_a = "(chord cx a)"
    elif ctx == "chordv2":
        extra.append("(defchordsv2 (a b) %s 50 all-released ())" % a)
        key_a = "a"
    elif ctx == "layer1-trans":
        # the action sits on layer l1 under a transparent key chain
        key_a = None
    else:
        key_a = wrap(ctx, a)
        if key_a is None:
            return None
    key_b = "(chord cx b)" if ctx == "chordv1" else "b"
    if ctx == "layer1-trans":
        l0 = "(deflayer l0 a b (chord cg c) (chord cg d) lsft (layer-while-held l1))"
        l1 = "(deflayer l1 %s _ _ _ _ _)" % a
    else:
        l0 = "(deflayer l0 %s %s (chord cg c) (chord cg d) lsft (layer-while-held l1))" % (key_a, key_b)
        l1 = "(deflayer l1 _ _ _ _ _ _)"
    return "\n".join(["(defcfg %s)" % cfgopts, src] + pre + extra + [l0, l1]) + "\n"


# codes of the context configuration's defsrc
CTX_CODES = {"a": 30, "b": 48, "c": 46, "d": 32, "lsft": 42, "e": 18}


def context_script():
    """fixed stimulation of key `a` in a context configuration: tap, hold past the 50-tick timeouts, chord with
    b, fork trigger, double tap, on layer l1, impossible sequences, OS repeat and tap events"""
    A, B, S, E = 30, 48, 42, 18
    return [["d", A], ["t", 10], ["u", A], ["t", 60],
            ["d", A], ["t", 120], ["u", A], ["t", 120],
            ["d", A], ["d", B], ["t", 10], ["u", A], ["u", B], ["t", 120],
            ["d", B], ["d", A], ["t", 70], ["u", B], ["u", A], ["t", 70],
            ["d", S], ["d", A], ["t", 5], ["u", A], ["u", S], ["t", 70],
            ["d", A], ["t", 2], ["u", A], ["t", 2], ["d", A], ["t", 2], ["u", A], ["t", 120],
            ["d", E], ["t", 2], ["d", A], ["t", 60], ["u", A], ["u", E], ["t", 70],
            ["d", A], ["d", A], ["u", A], ["u", A], ["u", A], ["r", A], ["p", A], ["p", A], ["t", 300],
            ["d", A], ["t", 1], ["d", 46], ["d", 32], ["t", 80], ["u", 32], ["u", 46], ["u", A], ["t", 200]]


def enum_contexts(nest=1, sample=None, rng=None):
    """yields (label, kbd_text).  nest=1: action x context; nest=2: additionally action x inner x outer
    (`sample`: at most that many of the nest-2 combinations, chosen with rng)."""
    acts, unknown = representative_actions()
    for ctx in CONTEXTS:
        for label, a in acts:
            t = context_config(ctx, a)
            if t:
                yield ("%s@%s" % (label, ctx), t)
    if nest >= 2:
        inners = [c for c in CONTEXTS if wrap(c, "x")]
        combos = [(ctx, inner, label, a) for ctx in CONTEXTS for inner in inners for label, a in acts]
        if sample is not None and len(combos) > sample:
            combos = rng.sample(combos, sample)
        for ctx, inner, label, a in combos:
            t = context_config(ctx, a, inner)
            if t:
                yield ("%s@%s@%s" % (label, inner, ctx), t)


# ------------------------------------------------------------------ histories
def gen_history(rng, codes, n, arbitrary=True, numbers=(), floods=True, long_gaps=True, focus=None, tail=300):
    """Event history as a harness script.  arbitrary=True: not physically consistent (repeated presses, releases
    of keys that are up), OS repeats `r` and taps `p`, floods of 33-80 events without a tick, long tick gaps.
    arbitrary=False: physically consistent (press only when up, release only when down, everything released at
    the end) - still with bursts and gaps around the configuration's own numbers."""
    codes = list(codes)
    focus = list(focus or rng.sample(codes, min(len(codes), rng.randint(2, 6))))
    gaps = [0, 0, 0, 0, 1, 1, 1, 2, 3, 5, 10, 49, 50, 51, 200]
    for x in numbers:
        if 0 < x < 2000:
            gaps += [max(x - 1, 0), x, x + 1]
    down = set()
    s = []

    def pick():
        return rng.choice(focus) if rng.random() < 0.75 else rng.choice(codes)

    def ev():
        c = pick()
        if arbitrary:
            k = rng.choices(["d", "u", "r", "p"], [40, 35, 8, 12])[0]
            s.append([k, c])
        else:
            if c in down:
                if rng.random() < 0.15:
                    s.append(["r", c])
                else:
                    s.append(["u", c])
                    down.discard(c)
            else:
                s.append(["d", c])
                down.add(c)

    i = 0
    while i < n:
        if floods and rng.random() < 0.03:
            m = rng.randint(33, 80)
            for _ in range(m):
                ev()
            i += m
            s.append(["t", rng.choice([1, 1, 5, 40, 300])])
            continue
        ev()
        i += 1
        g = rng.choice(gaps)
        if long_gaps and rng.random() < 0.01:
            g = rng.choice([1000, 5000, 10001, 65536, 70000])
        if g:
            s.append(["t", g])
    for c in sorted(down):
        s.append(["u", c])
        s.append(["t", 1])
    if tail:
        s.append(["t", tail])
    return s


# ------------------------------------------------------------------ real parser
def accepted(cfgs, wd, name="accept", chunk=400):
    """Per text: None if the real parser rejects it (or panics: that is C03's business, counted separately),
    else {"mapped": [codes], "nfake": n, "chv2": bool}.  Returns (list, stats)."""
    kv.build_harness()
    res = [None] * len(cfgs)
    stats = {"texts": len(cfgs), "accepted": 0, "rejected": 0, "parser_panics": 0, "parser_aborts": 0,
             "parser_panic_samples": []}
    pos = 0
    part = 0
    while pos < len(cfgs):
        batch = cfgs[pos:pos + chunk]
        inp = os.path.join(wd, "%s.%d.in.json" % (name, part))
        outp = os.path.join(wd, "%s.%d.out.ndjson" % (name, part))
        part += 1
        json.dump({"cfgs": batch}, open(inp, "w"))
        p = subprocess.run([kv.HARNESS, "crash", "accept", inp, outp], stdout=subprocess.PIPE,
                           stderr=subprocess.STDOUT, text=True, timeout=1200)
        last_begin = -1
        ended = False
        for line in open(outp, encoding="utf-8"):
            r = json.loads(line)
            if r["e"] == "begin":
                last_begin = r["i"]
            elif r["e"] == "done":
                i = pos + r["i"]
                if r["ok"]:
                    res[i] = {"mapped": r["mapped"], "nfake": r["nfake"], "chv2": r["chv2"]}
                    stats["accepted"] += 1
                elif r.get("panic") is not None:
                    stats["parser_panics"] += 1
                    if len(stats["parser_panic_samples"]) < 5:
                        stats["parser_panic_samples"].append({"loc": r["panic"], "cfg": batch[r["i"]][:400]})
                else:
                    stats["rejected"] += 1
            elif r["e"] == "end":
                ended = True
        if ended:
            pos += len(batch)
        else:
            # the parser killed the worker (stack overflow / abort) on text `last_begin`: skip it
            stats["parser_aborts"] += 1
            if len(stats["parser_panic_samples"]) < 5:
                stats["parser_panic_samples"].append({"loc": "abort rc=%s" % p.returncode, "cfg": batch[max(last_begin, 0)][:400]})
            pos += max(last_begin, 0) + 1
    return res, stats


if __name__ == "__main__":
    import random, sys
    rng = random.Random(int(sys.argv[1]) if len(sys.argv) > 1 else 1)
    t, m = gen_config(rng)
    print(t)
    print(json.dumps(m))
