#!/usr/bin/env python3
"""C16: s-expression trees of kanata configurations and the abstraction steps of spec/CfgLang.tla,
transcribed one to one into Python.

Trees are the JSON image of the TLA+ values: atom ["A", text] (text as lexed, quotes included), list
["L", [kids]].  A configuration is {"main": [items], "files": [[name, [items]], ...]}.  Paths and item
indexes are 1-based like in the specification, so that a TLC trail can be replayed here verbatim.

TLC checks Norm(Step(c)) = Norm(c) for these rules on a small family (props/c16.py); the same rules
are applied here to big generated configurations.  props/c16.py cross-checks the transcription: the
set of one-step successors computed here must equal the set TLC printed, for every family member.

The only authority on acceptance and behaviour is the real parser; nothing here decides validity.
"""
import copy

PLATFORM = "linux"
EXPAND_NAMES = ("template-expand", "t!")

# action name -> layout of the arguments that are themselves actions (CfgLang!ActIdx).  The TLA+ constant
# ActTable is generated from this table (ASCII names only; TLC's string printer is ASCII).
ACT_TABLE = {}
for _n in ("multi",):
    ACT_TABLE[_n] = "all"
for _n in ("tap-hold", "tap-hold-press", "tap⬓↓", "tap-hold-release", "tap⬓↑", "tap-hold-release-keys", "tap⬓↑keys",
           "tap-hold-except-keys", "tap⬓⤫keys"):
    ACT_TABLE[_n] = "p45"
for _n in ("tap-hold-press-timeout", "tap⬓↓timeout", "tap-hold-release-timeout", "tap⬓↑timeout"):
    ACT_TABLE[_n] = "p456"
for _n in ("one-shot", "one-shot-press", "one-shot↓", "one-shot-release", "one-shot↑", "one-shot-press-pcancel",
           "one-shot↓⤫", "one-shot-release-pcancel", "one-shot↑⤫"):
    ACT_TABLE[_n] = "p3"
for _n in ("tap-dance", "tap-dance-eager"):
    ACT_TABLE[_n] = "td"
ACT_TABLE["fork"] = "p23"
ACT_TABLE["switch"] = "switch"


def A(s):
    return ["A", s]


def L(xs):
    return ["L", list(xs)]


def is_a(t):
    return t[0] == "A"


def is_l(t):
    return t[0] == "L"


def head_txt(t):
    if is_l(t) and t[1] and is_a(t[1][0]):
        return t[1][0][1]
    return ""


# ------------------------------------------------------------------ text <-> tree (token rules of sexpr.rs)
WS = " \t\n\r\x0b\x0c"


def parse_text(text):
    """top-level lists of a configuration text; raises ValueError on text the lexer rejects"""
    b = text
    n = len(b)
    i = 0
    stack = [[]]
    while i < n:
        c = b[i]
        if c in WS:
            i += 1
        elif c == "(":
            stack.append([])
            i += 1
        elif c == ")":
            xs = stack.pop()
            if not stack:
                raise ValueError("unexpected )")
            stack[-1].append(L(xs))
            i += 1
        elif c == '"':
            j = i + 1
            while j < n and b[j] not in '"\n':
                j += 1
            if j >= n or b[j] != '"':
                raise ValueError("unterminated string")
            stack[-1].append(A(b[i:j + 1]))
            i = j + 1
        elif c == ";" and b[i + 1:i + 2] == ";":
            while i < n and b[i] != "\n":
                i += 1
        elif c == "#" and b[i + 1:i + 2] == "|":
            j = b.find("|#", i + 2)
            if j < 0:
                raise ValueError("unterminated comment")
            i = j + 2
        elif c == "r" and b[i + 1:i + 3] == '#"':
            j = b.find('"#', i + 3)
            if j < 0:
                raise ValueError("unterminated multiline string")
            stack[-1].append(A(b[i:j + 2]))
            i = j + 2
        else:
            j = i + 1
            while j < n and b[j] not in '()"' and b[j] not in WS:
                j += 1
            stack[-1].append(A(b[i:j]))
            i = j
    if len(stack) != 1:
        raise ValueError("unclosed (")
    for t in stack[0]:
        if is_a(t):
            raise ValueError("everything must be in a list")
    return stack[0]


def render(t):
    if is_a(t):
        return t[1]
    return "(" + " ".join(render(k) for k in t[1]) + ")"


def render_items(items):
    return "\n".join(render(t) for t in items) + "\n"


def render_cfg(cfg):
    """-> (main text, {file name: text})"""
    return render_items(cfg["main"]), {nm: render_items(items) for nm, items in cfg["files"]}


def cfg_of_text(text, files=None):
    return {"main": parse_text(text), "files": [[nm, parse_text(tx)] for nm, tx in (files or {}).items()]}


# ------------------------------------------------------------------ generic tree operations (1-based paths)
def get_p(t, p):
    for k in p:
        t = t[1][k - 1]
    return t


def put_p(t, p, v):
    if not p:
        return v
    kids = list(t[1])
    kids[p[0] - 1] = put_p(kids[p[0] - 1], p[1:], v)
    return L(kids)


def all_paths(t):
    out = [()]
    if is_l(t):
        for k, kid in enumerate(t[1], 1):
            out += [(k,) + q for q in all_paths(kid)]
    return out


def is_prefix(p, q):
    return len(p) <= len(q) and tuple(q[:len(p)]) == tuple(p)


# ------------------------------------------------------------------ action grammar
def kind(h):
    return ACT_TABLE.get(h, "none")


def act_idx(kd, n):
    if kd == "all":
        return list(range(2, n + 1))
    if kd == "p45":
        return [k for k in (4, 5) if k <= n]
    if kd == "p456":
        return [k for k in (4, 5, 6) if k <= n]
    if kd == "p3":
        return [k for k in (3,) if k <= n]
    if kd == "p23":
        return [k for k in (2, 3) if k <= n]
    if kd == "switch":
        return [k for k in range(2, n + 1) if k % 3 == 0]
    return []


def act_list_idx(kd, n):
    return [3] if kd == "td" and n >= 3 else []


def top_act_idx(item):
    h = head_txt(item)
    n = len(item[1])
    if h == "deflayer":
        return list(range(3, n + 1))
    if any(head_txt(k) in EXPAND_NAMES for k in item[1]):
        return []
    if h == "deflayermap":
        return [k for k in range(4, n + 1) if k % 2 == 0]
    if h in ("defalias", "defvirtualkeys", "deffakekeys"):
        return [k for k in range(3, n + 1) if k % 2 == 1]
    if h == "defchords":
        return [k for k in range(5, n + 1) if k % 2 == 1]
    if h in ("defchordsv2", "defchordsv2-experimental"):
        return [k for k in range(3, n + 1) if k % 5 == 3]
    return []


def sub_act_paths(t):
    out = [()]
    if is_l(t) and t[1] and is_a(t[1][0]):
        ks = t[1]
        n = len(ks)
        kd = kind(ks[0][1])
        for k in act_idx(kd, n):
            out += [(k,) + q for q in sub_act_paths(ks[k - 1])]
        for k in act_list_idx(kd, n):
            if is_l(ks[k - 1]):
                for j, e in enumerate(ks[k - 1][1], 1):
                    out += [(k, j) + q for q in sub_act_paths(e)]
    return out


def data_idx(kd, n):
    if kd == "p23":
        return [4] if n >= 4 else []
    if kd == "p45":
        return [6] if n >= 6 else []
    return []


def val_sub(t, mode):
    if not is_l(t) or head_txt(t) in EXPAND_NAMES:
        return []
    ks = t[1]
    n = len(ks)
    kd = kind(ks[0][1]) if mode == "act" and n >= 1 and is_a(ks[0]) else "none"
    out = []
    for k in range(2 if mode in ("act", "val") else 1, n + 1):
        if mode == "actlist":
            m = "act"
        elif mode == "data":
            m = "data"
        elif mode == "act" and k in act_idx(kd, n):
            m = "act"
        elif mode == "act" and k in act_list_idx(kd, n):
            m = "actlist"
        elif mode == "act" and k in data_idx(kd, n):
            m = "data"
        else:
            m = "val"
        out.append((k,))
        out += [(k,) + q for q in val_sub(ks[k - 1], m)]
    return out


# ------------------------------------------------------------------ locations
def doc(cfg, d):
    return cfg["main"] if d == 0 else cfg["files"][d - 1][1]


def locs(cfg):
    return [(d, i) for d in range(0, len(cfg["files"]) + 1) for i in range(1, len(doc(cfg, d)) + 1)]


def item_at(cfg, loc):
    return doc(cfg, loc[0])[loc[1] - 1]


def set_item(cfg, loc, it):
    c = {"main": list(cfg["main"]), "files": [[nm, list(xs)] for nm, xs in cfg["files"]]}
    doc(c, loc[0])[loc[1] - 1] = it
    return c


def append_main(cfg, it):
    return {"main": list(cfg["main"]) + [it], "files": [[nm, list(xs)] for nm, xs in cfg["files"]]}


def unwrap(it):
    """(path prefix, inner item) through (platform (.. active ..) item) wrappers"""
    if head_txt(it) == "platform" and len(it[1]) == 3 and is_l(it[1][2]) and is_l(it[1][1]) \
            and A(PLATFORM) in it[1][1][1]:
        pf, inner = unwrap(it[1][2])
        return (3,) + pf, inner
    return (), it


def act_paths(it):
    pf, inner = unwrap(it)
    out = []
    for k in top_act_idx(inner):
        out += [pf + (k,) + q for q in sub_act_paths(inner[1][k - 1])]
    return out


def val_paths(it):
    pf, inner = unwrap(it)
    h = head_txt(inner)
    out = []
    if h in ("defseq", "defoverrides"):
        for k in range(2, len(inner[1]) + 1):
            out.append(pf + (k,))
            out += [pf + (k,) + q for q in val_sub(inner[1][k - 1], "data")]
    else:
        for k in top_act_idx(inner):
            out.append(pf + (k,))
            out += [pf + (k,) + q for q in val_sub(inner[1][k - 1], "act")]
    return out


ALIAS_HOSTS = {"deflayer", "deflayermap", "defalias", "defchords", "defchordsv2"}
VAR_HOSTS = {"deflayer", "deflayermap", "defalias", "defchords", "defchordsv2", "defvirtualkeys", "deffakekeys", "defseq",
             "defoverrides"}
TPL_HOSTS = VAR_HOSTS | {"defcfg", "defsrc", "defvar"}
NOT_STANDALONE = [A("reverse-release-order")]


# ------------------------------------------------------------------ the steps (CfgLang!Step*)
def can_alias(cfg, loc, p):
    it = item_at(cfg, loc)
    return head_txt(unwrap(it)[1]) in ALIAS_HOSTS and tuple(p) in act_paths(it) and get_p(it, p) not in NOT_STANDALONE \
        and head_txt(get_p(it, p)) not in EXPAND_NAMES


def step_alias(cfg, loc, p, n):
    it = item_at(cfg, loc)
    a = get_p(it, p)
    nm = "zA%d" % n
    it2 = put_p(it, p, A("@" + nm))
    pf, inner = unwrap(it)
    if head_txt(inner) == "defalias":
        k = p[len(pf)]
        ks = get_p(it2, pf)[1]
        in3 = L(ks[:k - 2] + [A(nm), a] + ks[k - 2:])
        return set_item(cfg, loc, put_p(it2, pf, in3))
    return append_main(set_item(cfg, loc, it2), L([A("defalias"), A(nm), a]))


def can_var(cfg, loc, p):
    it = item_at(cfg, loc)
    return head_txt(unwrap(it)[1]) in VAR_HOSTS and tuple(p) in val_paths(it) \
        and head_txt(get_p(it, p)) not in EXPAND_NAMES + ("concat",)


def step_var(cfg, loc, p, n):
    it = item_at(cfg, loc)
    v = get_p(it, p)
    nm = "zV%d" % n
    return append_main(set_item(cfg, loc, put_p(it, p, A("$" + nm))), L([A("defvar"), A(nm), v]))


def tpl_sites(it):
    pf, inner = unwrap(it)
    h = head_txt(inner)
    if h not in TPL_HOSTS:
        return []
    return [pf] + (act_paths(it) if h in VAR_HOSTS else [])


def can_tpl(cfg, loc, p, q):
    it = item_at(cfg, loc)
    if not (tuple(p) in tpl_sites(it) and tuple(q) in all_paths(get_p(it, p))):
        return False
    return not (len(q) >= 1 and q[-1] == 2 and head_txt(get_p(get_p(it, p), q[:-1])) in EXPAND_NAMES)


def step_tpl(cfg, loc, p, q, n):
    it = item_at(cfg, loc)
    shape = get_p(it, p)
    nm = "zT%d" % n
    body = shape if not q else put_p(shape, q, A("$zp"))
    params = [] if not q else [A("zp")]
    args = [] if not q else [get_p(shape, q)]
    call = L([A("t!" if n % 2 == 0 else "template-expand"), A(nm)] + args)
    return append_main(set_item(cfg, loc, put_p(it, p, call)), L([A("deftemplate"), A(nm), L(params), body]))


def can_cond(cfg, loc, p1, p2):
    it = item_at(cfg, loc)
    ap = act_paths(it)
    return head_txt(unwrap(it)[1]) in VAR_HOSTS and tuple(p1) in ap and tuple(p2) in ap \
        and not is_prefix(p1, p2) and not is_prefix(p2, p1)


def step_cond(cfg, loc, p1, p2, inlist, n):
    it = item_at(cfg, loc)
    s1, s2 = get_p(it, p1), get_p(it, p2)
    nm = "zT%d" % n
    if inlist:
        body = [L([A("if-in-list"), A("$zp"), L([A("k1"), A("k3")]), s1]),
                L([A("if-not-in-list"), A("$zp"), L([A("k1"), L([A("k3")])]), s2])]
    else:
        body = [L([A("if-equal"), A("$zp"), A("k1"), s1]),
                L([A("if-not-equal"), A("k1"), A("$zp"), s2])]
    it2 = put_p(put_p(it, p1, L([A("t!"), A(nm), A("k1")])), p2, L([A("template-expand"), A(nm), A("k2")]))
    return append_main(set_item(cfg, loc, it2), L([A("deftemplate"), A(nm), L([A("zp")])] + body))


COND_NAMES = ("if-equal", "if-not-equal", "if-in-list", "if-not-in-list")
NO_SPLICE_PARENTS = EXPAND_NAMES + COND_NAMES + ("concat",)


def cond_t(k, v, xs):
    """a conditional of form k (1..4) that is true for the argument k1 (CfgLang!CondT)"""
    if k == 1:
        return L([A("if-equal"), A(v), A("k1")] + xs)
    if k == 2:
        return L([A("if-not-equal"), A("k2"), A(v)] + xs)
    if k == 3:
        return L([A("if-in-list"), A(v), L([A("k1"), A("k3")])] + xs)
    return L([A("if-not-in-list"), A(v), L([A("k2"), L([A("k3")])])] + xs)


def cond_f(k, v, xs):
    """a conditional of form k that is false for the argument k1 (CfgLang!CondF)"""
    if k == 1:
        return L([A("if-equal"), A(v), A("k2")] + xs)
    if k == 2:
        return L([A("if-not-equal"), A(v), A("k1")] + xs)
    if k == 3:
        return L([A("if-in-list"), A(v), L([A("k2"), A("k3")])] + xs)
    return L([A("if-not-in-list"), A(v), L([A("k3"), L([A("k1")])])] + xs)


def splice_p(t, p, xs):
    kids = list(t[1])
    if len(p) == 1:
        return L(kids[:p[0] - 1] + list(xs) + kids[p[0]:])
    kids[p[0] - 1] = splice_p(kids[p[0] - 1], p[1:], xs)
    return L(kids)


def can_nest(cfg, loc, p, q1, q2):
    it = item_at(cfg, loc)
    if tuple(p) not in tpl_sites(it):
        return False
    shape = get_p(it, p)
    if tuple(q1) not in all_paths(shape) or not is_l(get_p(shape, q1)):
        return False
    if not q2 or tuple(q2) not in all_paths(get_p(shape, q1)):
        return False
    full = tuple(q1) + tuple(q2)
    return all(head_txt(get_p(shape, full[:m])) not in NO_SPLICE_PARENTS for m in range(len(full)))


def step_nest(cfg, loc, p, q1, q2, k1, k2, t1, t2, n):
    it = item_at(cfg, loc)
    shape = get_p(it, p)
    e = get_p(shape, q1)
    e2 = get_p(e, q2)
    nm = "zT%d" % n
    inner = [cond_t(k2, "$zd", [e2])] if t2 else [cond_f(k2, "$zd", [e2]), e2]
    en = splice_p(e, tuple(q2), inner)
    outer = [cond_t(k1, "$zc", [en])] if t1 else [cond_f(k1, "$zc", [en]), e]
    body = splice_p(L([shape]), (1,) + tuple(q1), outer)[1]
    call = L([A("t!" if n % 2 == 0 else "template-expand"), A(nm), A("k1"), A("k1")])
    return append_main(set_item(cfg, loc, put_p(it, p, call)), L([A("deftemplate"), A(nm), L([A("zc"), A("zd")])] + body))


def nest_sites(it):
    """(p, q1, q2) of every nested-conditional site of an item"""
    out = []
    for p in tpl_sites(it):
        shape = get_p(it, p)
        for q1 in all_paths(shape):
            e = get_p(shape, q1)
            if not is_l(e):
                continue
            for q2 in all_paths(e):
                full = tuple(q1) + tuple(q2)
                if q2 and all(head_txt(get_p(shape, full[:m])) not in NO_SPLICE_PARENTS for m in range(len(full))):
                    out.append((tuple(p), tuple(q1), tuple(q2)))
    return out


def nest_variants():
    """(k1, k2, t1, t2) offered by the specification's Next: a false outer conditional hides the inner one"""
    return [(k1, k2, t1, t2) for k1 in (1, 2, 3, 4) for k2 in (1, 2, 3, 4) for t1 in (False, True) for t2 in (False, True)
            if t1 or (k2 == 1 and t2)]


def can_include(cfg, i):
    return 1 <= i <= len(cfg["main"]) and head_txt(cfg["main"][i - 1]) != "include"


def step_include(cfg, i, n):
    nm = "zf%d.kbd" % n
    main = list(cfg["main"])
    moved = main[i - 1]
    main[i - 1] = L([A("include"), A(nm)])
    return {"main": main, "files": [[f, list(xs)] for f, xs in cfg["files"]] + [[nm, [moved]]]}


def can_platform(cfg, loc):
    return head_txt(item_at(cfg, loc)) not in ("include", "platform", "environment")


def step_platform(cfg, loc, variant):
    pf = {1: [A(PLATFORM)], 2: [A("macos"), A(PLATFORM)]}.get(variant, [A(PLATFORM), A("win")])
    return set_item(cfg, loc, L([A("platform"), L(pf), item_at(cfg, loc)]))


def raw_src(cfg):
    xs = [it for d in range(0, len(cfg["files"]) + 1) for it in doc(cfg, d)]
    s = [it for it in xs if head_txt(unwrap(it)[1]) == "defsrc"]
    if len(s) != 1:
        return None
    return unwrap(s[0])[1][1][1:]


def can_layermap(cfg, loc):
    inner = unwrap(item_at(cfg, loc))[1]
    src = raw_src(cfg)
    return head_txt(inner) == "deflayer" and src is not None and all(is_a(k) for k in src) \
        and len(inner[1]) - 2 == len(src) and all(head_txt(k) not in EXPAND_NAMES for k in inner[1][2:])


def step_layermap(cfg, loc):
    it = item_at(cfg, loc)
    pf, inner = unwrap(it)
    src = raw_src(cfg)
    ks = inner[1]
    nm = ks[1] if is_l(ks[1]) else L([ks[1]])
    pairs = []
    for k, s in enumerate(src):
        pairs += [s, ks[k + 2]]
    return set_item(cfg, loc, put_p(it, pf, L([A("deflayermap"), nm] + pairs)))


def raw_pum(cfg):
    return cfg_yes(cfg, "process-unmapped-keys")


def raw_blk(cfg):
    return cfg_yes(cfg, "block-unmapped-keys")


def cfg_yes(cfg, opt):
    for d in range(0, len(cfg["files"]) + 1):
        for it in doc(cfg, d):
            inner = unwrap(it)[1]
            if head_txt(inner) == "defcfg":
                ks = inner[1]
                for k in range(1, len(ks) - 1):
                    if ks[k] == A(opt) and ks[k + 1] == A("yes"):
                        return True
    return False


def can_layermap_w(cfg, loc, w, g, pos):
    if not can_layermap(cfg, loc):
        return False
    ks = unwrap(item_at(cfg, loc))[1][1]
    src = raw_src(cfg)
    n = len(src)
    g = sorted(g)
    if any(not 1 <= i <= n for i in g) or len(set(map(render, src))) != n or not 0 <= pos <= n - len(g):
        return False
    if w == "_":
        return bool(g) and all(ks[i + 1] == ks[g[0] + 1] for i in g)
    if w == "__":
        return not g and raw_pum(cfg) and not raw_blk(cfg)
    if w == "___":
        return raw_pum(cfg) and not raw_blk(cfg) and all(ks[i + 1] == A("_") for i in g)
    return False


def step_layermap_w(cfg, loc, w, g, pos):
    it = item_at(cfg, loc)
    pf, inner = unwrap(it)
    src = raw_src(cfg)
    ks = inner[1]
    nm = ks[1] if is_l(ks[1]) else L([ks[1]])
    g = sorted(g)
    v = ks[g[0] + 1] if w == "_" else A("_")
    ps = [[s, ks[k + 2]] for k, s in enumerate(src) if (k + 1) not in g]
    allp = ps[:pos] + [[A(w), v]] + ps[pos:]
    return set_item(cfg, loc, put_p(it, pf, L([A("deflayermap"), nm] + [x for pr in allp for x in pr])))


def layermap_w_sites(cfg, loc):
    """(w, G, pos) of every wildcard variant of the deflayer at loc"""
    if not can_layermap(cfg, loc):
        return []
    import itertools
    n = len(raw_src(cfg))
    out = []
    for w in ("_", "__", "___"):
        for r in range(0, n + 1):
            for g in itertools.combinations(range(1, n + 1), r):
                for pos in range(0, n - r + 1):
                    if can_layermap_w(cfg, loc, w, g, pos):
                        out.append((w, list(g), pos))
    return out


# ------------------------------------------------------------------ CfgLang!Next, enumerated / sampled
def successors(cfg, n, nest=False):
    """every (trail element, configuration) the specification's Next offers from cfg; n = fresh-name index.
    nest: the member is one on which Next offers the nested-conditional step"""
    out = []
    for loc in locs(cfg):
        it = item_at(cfg, loc)
        aps = act_paths(it)
        for p in aps:
            if can_alias(cfg, loc, p):
                out.append((["alias", list(loc), list(p)], step_alias(cfg, loc, p, n)))
        for p in val_paths(it):
            if can_var(cfg, loc, p):
                out.append((["var", list(loc), list(p)], step_var(cfg, loc, p, n)))
        for p in tpl_sites(it):
            for q in all_paths(get_p(it, p)):
                if can_tpl(cfg, loc, p, q):
                    out.append((["tpl", list(loc), list(p), list(q)], step_tpl(cfg, loc, p, q, n)))
        for p1 in aps:
            for p2 in aps:
                if can_cond(cfg, loc, p1, p2):
                    for inl in (False, True):
                        out.append((["cond", list(loc), list(p1), list(p2), inl], step_cond(cfg, loc, p1, p2, inl, n)))
        if can_platform(cfg, loc):
            for v in (1, 2, 3):
                out.append((["platform", list(loc), v], step_platform(cfg, loc, v)))
        if can_layermap(cfg, loc):
            out.append((["layermap", list(loc)], step_layermap(cfg, loc)))
        for w, g, pos in layermap_w_sites(cfg, loc):
            out.append((["layermapw", list(loc), w, g, pos], step_layermap_w(cfg, loc, w, g, pos)))
        if nest:
            for p, q1, q2 in nest_sites(it):
                for k1, k2, t1, t2 in nest_variants():
                    out.append((["nest", list(loc), list(p), list(q1), list(q2), k1, k2, t1, t2],
                                step_nest(cfg, loc, p, q1, q2, k1, k2, t1, t2, n)))
    for i in range(1, len(cfg["main"]) + 1):
        if can_include(cfg, i):
            out.append((["include", i], step_include(cfg, i, n)))
    return out


KINDS = ["alias", "var", "tpl", "cond", "include", "platform", "layermap", "layermapw", "nest"]


def random_step(cfg, n, rng, kinds=KINDS):
    """one applicable step chosen with rng (kind first, then a site of that kind); None if none applies"""
    for kd in rng.sample(list(kinds), len(kinds)):
        ls = locs(cfg)
        rng.shuffle(ls)
        if kd == "include":
            c = [i for i in range(1, len(cfg["main"]) + 1) if can_include(cfg, i)]
            if c:
                i = rng.choice(c)
                return ["include", i], step_include(cfg, i, n)
            continue
        for loc in ls:
            it = item_at(cfg, loc)
            if kd == "alias":
                c = [p for p in act_paths(it) if can_alias(cfg, loc, p)]
                if c:
                    p = rng.choice(c)
                    return ["alias", list(loc), list(p)], step_alias(cfg, loc, p, n)
            elif kd == "var":
                c = [p for p in val_paths(it) if can_var(cfg, loc, p)]
                if c:
                    p = rng.choice(c)
                    return ["var", list(loc), list(p)], step_var(cfg, loc, p, n)
            elif kd == "tpl":
                c = tpl_sites(it)
                if c:
                    p = rng.choice(c)
                    q = rng.choice([q for q in all_paths(get_p(it, p)) if can_tpl(cfg, loc, p, q)])
                    return ["tpl", list(loc), list(p), list(q)], step_tpl(cfg, loc, p, q, n)
            elif kd == "cond":
                aps = act_paths(it)
                c = [(p1, p2) for p1 in aps for p2 in aps if can_cond(cfg, loc, p1, p2)]
                if c:
                    p1, p2 = rng.choice(c)
                    inl = rng.random() < 0.5
                    return ["cond", list(loc), list(p1), list(p2), inl], step_cond(cfg, loc, p1, p2, inl, n)
            elif kd == "platform":
                if can_platform(cfg, loc):
                    v = rng.choice([1, 2, 3])
                    return ["platform", list(loc), v], step_platform(cfg, loc, v)
            elif kd == "layermap":
                if can_layermap(cfg, loc):
                    return ["layermap", list(loc)], step_layermap(cfg, loc)
            elif kd == "layermapw":
                if can_layermap(cfg, loc) and len(raw_src(cfg)) <= 12:
                    c = layermap_w_sites_sample(cfg, loc, rng)
                    if c:
                        w, g, pos = c
                        return ["layermapw", list(loc), w, g, pos], step_layermap_w(cfg, loc, w, g, pos)
            elif kd == "nest":
                c = nest_sites(it)
                if c:
                    p, q1, q2 = rng.choice(c)
                    k1, k2, t1, t2 = rng.choice(nest_variants())
                    return (["nest", list(loc), list(p), list(q1), list(q2), k1, k2, t1, t2],
                            step_nest(cfg, loc, p, q1, q2, k1, k2, t1, t2, n))
    return None


def layermap_w_sites_sample(cfg, loc, rng):
    """one random (w, G, pos) for the deflayer at loc (the full set is exponential in the layer width)"""
    ks = unwrap(item_at(cfg, loc))[1][1]
    n = len(raw_src(cfg))
    ws = ["_"] + (["__", "___"] if raw_pum(cfg) and not raw_blk(cfg) else [])
    for w in rng.sample(ws, len(ws)):
        if w == "__":
            g = []
        elif w == "___":
            cand = [i for i in range(1, n + 1) if ks[i + 1] == A("_")]
            g = sorted(rng.sample(cand, rng.randint(0, len(cand))))
        else:
            i = rng.randint(1, n)
            cand = [j for j in range(1, n + 1) if ks[j + 1] == ks[i + 1]]
            g = sorted(set([i] + rng.sample(cand, rng.randint(0, len(cand)))))
        pos = rng.randint(0, n - len(g))
        if can_layermap_w(cfg, loc, w, g, pos):
            return w, g, pos
    return None


def apply_trail(cfg, trail):
    """replays a TLC trail (list of trail elements) with the Python rules"""
    for n, st in enumerate(trail, 1):
        kd = st[0]
        if kd == "alias":
            cfg = step_alias(cfg, tuple(st[1]), tuple(st[2]), n)
        elif kd == "var":
            cfg = step_var(cfg, tuple(st[1]), tuple(st[2]), n)
        elif kd == "tpl":
            cfg = step_tpl(cfg, tuple(st[1]), tuple(st[2]), tuple(st[3]), n)
        elif kd == "cond":
            cfg = step_cond(cfg, tuple(st[1]), tuple(st[2]), tuple(st[3]), st[4], n)
        elif kd == "include":
            cfg = step_include(cfg, st[1], n)
        elif kd == "platform":
            cfg = step_platform(cfg, tuple(st[1]), st[2])
        elif kd == "layermap":
            cfg = step_layermap(cfg, tuple(st[1]))
        elif kd == "layermapw":
            cfg = step_layermap_w(cfg, tuple(st[1]), st[2], list(st[3]), st[4])
        elif kd == "nest":
            cfg = step_nest(cfg, tuple(st[1]), tuple(st[2]), tuple(st[3]), tuple(st[4]), st[5], st[6], st[7], st[8], n)
        else:
            raise ValueError("unknown step %r" % (st,))
    return cfg
