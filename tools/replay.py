"""./check replay <path>: re-run a recorded violation on the current /repo working tree and
re-validate its trace with the property monitor.  Exit 1 if still rejected, 0 if accepted."""
import json, os, sys
from kv import *


def run(path, verbose=True):
    r = json.load(open(path))
    wd = workdir("replay")
    kind = r.get("kind", "trace")
    if kind == "trace":
        job = {"cfg": r["cfg"], "params": r.get("params", {"none": 0}), "tag": "replay", "scripts": [r["script"]],
               "files": r.get("files", {}), "opts": r.get("opts", {})}
        outs = run_jobs([job], wd, "replay")
        trace = concat_traces(outs, os.path.join(wd, "replay.trace.ndjson"))
        if verbose:
            for i, line in enumerate(open(trace)):
                print("%4d %s" % (i + 1, line.rstrip()[:300]))
        n, errs = validate_trace(r["monitor"], trace, wd)
        for e in errs:
            print("REJECTED at line %s: %s" % (e["line"], e["err"]))
        if errs:
            print("VIOLATION property=%s replay=%s" % (r["property"], path))
            return 1
        print("accepted by %s" % r["monitor"])
        return 0
    raise ToolError("unknown replay kind %r" % kind)
