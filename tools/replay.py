"""./check replay <path>: re-run a recorded violation on the current /repo working tree and
re-validate its trace with the property monitor.  Exit 1 if still rejected, 0 if accepted."""
import json, os, sys
from kv import *


def run(path, verbose=True):
    r = json.load(open(path))
    wd = workdir("replay")
    kind = r.get("kind", "trace")
    if kind == "trace":
        job = {"cfg": r["cfg"], "params": r.get("params", {"none": 0}), "tag": "replay", "scripts": [r["script"]],
               "files": r.get("files", {}), "opts": r.get("opts", {})}
        outs = run_jobs([job], wd, "replay")
        trace = concat_traces(outs, os.path.join(wd, "replay.trace.ndjson"))
        if verbose:
            for i, line in enumerate(open(trace)):
                if i < 400:
                    print("%4d %s" % (i + 1, line.rstrip()[:300]))
        monitor = r.get("monitor") or ("P_" + r["property"])
        n, errs = validate_trace(monitor, trace, wd)
        for e in errs:
            print("REJECTED at line %s: %s" % (e["line"], e["err"]))
        if errs:
            print("VIOLATION property=%s replay=%s" % (r["property"], path))
            return 1
        print("accepted by %s" % monitor)
        return 0
    if kind == "c13fn":      # a (table, list) case of the pure override function, judged by TLC (P_C13)
        import props.c13
        return props.c13.replay_fn(r, path, wd)
    if kind in ("c11tables", "c11intercept"):
        import props.c11
        return props.c11.replay(r, path, wd)
    if kind == "parse":      # a text (+ includable files) whose loading crashed / hung / mislocated its diagnostic (C03)
        import props.c03
        return props.c03.replay(r, path, wd)
    if kind == "cfgpair":    # C16: (original, rewritten) configuration pair, both sides through the real parser again
        import props.c16
        return props.c16.replay_pair(r, wd)
    if kind == "switch-tv":  # C10: a switch condition / case list + environments, through the real parser and Switch::actions
        import props.c10
        return props.c10.replay(r, path, wd)
    if kind == "c12table":   # C12 part 1: a defseq table through the real parser again, judged by TLC (SeqTab!StJudge)
        import props.c12
        return props.c12.replay_table(r, path, wd)
    if kind == "crash":      # C02: (configuration, history) that crashed / hung event processing
        import props.c02
        return props.c02.replay(r, path, wd)
    if kind == "c15":        # C15: (files, contents, script) run as the three lanes of the reload check, judged by P_C15
        import props.c15
        return props.c15.replay(r, path, wd)
    if kind == "c07pair":    # C07: (prefix, gap K, continuation) run as the ticking and the blocked lane, judged by P_C07!PairErr
        import props.c07
        return props.c07.replay(r, path, wd)
    if kind == "c01":        # C01: (configuration, history + quiet tail) recorded again, pre-processed and judged by P_C01
        import props.c01
        return props.c01.replay(r, path, wd)
    raise ToolError("unknown replay kind %r" % kind)
