#!/usr/bin/env python3
"""Shared machinery: harness build, TLA+ constant generation, TLC invocation, edge replay,
trace validation, evidence files.  Everything runs offline from /verif against /repo."""
import threading
import json, os, re, subprocess, sys, time, shutil, hashlib

VERIF = os.path.dirname(os.path.dirname(os.path.abspath(__file__)))
REPO = os.environ.get("KVERIF_REPO", "/repo")
SPEC = os.path.join(VERIF, "spec")
WORK = os.path.join(VERIF, "work")
HARNESS_DIR = os.path.join(VERIF, "harness")
HARNESS = os.path.join(HARNESS_DIR, "target", "debug", "kverif")
TLA_JAR = "/opt/veriftools/tla/tla2tools.jar"
CM_JAR_GLOB = "/opt/veriftools/tla"
NCPU = os.cpu_count() or 4


class ToolError(Exception):
    pass


def log(*a):
    print(*a, file=sys.stderr, flush=True)


def sh(cmd, timeout=None, cwd=None, env=None, check=True, capture=True):
    e = dict(os.environ)
    if env:
        e.update(env)
    p = subprocess.run(cmd, cwd=cwd, env=e, timeout=timeout,
                       stdout=subprocess.PIPE if capture else None,
                       stderr=subprocess.STDOUT if capture else None, text=True)
    if check and p.returncode != 0:
        raise ToolError("command failed (%d): %s\n%s" % (p.returncode, " ".join(cmd), (p.stdout or "")[-4000:]))
    return p


_built = False
# Mutation testing: KVERIF_REPO=/tmp/<worktree> runs every check against a scratch copy of the
# repository through a private copy of the harness (built under the worktree's own directory), and
# keeps evidence / replay files of that run out of /verif/evidence and /verif/replays.
ALT = REPO != "/repo"
if ALT:
    _tag = hashlib.md5(REPO.encode()).hexdigest()[:8]
    HARNESS_DIR = os.path.join(REPO, ".kverif_harness")
    HARNESS = os.path.join(HARNESS_DIR, "target", "debug", "kverif")
    WORK = os.path.join(VERIF, "work", "alt_" + _tag)
    OUT_DIR = WORK
else:
    OUT_DIR = VERIF


def _sync_alt_harness():
    src = os.path.join(VERIF, "harness")
    os.makedirs(os.path.join(HARNESS_DIR, "src"), exist_ok=True)
    os.makedirs(os.path.join(HARNESS_DIR, ".cargo"), exist_ok=True)
    for f in os.listdir(os.path.join(src, "src")):
        a, b = os.path.join(src, "src", f), os.path.join(HARNESS_DIR, "src", f)
        if not os.path.exists(b) or open(a).read() != open(b).read():
            shutil.copy(a, b)
    shutil.copy(os.path.join(src, ".cargo", "config.toml"), os.path.join(HARNESS_DIR, ".cargo", "config.toml"))
    toml = open(os.path.join(src, "Cargo.toml")).read().replace('"/repo', '"' + REPO)
    dst = os.path.join(HARNESS_DIR, "Cargo.toml")
    if not os.path.exists(dst) or open(dst).read() != toml:
        open(dst, "w").write(toml)


def build_harness():
    """Rebuild the harness against /repo's current working tree (cargo's own change detection)."""
    global _built
    if _built:
        return HARNESS
    if ALT:
        _sync_alt_harness()
    lock_src = os.path.join(REPO, "Cargo.lock")
    lock_dst = os.path.join(HARNESS_DIR, "Cargo.lock")
    if not os.path.exists(lock_dst):
        shutil.copy(lock_src, lock_dst)
    t0 = time.time()
    env = {"CARGO_NET_OFFLINE": "true"}
    p = sh(["cargo", "build", "--offline", "-q"], cwd=HARNESS_DIR, env=env, check=False, timeout=1800)
    if p.returncode != 0:
        # a stale lock file (after a dependency change in /repo) is repaired by re-copying
        shutil.copy(lock_src, lock_dst)
        p = sh(["cargo", "build", "--offline", "-q"], cwd=HARNESS_DIR, env=env, check=False, timeout=1800)
        if p.returncode != 0:
            raise ToolError("harness build failed:\n" + (p.stdout or "")[-6000:])
    log("[build] harness ok in %.1fs" % (time.time() - t0))
    _built = True
    return HARNESS


def workdir(name):
    d = os.path.join(WORK, name)
    os.makedirs(d, exist_ok=True)
    return d


# ---------------------------------------------------------------- TLA+ value printing
def tla_str(s):
    out = []
    for ch in s:
        if ch == '"' or ch == '\\':
            out.append('\\' + ch)
        elif 32 <= ord(ch) < 127:
            out.append(ch)
        else:
            out.append('u%04x' % ord(ch))
    return '"' + ''.join(out) + '"'


def tla_val(o, key=None):
    if isinstance(o, bool):
        return "TRUE" if o else "FALSE"
    if isinstance(o, int):
        # TLC integers are 32-bit: larger values from the parser dump (e.g. u32::MAX) are capped; the model then
        # drifts from the code there, which is reported as drift, never as a tool error
        o = max(min(o, 2147483647), -2147483647)
        return str(o) if o >= 0 else "(0 - %d)" % (-o)
    if isinstance(o, str):
        return tla_str(o)
    if isinstance(o, (list, tuple)):
        if key == "m":  # chord masks are sets of bit indices
            return "{" + ", ".join(tla_val(x) for x in o) + "}"
        return "<<" + ", ".join(tla_val(x) for x in o) + ">>"
    if isinstance(o, set):
        return "{" + ", ".join(tla_val(x) for x in sorted(o)) + "}"
    if isinstance(o, dict):
        if key in ("real", "src", "intmap"):  # code -> value maps
            if not o:
                return "[zz \\in {} |-> 0]"
            return "(" + " @@ ".join("%d :> %s" % (int(k), tla_val(v)) for k, v in sorted(o.items(), key=lambda kv: int(kv[0]))) + ")"
        if not o:
            return "[zz \\in {} |-> 0]"
        return "[" + ", ".join("%s |-> %s" % (k, tla_val(v, k)) for k, v in o.items()) + "]"
    raise ToolError("cannot print %r as TLA" % (o,))


# ---------------------------------------------------------------- config dump (binding A)
def dump_cfg(kbd_text, universe, wd, name="cfg"):
    build_harness()
    kbd = os.path.join(wd, name + ".kbd")
    with open(kbd, "w") as f:
        f.write(kbd_text)
    out = os.path.join(wd, name + ".dump.json")
    p = sh([HARNESS, "dump-cfg", kbd, ",".join(str(c) for c in universe), out], check=False)
    if p.returncode != 0:
        raise ToolError("dump-cfg failed for %s:\n%s" % (name, p.stdout))
    return json.load(open(out)), kbd


def max_number(dump):
    m = 0

    def walk(o):
        nonlocal m
        if isinstance(o, dict):
            for k, v in o.items():
                if k in ("timeout", "d", "thi", "ticks", "interval") and isinstance(v, int):
                    m = max(m, v)
                walk(v)
        elif isinstance(o, list):
            for v in o:
                walk(v)
    walk(dump["acts"])
    m = max(m, dump["opts"]["rapid_event_delay"], dump["switch_max_key_timing"])
    return m


def gen_constants(dump, custom_th=None, caps=None, track_hist=None):
    """TLA+ definitions of the configuration constants of Layout.tla from the parser dump."""
    acts = json.loads(json.dumps(dump["acts"]))
    cth = list(custom_th or [])
    for a in acts:
        if a["t"] == "holdtap" and a["cfg"] == "custom":
            if not cth:
                raise ToolError("dump has a custom tap-hold closure but the instance gives no text-level kind/keys")
            kind, keys = cth.pop(0)
            a["ckind"] = kind
            a["ckeys"] = keys
    uses_hist = any(a["t"] == "switch" for a in acts)
    if track_hist is None:
        track_hist = uses_hist
    c = {"queue": 32, "states": 64, "extra": 8, "actionq": 8, "oneshot": 16, "seqs": 4,
         "stack": 12, "hist": 8 if track_hist else 0, "age": max_number(dump) + 2, "since": 65535}
    if caps:
        c.update(caps)
    opts = dict(dump["opts"])
    opts["switch_max_key_timing"] = dump["switch_max_key_timing"]
    if dump.get("chv2"):      # defchordsv2 table: makes the ChordsV2.tla branch of Layout/Kanata reachable
        opts["chv2"] = dump["chv2"]
        if dump.get("chv2_key_order"):     # per key: its chords (key lists) in the parser's order (KeyRepeat.tla, C14)
            opts["chv2ko"] = {"intmap": dump["chv2_key_order"]}
    # defseq trie: makes the SeqMode.tla branch of Kanata.tla reachable (only for configs that can enter the mode)
    if isinstance(dump.get("sequences"), list) and (dump["sequences"] or opts.get("sequence_always_on")
                                                    or '"seqleader"' in json.dumps(acts)):
        opts["seqtrie"] = dump["sequences"]
    # the parser's KeyOutputs table (per layer: code -> ordered outputs), used by KeyRepeat.tla (C14)
    opts["key_outputs"] = [{"intmap": ko} for ko in dump.get("key_outputs", [])]
    lines = []
    lines.append("ActDef == " + tla_val(acts))
    lines.append("LayerTabDef == " + tla_val(dump["layers"]))
    lines.append("SrcTabDef == " + tla_val(dump["src"], "src"))
    lines.append("OptsDef == " + tla_val(opts))
    lines.append("CapsDef == " + tla_val(c))
    return "\n".join(lines), c


CONST_CFG = """CONSTANT Act <- ActDef
CONSTANT LayerTab <- LayerTabDef
CONSTANT SrcTab <- SrcTabDef
CONSTANT Opts <- OptsDef
CONSTANT Caps <- CapsDef
CONSTANT Bug <- BugDef
"""


# ---------------------------------------------------------------- TLC
def run_tlc(wd, module, workers=8, timeout=600, heap="8g", simulate=None, depth=None,
            env_extra=None, deque=False, coverage=False, stdout_path=None):
    """Runs TLC on wd/module.tla with wd/module.cfg.  Returns dict(stdout_path, rc, stats...)."""
    # several TLC runs may share one work directory (instances explored in parallel): never rewrite a module another run
    # may be reading - skip identical files, and replace changed ones atomically
    for f in os.listdir(SPEC):
        if f.endswith(".tla"):
            src, dst = os.path.join(SPEC, f), os.path.join(wd, f)
            data = open(src, "rb").read()
            try:
                if open(dst, "rb").read() == data:
                    continue
            except OSError:
                pass
            tmp = "%s.%d.%d.tmp" % (dst, os.getpid(), threading.get_ident())
            with open(tmp, "wb") as g:
                g.write(data)
            os.replace(tmp, dst)
    meta = os.path.join(wd, "meta_" + module)
    shutil.rmtree(meta, ignore_errors=True)
    jopts = "-Xss1g"
    if deque:
        jopts += " -Dtlc2.tool.queue.IStateQueue=StateDeque"
    cmd = ["timeout", str(timeout), "java", "-Xmx" + heap, "-XX:+UseParallelGC"] + jopts.split() + [
        "-cp", TLA_JAR + ":" + os.path.join(CM_JAR_GLOB, "CommunityModules-deps.jar"),
        "tlc2.TLC", "-workers", str(workers), "-metadir", meta, "-cleanup", "-noGenerateSpecTE",
        "-config", module + ".cfg"]
    if coverage:
        cmd += ["-coverage", "1"]
    if simulate:
        cmd += ["-simulate", "num=%d" % simulate]
        if depth:
            cmd += ["-depth", str(depth)]
    cmd += [module + ".tla"]
    outp = stdout_path or os.path.join(wd, module + ".out")
    env = dict(os.environ)
    if env_extra:
        env.update(env_extra)
    t0 = time.time()
    with open(outp, "w") as f:
        p = subprocess.run(cmd, cwd=wd, env=env, stdout=f, stderr=subprocess.STDOUT)
    wall = time.time() - t0
    shutil.rmtree(meta, ignore_errors=True)
    res = {"rc": p.returncode, "out": outp, "wall_s": wall}
    res.update(parse_tlc_out(outp))
    return res


def tlc_classpath():
    # the `tlc` wrapper knows where CommunityModules live; find them once
    cands = []
    for root, _, files in os.walk("/opt/veriftools/tla"):
        for f in files:
            if f.endswith(".jar"):
                cands.append(os.path.join(root, f))
    return ":".join(sorted(cands))


def parse_tlc_out(path):
    states = distinct = generated = None
    violated = None
    error = None
    depth = None
    with open(path, errors="replace") as f:
        for line in f:
            if line.startswith("<<\""):
                continue
            m = re.match(r"(\d+) states generated, (\d+) distinct states found, (\d+) states left on queue", line)
            if m:
                generated, distinct = int(m.group(1)), int(m.group(2))
            m = re.match(r"Error: Invariant (\S+) is violated", line)
            if m:
                violated = m.group(1)
            m = re.match(r"Error: Action property (\S+) is violated", line)
            if m:
                violated = m.group(1)
            if line.startswith("Error:") and error is None:
                error = line.strip()
            m = re.match(r"The depth of the complete state graph search is (\d+)", line)
            if m:
                depth = int(m.group(1))
    finished = False
    with open(path, "rb") as f:       # the last bytes only: an output with printed pairs can be hundreds of MB
        f.seek(0, 2)
        f.seek(max(0, f.tell() - 6000))
        tail = f.read().decode("utf-8", errors="replace")
        finished = "Model checking completed" in tail or "Finished in" in tail
    return {"generated": generated, "distinct": distinct, "violated": violated, "error": error,
            "depth": depth, "finished": finished}


EDGE_RE = re.compile(r'^<<"EDGE", "(.*)">>$')


def extract_prints(tlc_out, tag, dest):
    """Extracts PrintT(<<tag, json-string>>) lines into an ndjson file; returns the count."""
    n = 0
    rx = re.compile(r'^<<"%s", "(.*)">>$' % tag)
    with open(tlc_out, errors="replace") as f, open(dest, "w") as g:
        for line in f:
            m = rx.match(line.rstrip("\n"))
            if m:
                s = m.group(1).replace('\\"', '"').replace('\\\\', '\\')
                g.write(s + "\n")
                n += 1
    return n


# ---------------------------------------------------------------- harness calls
def replay_edges(kbd, edges_file, cap, shards=None):
    build_harness()
    shards = shards or min(NCPU, 12)
    lines = open(edges_file).read().splitlines()
    if not lines:
        return {"edges": 0, "mismatches": 0, "panics": 0, "samples": []}
    n = max(1, min(shards, len(lines) // 200 + 1))
    procs = []
    for i in range(n):
        part = edges_file + ".part%d" % i
        with open(part, "w") as f:
            f.write("\n".join(lines[i::n]) + "\n")
        outp = part + ".res.json"
        procs.append((subprocess.Popen([HARNESS, "replay-edges", kbd, part, outp, str(cap)],
                                       stdout=subprocess.PIPE, stderr=subprocess.STDOUT, text=True), part, outp))
    tot = {"edges": 0, "mismatches": 0, "panics": 0, "samples": [], "drift_file": edges_file + ".drift.ndjson"}
    with open(tot["drift_file"], "w") as df:
        for p, part, outp in procs:
            so, _ = p.communicate()
            if p.returncode != 0:
                raise ToolError("replay-edges failed: " + (so or ""))
            r = json.load(open(outp))
            for k in ("edges", "mismatches", "panics"):
                tot[k] += r[k]
            tot["samples"] += r["samples"][:10]
            dpart = outp + ".drift.ndjson"
            if os.path.exists(dpart):
                df.write(open(dpart).read())
                os.remove(dpart)
            os.remove(part)
            os.remove(outp)
    return tot


def run_jobs(jobs, wd, name="job", shards=None, timeout=3600):
    """jobs: list of {"cfg","files","opts","scripts"}; returns path of the ndjson trace file.
    Scripts of a job are sharded over processes (each process handles whole scripts)."""
    build_harness()
    shards = shards or min(NCPU, 12)
    # flatten to (job index, script) so the load is balanced
    flat = []
    for ji, j in enumerate(jobs):
        for s in j["scripts"]:
            flat.append((ji, s))
    n = max(1, min(shards, len(flat) // 50 + 1))
    outs = []
    procs = []
    for i in range(n):
        part = flat[i::n]
        pj = []
        cur = None
        for ji, s in part:
            if cur is None or cur[0] != ji:
                cur = (ji, {"cfg": jobs[ji]["cfg"], "files": jobs[ji].get("files", {}),
                            "opts": jobs[ji].get("opts", {}), "scripts": [], "tag": jobs[ji].get("tag", ji),
                            "params": jobs[ji].get("params", {"none": 0})})
                pj.append(cur[1])
            cur[1]["scripts"].append(s)
        jf = os.path.join(wd, "%s.%d.json" % (name, i))
        of = os.path.join(wd, "%s.%d.ndjson" % (name, i))
        json.dump({"jobs": pj}, open(jf, "w"))
        procs.append((subprocess.Popen([HARNESS, "run", jf, of], stdout=subprocess.PIPE,
                                       stderr=subprocess.STDOUT, text=True), jf, of, pj))
    for p, jf, of, pj in procs:
        try:
            so, _ = p.communicate(timeout=timeout)
        except subprocess.TimeoutExpired:
            p.kill()
            raise ToolError("harness run timed out")
        outs.append((p.returncode, jf, of, pj, so))
    return outs


# ---------------------------------------------------------------- evidence / verdicts
def known_findings():
    p = os.path.join(VERIF, "known_findings.json")
    if os.path.exists(p):
        return json.load(open(p))
    return {"findings": [], "fixed": []}


def write_evidence(pid, tier, seed, level, coverage, wall_s, violations=0, assumptions=None):
    os.makedirs(os.path.join(OUT_DIR, "evidence"), exist_ok=True)
    ev = {"property_id": pid, "tier": tier, "seed": int(seed), "level": level,
          "coverage": coverage, "wall_s": round(float(wall_s), 2), "violations": int(violations),
          "assumptions": assumptions or []}
    with open(os.path.join(OUT_DIR, "evidence", pid + ".json"), "w") as f:
        json.dump(ev, f, indent=1, sort_keys=True, ensure_ascii=True)
    return ev


def write_replay(pid, name, obj):
    d = os.path.join(OUT_DIR, "replays")
    os.makedirs(d, exist_ok=True)
    p = os.path.join(d, "%s_%s.json" % (pid, name))
    with open(p, "w") as f:
        json.dump(obj, f, indent=1, ensure_ascii=True)
    return p


# ---------------------------------------------------------------- trace validation (binding C)
TRACE_TEMPLATE = r"""---- MODULE Trace_%(mon)s ----
EXTENDS %(mon)s, Json, IOUtils
Rec == ndJsonDeserialize(IOEnv.TRACE)
VARIABLES l, mon, cur
Init == l = 1 /\ mon = [err |-> "idle"] /\ cur = <<0, 0>>
StepMon(m, r) ==
  IF m.err # "" THEN m
  ELSE CASE r.e = "t" -> IF r.n = 1 THEN MonTick(m, r.out, r.idle, r.cb)
                          ELSE MonSilent(m, r.n, r.idle, r.cb)
         [] r.e \in {"d", "u", "r", "p", "fk"} -> MonIn(m, r)
         [] r.e = "panic" -> [m EXCEPT !.err = "panic in the code under test: " \o r.loc]
         [] r.e = "error" -> [m EXCEPT !.err = "error from the code under test: " \o r.msg]
         [] OTHER -> m
Next == /\ l <= Len(Rec) /\ l' = l + 1
        /\ LET r == Rec[l] IN
           IF r.e = "reset" THEN mon' = MonInit(r.params) /\ cur' = <<r.job, r.script>>
           ELSE IF r.e = "end" THEN mon' = [err |-> "idle"] /\ UNCHANGED cur
           ELSE mon' = StepMon(mon, r) /\ UNCHANGED cur
\* prints one line per script whose trace the property monitor rejects
ErrPrint == (mon.err = "" /\ mon'.err \notin {"", "idle"}) =>
              PrintT(<<"VERR", ToJson([job |-> cur[1], script |-> cur[2], line |-> l, err |-> mon'.err])>>)
Accepted == TLCGet("stats").diameter - 1 = Len(Rec)
====
"""
TRACE_CFG = """INIT Init
NEXT Next
ACTION_CONSTRAINT ErrPrint
POSTCONDITION Accepted
CHECK_DEADLOCK FALSE
"""


def validate_trace(monitor, trace_file, wd, timeout=1800):
    """Runs the L2 monitor `monitor` (a module in spec/) over a recorded ndjson trace with TLC.
    Returns (n_lines, errs) where errs = list of {job, script, line, err}.
    Raises ToolError if TLC did not consume the whole trace."""
    mod = "Trace_" + monitor
    with open(os.path.join(wd, mod + ".tla"), "w") as f:
        f.write(TRACE_TEMPLATE % {"mon": monitor})
    with open(os.path.join(wd, mod + ".cfg"), "w") as f:
        f.write(TRACE_CFG)
    nlines = sum(1 for _ in open(trace_file))
    outp = os.path.join(wd, mod + "." + os.path.basename(trace_file) + ".out")
    r = run_tlc(wd, mod, workers=1, timeout=timeout, heap="4g", deque=True,
                env_extra={"TRACE": os.path.abspath(trace_file)}, stdout_path=outp)
    errs_f = outp + ".verr"
    extract_prints(outp, "VERR", errs_f)
    errs = [json.loads(x) for x in open(errs_f) if x.strip()]
    txt = open(outp, errors="replace").read()
    if r["rc"] != 0 or "Model checking completed. No error" not in txt:
        raise ToolError("trace validation with %s did not accept/consume %s (rc=%s): %s" %
                        (monitor, trace_file, r["rc"], r["error"] or txt[-1500:]))
    return nlines, errs


def concat_traces(outs, dest):
    """Concatenates the per-shard ndjson outputs of run_jobs into one trace file."""
    with open(dest, "w") as g:
        for rc, jf, of, pj, so in outs:
            if rc != 0:
                raise ToolError("harness run failed rc=%s: %s" % (rc, (so or "")[-2000:]))
            with open(of) as f:
                for line in f:
                    g.write(line)
    return dest
