#!/bin/sh
# usage: tools/seeded_all.sh [dir-pattern]  - runs the quick tier of the property's check against every seeded change
# (seeded/<dir>/patch.diff, property from meta.json) in a scratch worktree; appends to work/seeded_summary.txt
cd "$(dirname "$0")/.."
PAT=${1:-}
OUT=work/seeded_summary.txt
mkdir -p work
for d in seeded/*${PAT}*/; do
  [ -f "$d/patch.diff" ] || continue
  b=$(basename "$d"); id=$(python3 -c "import json,sys;print(json.load(open('$d/meta.json'))['property'])")
  t0=$(date +%s)
  tools/mutant.sh "$d/patch.diff" "$id" quick > work/seeded_$b.log 2>&1; rc=$?
  t1=$(date +%s)
  v=$(grep -c '^VIOLATION' work/seeded_$b.log)
  if [ "$rc" = 1 ]; then res=CAUGHT; elif [ "$rc" = 0 ]; then res=MISSED; else res=TOOLERROR; fi
  echo "$res $b check=$id rc=$rc violations=$v wall=$((t1-t0))s" | tee -a $OUT
done
