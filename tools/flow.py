#!/usr/bin/env python3
"""Common check flow (DESIGN 3.2/3.3):
  A  constants from the parser dump            (mc.gen_instance)
  D  TLC: L1 || L2 || Env exhaustively         (mc.check_instance)
  B  edge-cover replay on the real code        (mc.check_instance -> replay_edges)
  C  traces recorded from the real code, validated by TLC against the L2 monitor
Verdict: VIOLATION only when the L2 monitor rejects a trace recorded from the real code."""
import json, os, random, time
from kv import *
import mc


MAX_LISTED_VIOLATIONS = 25


class Result:
    def __init__(self, pid, tier, seed):
        self.pid, self.tier, self.seed = pid, tier, seed
        self.t0 = time.time()
        self.states = 0
        self.transitions = 0
        self.edges_replayed = 0
        self.drift = 0
        self.traces_validated = 0
        self.trace_lines = 0
        self.samples = []
        self.instances = []
        self.violations = []      # dicts with replay path
        self.known = []
        self.notes = []
        self.extra = {}

    def add_instance(self, r):
        self.states += r.get("states") or 0
        self.transitions += r.get("generated") or 0
        self.edges_replayed += r.get("replayed", 0)
        self.drift += r.get("drift", 0)
        self.instances.append({k: r.get(k) for k in ("name", "states", "generated", "edges", "replayed", "drift",
                                                     "n_monerr", "n_panic", "n_nostutter", "tlc_wall_s", "wall_s")})


def witness_scripts(path, limit=200):
    """PrintT witnesses [h |-> hist, ...] -> harness scripts (shortest first)."""
    ws = []
    if not os.path.exists(path):
        return ws
    for line in open(path):
        line = line.strip()
        if line:
            ws.append(json.loads(line))
    ws.sort(key=lambda w: len(w["h"]))
    return ws[:limit]


def hist_to_script(h, tail_ticks=0):
    s = []
    for st in h:
        if st[0] == "t":
            s.append(["t", 1])
        else:
            s.append(list(st))
    if tail_ticks:
        s.append(["t", tail_ticks])
    return s


def sig_matches(finding, pid, text):
    return finding.get("property") == pid and finding.get("signature") and finding["signature"] in text


def classify(res, pid, desc, text, replay_obj, name):
    """Known finding -> KNOWN-FINDING line; otherwise a violation with a replay file."""
    for f in known_findings().get("findings", []):
        if sig_matches(f, pid, text):
            if f["signature"] not in [k["signature"] for k in res.known]:
                res.known.append({"signature": f["signature"], "what": f.get("what", "")})
            return False
    if len(res.violations) >= MAX_LISTED_VIOLATIONS:
        # enough replay files to act on; the rest is only counted (the exit code is 1 anyway)
        res.extra["violations_not_listed"] = res.extra.get("violations_not_listed", 0) + 1
        return True
    path = write_replay(pid, name, replay_obj)
    res.violations.append({"desc": desc, "replay": path})
    return True


def finish(res, level, rule, assumptions=None, extra_cov=None):
    for k in res.known:
        print("KNOWN-FINDING: property=%s %s" % (res.pid, k["what"] or k["signature"]))
    for v in res.violations:
        print("VIOLATION property=%s replay=%s" % (res.pid, v["replay"]))
    cov = {
        "states": int(res.states), "transitions": int(res.transitions),
        "traces_validated_against_impl": int(res.edges_replayed + res.traces_validated),
        "edges_replayed_on_impl": int(res.edges_replayed),
        "recorded_traces_validated_by_tlc": int(res.traces_validated),
        "recorded_trace_lines": int(res.trace_lines),
        "model_conformance": "ok" if res.drift == 0 else "drift",
        "drift_edges": int(res.drift),
        "instances": res.instances,
        "samples": res.samples[:8] or [{"note": "no sample recorded"}],
        "rule": rule,
        "known_findings_seen": [k["signature"] for k in res.known],
        "notes": res.notes,
    }
    if extra_cov:
        cov.update(extra_cov)
    cov.update(res.extra)
    if level in ("exploration", "fault_enumeration"):
        # these levels need measured evaluations / distinct_nontrivial from the caller (extra_cov / res.extra)
        for k in ("evaluations", "distinct_nontrivial"):
            if k not in cov:
                raise ToolError("flow.finish: level %s needs a measured %r in the coverage" % (level, k))
    write_evidence(res.pid, res.tier, res.seed, level, cov, time.time() - res.t0,
                   violations=len(res.violations), assumptions=assumptions)
    return 1 if res.violations else 0
