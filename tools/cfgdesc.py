#!/usr/bin/env python3
"""Structured configuration descriptions -> .kbd text (given to the real parser) and ->
text-level parameters of the L2 property monitors.  The two renderings are independent of each
other and of the parser dump that parameterises L1."""
import json, os
from kv import *

_kt = None


def keytable():
    global _kt
    if _kt is None:
        build_harness()
        p = os.path.join(workdir("common"), "keytable.json")
        sh([HARNESS, "keytable", p])
        _kt = json.load(open(p))
    return _kt


def code(name):
    return keytable()["names"][name]


MOD_PREFIX = {"lsft": "S-", "lctl": "C-", "lalt": "A-", "lmet": "M-", "ralt": "AG-", "rsft": "RS-",
              "rctl": "RC-", "rmet": "RM-"}


def lname(i):
    return "l%d" % i


def render_action(a):
    t = a["t"]
    if t == "key":
        return a["k"]
    if t == "chord":
        return "".join(MOD_PREFIX[m] for m in a["mods"]) + a["k"]
    if t == "multi":
        return "(multi " + " ".join(render_action(x) for x in a["acs"]) + ")"
    if t == "xx":
        return "XX"
    if t == "trans":
        return "_"
    if t == "src":
        return "use-defsrc"
    if t == "lwh":
        return "(layer-while-held %s)" % lname(a["l"])
    if t == "lsw":
        return "(layer-switch %s)" % lname(a["l"])
    if t == "relkey":
        return "(release-key %s)" % a["k"]
    if t == "rellayer":
        return "(release-layer %s)" % lname(a["l"])
    if t == "th":
        v = a["variant"]
        parts = ["(" + v, str(a.get("tt", 0)), str(a["ht"]), render_action(a["tap"]), render_action(a["hold"])]
        if v in ("tap-hold-release-keys", "tap-hold-except-keys", "tap-hold-press-timeout", "tap-hold-release-timeout"):
            if "timeout" in a:
                parts.append(render_action(a["timeout"]))
            if "keys" in a:
                parts.append("(" + " ".join(a["keys"]) + ")")
        return " ".join(parts) + ")"
    if t == "os":
        return "(%s %d %s)" % (a["variant"], a["timeout"], render_action(a["a"]))
    if t == "td":
        return "(%s %d (%s))" % ("tap-dance-eager" if a.get("eager") else "tap-dance", a["timeout"],
                                  " ".join(render_action(x) for x in a["acs"]))
    if t == "chordv1":
        return "(chord %s %s)" % (a["group"], a["key"])
    if t == "macro":
        return "(%s %s)" % (a["variant"], " ".join(render_macro_item(i) for i in a["items"]))
    if t == "fork":
        return "(fork %s %s (%s))" % (render_action(a["left"]), render_action(a["right"]), " ".join(a["trig"]))
    if t == "raw":
        return a["text"]
    if t == "alias":   # {"t":"alias","n":name,"a":definition}: rendered as a reference, defined by render_kbd in a defalias
        return "@" + a["n"]
    raise ToolError("render_action: unknown %r" % (a,))


def collect_aliases(a, acc):
    """alias nodes below action a, definitions before uses (an alias may only refer to aliases defined earlier)"""
    if isinstance(a, dict):
        for v in a.values():
            if isinstance(v, dict):
                collect_aliases(v, acc)
            elif isinstance(v, list):
                for x in v:
                    collect_aliases(x, acc)
        if a.get("t") == "alias":
            if a["n"] in acc and acc[a["n"]] != a["a"]:
                raise ToolError("alias %s described with two definitions" % a["n"])
            acc.setdefault(a["n"], a["a"])
    return acc


def render_macro_item(i):
    if isinstance(i, int):
        return str(i)
    if isinstance(i, str):
        return i
    if i["t"] == "group":   # {"t":"group","mods":[..],"items":[..]}
        return "".join(MOD_PREFIX[m] for m in i["mods"]) + "(" + " ".join(render_macro_item(x) for x in i["items"]) + ")"
    if i["t"] == "modkey":
        return "".join(MOD_PREFIX[m] for m in i["mods"]) + i["k"]
    if i["t"] == "raw":
        return i["text"]
    raise ToolError("render_macro_item: %r" % (i,))


def render_kbd(desc):
    """desc: {"keys":[names], "layers":[{name: action}], "defcfg": {opt: val}, "extra": [text]}"""
    out = []
    if desc.get("defcfg"):
        out.append("(defcfg " + " ".join("%s %s" % (k, v) for k, v in desc["defcfg"].items()) + ")")
    out.append("(defsrc " + " ".join(desc["keys"]) + ")")
    for x in desc.get("extra", []):
        out.append(x)
    al = {}
    for layer in desc["layers"]:
        for k in desc["keys"]:
            collect_aliases(layer.get(k), al)
    if al:
        out.append("(defalias " + " ".join("%s %s" % (n, render_action(a)) for n, a in al.items()) + ")")
    # optional desc["syntax"]: per layer "layer" (deflayer, the default), "map" (deflayermap listing every defsrc key) or
    # "sparse" (deflayermap that leaves the transparent entries out; with block-unmapped-keys an unlisted key is not
    # documented to be transparent, so "sparse" is then written as "map").  The layers stay in description order: the
    # documentation identifies a layer by its name and the first layer of the file is the base layer, whichever syntax.
    syn = desc.get("syntax") or []
    block = desc.get("defcfg", {}).get("block-unmapped-keys", "no") == "yes"
    for i, layer in enumerate(desc["layers"]):
        s = syn[i] if i < len(syn) else "layer"
        if s == "layer":
            out.append("(deflayer %s %s)" % (lname(i), " ".join(render_action(layer.get(k, {"t": "trans"})) for k in desc["keys"])))
        elif s in ("map", "sparse"):
            prs = [(k, layer.get(k, {"t": "trans"})) for k in desc["keys"]]
            if s == "sparse" and not block:
                prs = [(k, a) for k, a in prs if a.get("t") != "trans"]
            out.append("(deflayermap (%s) %s)" % (lname(i), " ".join("%s %s" % (k, render_action(a)) for k, a in prs)))
        else:
            raise ToolError("render_kbd: unknown layer syntax %r" % (s,))
    return "\n".join(out) + "\n"


# ---- parameters of P_C04 (text level) ------------------------------------------------
def c04_action(a):
    t = a["t"]
    if t == "key":
        return {"t": "key", "kc": code(a["k"])}
    if t == "chord":
        return {"t": "chord", "kcs": [code(m) for m in a["mods"]] + [code(a["k"])]}
    if t == "multi":
        return {"t": "multi", "acs": [c04_action(x) for x in a["acs"]]}
    if t in ("xx", "trans", "src"):
        return {"t": t}
    if t in ("lwh", "lsw", "rellayer"):
        return {"t": t, "l": a["l"]}
    if t == "relkey":
        return {"t": "relkey", "kc": code(a["k"])}
    if t == "alias":    # docs (Aliases): @name stands for the action it was defined as
        return c04_action(a["a"])
    raise ToolError("not in the C04 fragment: %r" % (a,))


def c04_params(desc):
    layers = []
    # keys outside defsrc (desc["unmapped"], only meaningful with process-unmapped-keys yes): documented as
    # passing through unchanged, or as a no-op on every layer with block-unmapped-keys yes (docs: block-unmapped-keys)
    unm = desc.get("unmapped", [])
    block = desc.get("defcfg", {}).get("block-unmapped-keys", "no") == "yes"
    for layer in desc["layers"]:
        layers.append([{"c": code(k), "a": c04_action(layer.get(k, {"t": "trans"}))} for k in desc["keys"]] +
                      [{"c": code(k), "a": {"t": "xx"} if block else {"t": "trans"}} for k in unm])
    return {"layers": layers, "src": [{"c": code(k), "kc": code(k)} for k in list(desc["keys"]) + list(unm)],
            "trans_v2": desc.get("defcfg", {}).get("transparent-key-resolution", "layer-stack") != "to-base-layer",
            "delegate": desc.get("defcfg", {}).get("delegate-to-first-layer", "no") == "yes"}
