#!/usr/bin/env python3
"""Writes seeded/RESULTS.md from work/seeded_summary.txt (last result per seeded change) and the meta.json files."""
import json, os, re
V = os.path.dirname(os.path.dirname(os.path.abspath(__file__)))
last = {}
first = {}
p = os.path.join(V, "work", "seeded_summary.txt")
if os.path.exists(p):
    for line in open(p):
        m = re.match(r"(\w+) (\S+) check=(\w+) rc=(\d+) violations=(\d+) wall=(\d+)s", line.strip())
        if m:
            last[m.group(2)] = m.groups()
            if m.group(1) != "TOOLERROR" or m.group(2) not in first:
                first.setdefault(m.group(2), m.groups())
rows = []
for d in sorted(os.listdir(os.path.join(V, "seeded"))):
    mp = os.path.join(V, "seeded", d, "meta.json")
    if not os.path.exists(mp):
        continue
    meta = json.load(open(mp))
    r = last.get(d)
    res = "not run yet" if not r else {"CAUGHT": "caught (rc 1, %s violation lines)" % r[4], "MISSED": "MISSED (rc 0)",
                                       "TOOLERROR": "tool error (rc %s)" % r[3]}[r[0]]
    if meta.get("coordinator_note") and r and r[0] == "MISSED":
        res = "quiet by design (see coordinator_note in meta.json)"
    if meta.get("coordinator_note") and r and r[0] == "TOOLERROR":
        res = "patch no longer applies to HEAD (see coordinator_note in meta.json)"
    needs = (meta.get("needs_to_manifest") or "").replace("\n", " ").replace("|", "/")
    fr = first.get(d)
    fres = "-" if not fr else {"CAUGHT": "caught", "MISSED": "missed", "TOOLERROR": "tool error"}[fr[0]]
    rows.append("| %s | %s | %s | %s | %s | %s |" % (d, meta.get("property", "?"), (meta.get("summary") or "").replace("\n", " ").replace("|", "/")[:220],
                                                     needs[:260], fres, res))
with open(os.path.join(V, "seeded", "RESULTS.md"), "w") as f:
    f.write("# Seeded changes and what the checks say about them\n\n"
            "Each directory holds a change written by an independent sub-agent that saw only the property text and a scratch worktree\n"
            "(`patch.diff`, the demonstration `demo.diff`, `meta.json` incl. the coordinator's confirmation run). The last column is the\n"
            "result of `tools/seeded_all.sh` = `tools/mutant.sh seeded/<dir>/patch.diff <property> quick` (quick tier of the property's check\n"
            "against a scratch worktree with the patch applied): `first run` is the result when the change was first tried (before any\n"
            "strengthening it prompted), `quick tier` the latest one.\n\n"
            "| seed | property | change | needs to manifest | first run | quick tier |\n|---|---|---|---|---|---|\n" + "\n".join(rows) + "\n")
print("%d seeds, %d with results" % (len(rows), sum(1 for d in last)))
