#!/bin/bash
# usage: tools/seed_verify.sh <PID> [2|3..]   - confirms a seeded change produced by an independent sub-agent:
#   /tmp/seed_<PID> is the scratch worktree, /tmp/seed_<PID>_out/{patch,demo,meta}<N>.{diff,json} the outputs.
#   (1) demo alone on the clean tree: whole suite passes incl. the demo; (2) demo + patch: the suite passes except the demo.
# On success copies patch.diff, demo.diff, meta.json (+ what was run) to /verif/seeded/<PID>[_<N>]/.
set -u
PID=$1; N=${2:-}
R=${ROUND:-}            # ROUND=2: second-round seeds live in /tmp/seed2_<PID>, kept as seeded/<PID>_r2[_N]
WT=/tmp/seed${R}_$PID; OUT=/tmp/seed${R}_${PID}_out
V=$(cd "$(dirname "$0")/.." && pwd)
DEST=$V/seeded/${PID}${R:+_r$R}${N:+_$N}
cd $WT || exit 2
git reset -q --hard && git clean -fdq -e target -e .kverif_harness
run() { CARGO_NET_OFFLINE=true cargo test --workspace --offline --no-fail-fast 2>&1; }
# "N passed M failed"; a test binary that aborts (stack overflow, SIGABRT) prints no result line: cargo's
# "error: test failed" line is counted as one failure
summ() { a=$(grep -c "^error: test failed" "$1"); grep -E "^test result" "$1" | awk -v a="$a" '{p+=$4; f+=$6} END {if (f==0 && a>0) f=a; print p" passed "f" failed"}'; }
git apply "$OUT/demo$N.diff" || { echo "demo does not apply"; exit 2; }
run > /tmp/seedv${R}_${PID}${N}_a.log
A=$(summ /tmp/seedv${R}_${PID}${N}_a.log)
git apply "$OUT/patch$N.diff" || { echo "patch does not apply"; exit 2; }
run > /tmp/seedv${R}_${PID}${N}_b.log
B=$(summ /tmp/seedv${R}_${PID}${N}_b.log)
FAILED=$(grep -E "^test [^ ]+ \.\.\. FAILED" /tmp/seedv${R}_${PID}${N}_b.log | sed 's/^test \(.*\) \.\.\. FAILED/\1/' | tr '\n' ' ')
echo "demo only: $A ; demo+patch: $B ; failing with patch: $FAILED"
case "$A" in *" 0 failed") ;; *) echo "NOT CONFIRMED: demo fails without the patch"; exit 1;; esac
case "$B" in *" 0 failed") echo "NOT CONFIRMED: demo does not fail with the patch"; exit 1;; esac
# the only failures must be tests added by the demo
git reset -q --hard; git clean -fdq -e target -e .kverif_harness; git apply "$OUT/patch$N.diff"
run > /tmp/seedv${R}_${PID}${N}_c.log
C=$(summ /tmp/seedv${R}_${PID}${N}_c.log)
echo "patch only (existing suite): $C"
case "$C" in *" 0 failed") ;; *) echo "NOT CONFIRMED: existing suite fails with the patch"; exit 1;; esac
mkdir -p "$DEST"
cp "$OUT/patch$N.diff" "$DEST/patch.diff"; cp "$OUT/demo$N.diff" "$DEST/demo.diff"
python3 - "$OUT/meta$N.json" "$DEST/meta.json" "$A" "$B" "$C" "$FAILED" <<'P'
import json,sys
m=json.load(open(sys.argv[1]))
m["confirmed_by_coordinator"]={"base_commit_of_worktree":"see base_commit","cmd":"cargo test --workspace --offline --no-fail-fast",
  "demo_only":sys.argv[3],"demo_plus_patch":sys.argv[4],"patch_only_existing_suite":sys.argv[5],"failing_with_patch":sys.argv[6].split()}
json.dump(m,open(sys.argv[2],"w"),indent=1)
P
git reset -q --hard; git clean -fdq -e target -e .kverif_harness
echo "CONFIRMED -> $DEST"
