#!/bin/sh
# usage: tools/mutants_all.sh [pattern]   - runs every mutants/<id>_*.diff (or those matching pattern) through tools/mutant.sh
# against the quick tier of its property; prints a summary table.  Benign mutants (name contains "benign") must give rc 0.
cd "$(dirname "$0")/.."
PAT=${1:-}
OUT=work/mutants_summary.txt
mkdir -p work; : > $OUT
for f in mutants/*${PAT}*.diff; do
  b=$(basename "$f" .diff); id=$(echo "$b" | cut -d_ -f1 | tr a-z A-Z)
  t0=$(date +%s)
  tools/mutant.sh "$f" "$id" quick > work/mutant_$b.log 2>&1; rc=$?
  t1=$(date +%s)
  case "$b" in *benign*) exp=0;; *) exp=1;; esac
  v=$(grep -c '^VIOLATION' work/mutant_$b.log)
  if [ "$rc" = "$exp" ]; then res=OK; else res=UNEXPECTED; fi
  echo "$res $b check=$id rc=$rc expected=$exp violations=$v wall=$((t1-t0))s" | tee -a $OUT
done
