#!/usr/bin/env python3
"""Writes MANIFEST.json from the table below (kept in one place so it stays valid)."""
import json, os
V = os.path.dirname(os.path.dirname(os.path.abspath(__file__)))

BOUNDS = "bounded instances (3-4 keys, <=3 pending events, timeouts 2-5 ticks); deterministic stepper; dev-profile build of /repo"
TECH = "TLC model checking L1||L2 + edge-cover replay on the code + TLC trace validation of recorded traces"

# pid: (category, text, design section, technique, level note)
CHECKS = {
    "C04": ("model_checking",
            "TLC checks the detailed model L1 (spec/Layout.tla, Kanata.tla, constants from the real parser's dump) "
            "against the abstract layered-keymap model P_C04 for all histories within the instance bounds; every model "
            "transition is replayed on the real code (edge cover, zero drift required for the claim); random histories "
            "beyond the bounds are recorded from the real code and validated by TLC against P_C04.",
            "5 C04", TECH, BOUNDS),
    "C05": ("model_checking",
            "TLC checks L1 against the tap-hold monitor P_C05 (exclusivity, documented decision rules with exact ticks in the "
            "sharp zone, buffering order, eventual resolution) for every schedule within the instance bounds, per variant / "
            "hold timeout / tap-repress window / concurrency setting; edge-cover replay binds L1 to the code; random schedules "
            "with gaps around H are recorded from the code and validated by TLC against P_C05.",
            "5 C05", TECH, BOUNDS),
    "C06": ("model_checking",
            "TLC checks L1 against the one-shot monitor P_C06 (second key never modified / nothing modified after the first "
            "release / pcancel ends all / exact expiry tick and next-key modification in the sharp zone / never lingers) for "
            "every schedule within the instance bounds per end-variant, timeout, rapid-event-delay, key or output-chord, 1-2 "
            "one-shot keys; edge-cover replay binds L1 to the code; random schedules and a 20-fold stacked burst are recorded "
            "from the code and validated by TLC against P_C06.",
            "5 C06", TECH, BOUNDS + "; one-shot stack bounded to 3 in the exhaustive instances"),
    "C17": ("model_checking",
            "TLC checks L1 against the tap-dance monitor P_C17 (group-wise accounting of every typed tap: no tap swallowed, no "
            "action for taps not typed; in the sharp zone the exact resolution tick and the exact action for the number of taps "
            "counted, window restart, interruption by another key, list exhaustion, action held until the final release; eager "
            "form: each tap performs its own action at once) for every schedule within the instance bounds; edge-cover replay "
            "binds L1 to the code; model-level counterexamples and random schedules are recorded from the code and validated by "
            "TLC against P_C17.",
            "5 C17", TECH, BOUNDS + "; histories with more than list-length+1 unconsumed taps are not expanded"),
}

NOT_APPLICABLE = {}


def main():
    props = [json.loads(l)["id"] for l in open(os.path.join(V, "properties.jsonl"))]
    checks = []
    for pid in props:
        if pid in CHECKS:
            cat, text, ref, tech, note = CHECKS[pid]
            checks.append({
                "property_id": pid,
                "quick_cmd": "./check %s --tier quick" % pid,
                "thorough_cmd": "./check %s --tier thorough" % pid,
                "evidence_file": "evidence/%s.json" % pid,
                "replay_cmd_template": "./check replay {path}",
                "engine": "tlc+kverif",
                "level_claimed": {"category": cat, "text": text, "design_ref": "DESIGN.md section " + ref},
                "level_note": note,
                "technique": tech,
            })
    na = []
    for pid in props:
        if pid not in CHECKS:
            na.append({"property_id": pid, "reason": NOT_APPLICABLE.get(pid, "check not built yet in this round (planned: DESIGN.md section 5)")})
    m = {
        "version": 1,
        "setup_cmd": "./setup.sh",
        "hooks": {
            "guard": "kanata_verif",
            "enable": "RUSTFLAGS --cfg kanata_verif via harness/.cargo/config.toml (the harness builds /repo as a path dependency)",
            "baseline_off_cmd": "cd /repo && cargo test --workspace --no-fail-fast --offline",
            "source_commits": [],
            "add_only": True,
        },
        "engines": [
            {"name": "tlc+kverif", "path": "check", "serves_properties": sorted(CHECKS.keys()),
             "kind_free_text": "TLA+ specs in spec/ checked by TLC; Rust harness harness/ (kverif) drives the real code; tools/ orchestrates"},
        ],
        "checks": checks,
        "not_applicable": na,
        "notes": "Model-based verification with an explicit TLA+ specification; see DESIGN.md.",
    }
    json.dump(m, open(os.path.join(V, "MANIFEST.json"), "w"), indent=1)


main()
