#!/usr/bin/env python3
"""Writes MANIFEST.json from the table below (kept in one place so it stays valid)."""
import json, os
V = os.path.dirname(os.path.dirname(os.path.abspath(__file__)))

BOUNDS = "bounded instances (3-4 keys, <=3 pending events, timeouts 2-5 ticks); deterministic stepper; dev-profile build of /repo"
TECH = "TLC model checking L1||L2 + edge-cover replay on the code + TLC trace validation of recorded traces"

# pid: (category, text, design section, technique, level note)
CHECKS = {
    "C04": ("model_checking",
            "TLC checks the detailed model L1 (spec/Layout.tla, Kanata.tla, constants from the real parser's dump) "
            "against the abstract layered-keymap model P_C04 for all histories within the instance bounds; every model "
            "transition is replayed on the real code (edge cover, zero drift required for the claim); P_C04's parameters come from the written "
            "description, not from the parser; the family includes two keys holding one layer, keys outside defsrc with "
            "process-/block-unmapped-keys, multis with several transparent items (direct and through aliases), use-defsrc under delegate-to-first-layer and every mix of "
            "deflayer / deflayermap spellings of the same layers; random histories beyond the bounds are recorded "
            "from the real code and validated by TLC against P_C04 (which stops judging once 32 events are pending, as the statement does).",
            "5 C04", TECH, BOUNDS),
    "C05": ("model_checking",
            "TLC checks L1 against the tap-hold monitor P_C05 (exclusivity, documented decision rules with exact ticks in the "
            "sharp zone, buffering order, eventual resolution) for every schedule within the instance bounds, per variant / "
            "hold timeout / tap-repress window / concurrency setting; edge-cover replay binds L1 to the code; random schedules "
            "with gaps around H are recorded from the code and validated by TLC against P_C05.",
            "5 C05", TECH, BOUNDS),
    "C06": ("model_checking",
            "TLC checks L1 against the one-shot monitor P_C06 (second key never modified / nothing modified after the first "
            "release / pcancel ends all / exact expiry tick and next-key modification in the sharp zone, also for release variants "
            "(O2m) / a held one-shot key keeps its output (O5) / the timeout in force is the one of the key tapped last / never active past its "
            "timeout whatever follows (O8) / never lingers) "
            "for every schedule within the instance bounds per end-variant, timeout, rapid-event-delay, key or output-chord, 1-2 "
            "one-shot keys with equal or different timeouts; edge-cover replay binds L1 to the code; random schedules, directed "
            "multi-step scenarios at realistic timeouts (40 / 60+20; default rapid-event-delay with macros as the following key), stacked "
            "activations of 16-25 taps in step with the ticks and a 20-fold burst are recorded from the code and validated by TLC against P_C06.",
            "5 C06", TECH, BOUNDS + "; one-shot stack bounded to 3 in the exhaustive instances"),
    "C01": ("model_checking",
            "TLC checks L1 (Layout.tla, Kanata.tla) composed with the monitor P_C01 (R2: once no physical key is down and the last input "
            "is Bound(config text) ticks back, nothing is pressed at the OS - keys, raw codes, mouse buttons -, the tick emits nothing "
            "and kanata reports idle, on every further tick) for every physically consistent schedule within the instance bounds on one "
            "small instance per feature and per pairwise feature combination (layers, tap-hold variants, one-shot variants, tap-dance, "
            "chords v1, macros and their cancel forms, fork/switch, overrides, balanced virtual keys, hold-for-duration, on-idle, mouse "
            "buttons, release-key/layer, rpt, caps-word; recorded only: chords v2 overlap, dynamic macros cut off by the size limit); every model transition is replayed on the real code; model counterexamples, burst scripts "
            "with the real capacities (queue wrap, >64 states, >8 tap-holds, >16 one-shots, >4 macros), hand-written configurations of "
            "the features outside L1, every custom action kind next to a mouse button in one multi, and random latch-free configurations over the whole action grammar (cfggen) with random consistent "
            "histories + Bound quiet ticks are recorded from the code and validated by TLC against P_C01.",
            "5 C01", TECH,
            BOUNDS + "; stacked one-shots <= 3 and overlapping macros <= 2 in the exhaustive instances; chords v2, defseq modes, zippychord, "
            "unmod, mouse move/scroll, dynamic macros only through recorded traces (exploration); idle not judged for "
            "configurations that can leave a dynamic-macro recording on; can_block observed, not judged"),
    "C02": ("exploration",
            "Every accepted configuration is run in watched worker subprocesses (panic, abort, stack overflow, a step over the watchdog or "
            "an error returned to the loop = violation; replay = config + history): targeted reproducers and capacity floods, every atom/list "
            "action in every context (nesting 2), random configurations over the whole action grammar x arbitrary / consistent / flood "
            "histories over all mapped codes, sweeps of press/repeat/release/tap over all existing key codes, reload requests "
            "(spec/ReloadIdx.tla: lrld / next / prev / num over 1-3 files) through the loop stepper. Model-checked sub-claims: TLC "
            "explores L1 (Layout.tla + ChordsV2.tla, every panic site an explicit guarded branch) with scaled-down capacities under the "
            "arbitrary environment and each reachable site's witnesses are scaled to the real capacities and executed; TLC checks "
            "spec/Contracts.tla (parser guarantee => run-time precondition over boundary values), the real parser's accept/reject decision "
            "is compared with the table and every accepted value is executed.",
            "5 C02", "exploration on the real code driven by TLC-found capacity witnesses and a TLC-checked parser/run-time contract table",
            "exploration (no proof over all configurations); capacity instances depth-bounded (quick 5-18 events, <= 35k states each); dev "
            "profile; inputs restricted to mapped codes; 2 s per-step watchdog confirmed by a second run; cmd/clipboard/push-msg/lrld-file excluded"),
    "C03": ("exploration",
            "TLC enumerates structure-aware mutations of a seed corpus of real configurations (spec/CfgMutate.tla: all single "
            "mutations at all sites, bounded double mutations), a grammar sweep (spec/CfgGrammar.tla), name-resolution graphs for variables, "
            "aliases and templates (spec/CfgRefs.tla, spec/CfgTemplates.tla), key-prefix chords in every position (spec/CfgPrefixes.tla) and every capacity boundary the parser enforces at limit-1 .. "
            "limit+2 (spec/CfgCaps.tla), and states the allowed "
            "outcome relation (spec/CfgOutcome.tla: Ok, or an error whose span lies inside the file it names and whose rendering "
            "succeeds); every text is executed on the real loader in watched worker subprocesses (panic, stack overflow, abort or "
            "timeout = violation) and the recorded outcome tuples are judged by TLC. Sub-claim at model-checking level: the "
            "byte-level lexer / list builder (spec/Lexer.tla) is explored by TLC over all inputs up to the bound and the real "
            "sexpr::parse is compared with it on all strings up to 5 symbols.",
            "5 C03", "TLC-enumerated input space + outcome relation judged by TLC over results recorded from the real parser; "
            "TLC model of the lexer with exhaustive conformance on short strings",
            "exploration over texts (no proof over all texts); seed corpus = cfg_samples, docs, parser tests; 12-symbol lexer alphabet; "
            "3 s watchdog per text; dev-profile build; a known finding covers only its own input class; very large boundary texts in the thorough tier only"),
    "C07": ("model_checking",
            "Part 1: TLC checks the invariant IdleTickIsStutter (where can_block holds a tick emits nothing and is a stutter on everything "
            "that can influence the future) on L1 instances, one per time-driven field of is_idle / can_block, every transition replayed "
            "on the code. Part 2 (decisive): kverif paired cuts histories wherever the REAL can_block_update_idle_waiting returned true and "
            "records lane A = K ticks + continuation vs lane B = continuation (K in {1,2,7,Tmax+1,1000,12000}) and whole histories through "
            "the blocking vs the ticking stepper; TLC judges every recorded pair with P_C07!PairErr (silent gap, decision kept, equal OS "
            "events at equal offsets) on TLC-generated prefixes, random histories, hand-written feature configurations outside L1 (zippy, "
            "defseq, caps-word, mouse, chords v2, dynamic macros) and cfggen configurations. Part 3: TLC checks spec/Loop.tla (the processing "
            "thread: blocked only when idle, every received event followed by a tick, no event lost, on-idle not postponed) and the real "
            "start_processing_loop thread is compared with the stepper on time-insensitive configurations.",
            "5 C07", "TLC invariant on L1 + TLC validation of paired blocking/ticking runs recorded from the real code + TLC model of the loop",
            "model_checking for parts 1-2 within the instance bounds (2-3 keys, <=2 pending events, timeouts 2-6); part 3 is exploration "
            "(real thread, real time, event order only); gaps only from the K set; TCP-thread virtual-key operations while blocked not covered"),
    "C08": ("model_checking",
            "TLC enumerates the macro-body grammar and compares the real parser's SequenceEvent list of every body with "
            "P_C08!MacroExpand (written from the docs); TLC checks L1 against the macro monitor P_C08 (exact step order per "
            "activation, one step per tick, stated delays, completion, cancellation takes effect and releases on time, repeat "
            "only while held, a key shared with a plain key stays down while either holds it, nothing left down when idle / when the loop "
            "may block) for every schedule within the instance "
            "bounds, all 8 variants, cancellation at every step index; edge-cover replay binds L1 to the code; model-level "
            "witnesses, random schedules, cancellation sweeps and bursts of 4-6 concurrent macros are recorded from the code "
            "and validated by TLC against P_C08.",
            "5 C08", TECH, BOUNDS),
    "C09": ("model_checking",
            "TLC checks L1 (Layout.tla chords v1: HandleChord / Decompose; ChordsV2.tla: chord.rs operator by operator with the real "
            "capacities, hooked into Layout event / tick; Kanata.tla) against the monitor P_C09 (accounting: every chord output consumes a "
            "fresh press of each of its keys, nothing fires twice, no participant is also delivered individually, every press is accounted "
            "for at a settled idle point; presses on a layer where a chord is disabled never fire it; the action is not released while its "
            "release rule says held and is released within a slack afterwards; in the sharp zone the set pressed up to the window end / a "
            "release / a non-extending key / an unambiguous completion decides the outcome independently of press order, on that tick; v1 "
            "undefined sets decompose into the greedy largest-prefix sub-chords in press order) per chord table for every schedule within "
            "the bounds; every model transition is replayed on the real code; a TLC-enumerated schedule family (spec/Sched_C09.tla: every "
            "key subset x press permutation x gaps {0,T-1,T,T+1} x release permutation x foreign key at every position x held layer, 2-5 "
            "keys; capacity tables with 17 supersets of one chord; a layer held by a chord's multi action probed by a later key) and random episodes are recorded from the code and validated by TLC against P_C09.",
            "5 C09", TECH, BOUNDS + "; v2 tables with a 3rd/4th key depth-bounded (15-25 steps); v2 undefined sets: only the accounting is "
            "claimed; chord actions that are tap-hold / one-shot / macros and (include ...) chord files not covered"),
    "C10": ("translation_validation",
            "The programs are switch conditions / case lists written as configuration text. TLC enumerates every expression shape "
            "up to the node bound over leaf triples and every truth assignment, evaluates the documented meaning (Switch.tla Denote / "
            "DenoteCases), the compiler model (Compile) and the evaluator model (Run, one TLA+ step per loop iteration), and checks "
            "Run(Compile(e)) = Denote(e); the harness gives the rendered text to the real parser, compares the opcodes with Compile, "
            "and calls the real Switch::actions in every enumerated environment; key-timing thresholds 0..65535 are compared "
            "exhaustively; spec/ActionTerms.tla states what the parser's post-parse passes must leave of every action term; samples run "
            "end to end through the ticking and the blocking stepper (real time, not ticks executed) with inputs bound to every kind "
            "of state, validated by TLC against P_C10. A violation is a "
            "disagreement of the real code with the documented meaning.",
            "5 C10", "TLC evaluation of the documented denotation vs the real parser + evaluator on every enumerated program x environment",
            "expression shapes up to 5 nodes (quick) / 7 (thorough) over 3 leaves per triple; case lists up to 8; dev-profile build"),
    "C11": ("model_checking",
            "TLC checks spec/KeyTables.tla over constants generated from the working tree at check time (discriminant sets of KeyCode "
            "and OsCode parsed from the source, from_u16/as_u16 called for all 65536 values, every key name resolved by the real "
            "str_to_oscode; every name observed through the real parser in 18 configuration positions under no / redefining / new "
            "deflocalkeys blocks): equal code spaces, round trips, a name's code a function of (name, block) only, reserved no-op "
            "codes. Every code is pressed, repeated and released through the real stepper under identity configurations, and a nop key "
            "is sent down every output path (macro, tap-hold, one-shot, chords, overrides, sequences, dynamic macro, zippy ...), identity keys are held across a layer change with OS repeats; the "
            "traces are validated by TLC against P_C11; "
            "random defsrc / deflayermap / process-unmapped-keys lists: the real parser's mapped_keys is compared by TLC with "
            "P_C11.Intercept computed from the text, and across reload scripts (successful, failing late, not parsing, missing) the "
            "intercepted set read through the hook verif_mapped_keys is compared with P_C11.Intercept of the configuration in force.",
            "5 C11", "TLC over tables extracted from the code (exhaustive) + TLC trace validation of the identity pipeline",
            "undefined behaviour of transmute is not observable, only its precondition (equal discriminant sets) is checked; Linux code tables"),
    "C12": ("model_checking",
            "Part 1: TLC enumerates defseq tables (<=3 definitions of <=2 items and <=2 definitions of <=3 items over {a, b, S-a, "
            "S-(a b), O-(a b), O-(a b c)}, plus seeded triples), decides StAccepts (prefix-freedom over every permitted ordering, "
            "arity) in spec/SeqTab.tla and checks the modelled insertion procedure against it; every table goes through the real "
            "parser (accept/reject and trie contents compared; disagreements judged by TLC). Part 2: TLC checks L1 (Kanata.tla + "
            "SeqMode.tla, trie from the parser dump) against the monitor P_C12 (S1 exactly-once, S2, S3 dead end / timeout on the "
            "exact tick, S4 per input mode) for every history within the instance bounds; every model transition is replayed on the "
            "real code incl. the SequenceState; TLC-enumerated typing histories (spec/SeqEnv.tla) for fixed and seeded tables and "
            "random histories - incl. a second leader of another mode pressed mid-sequence and OS repeats of held sequence keys - are "
            "recorded from the code and validated by TLC against P_C12.",
            "5 C12", TECH, BOUNDS + "; MC instances: 2-3 sequence keys + leader, <=2 pending inputs, T in 1..3, typed keys bounded; "
            "P_C12 is soft where the documentation is silent (backtracking matches, a sequence that is also the beginning of a longer "
            "one, overlap groups begun while earlier keys are down); sequence-always-on not combined with hidden-suppressed"),
    "C13": ("model_checking",
            "TLC enumerates override tables x active-key lists and checks the transliteration of key_override.rs (spec/Overrides.tla) "
            "against the relation P_C13.Allowed written from the statement; the real Overrides::override_keys is called on every "
            "exported case and compared (zero drift); results on tables over all 8 modifiers are judged by TLC; pipeline instances "
            "(defoverrides + plain keys) are model-checked L1 || P_C13 with edge-cover replay, and random histories are recorded "
            "from the real stepper - ticking and blocking (no tick after a may-block decision) - and validated by TLC against the "
            "monitor (substituted set while held, outputs released and modifiers back when the combination ends, nothing owed when the "
            "loop may block (O5), OS repeats forwarded for the key the OS sees down); key lists with one key code held twice included.",
            "5 C13", TECH, BOUNDS + "; tables of <= 3 overrides over 2 keys and 3 of the 8 modifiers in the exhaustive part"),
    "C14": ("model_checking",
            "TLC checks L1 (Kanata.tla + KeyRepeat.tla: the KeyOutputs collection over the action algebra and handle_repeat driven by "
            "the parser's own dumped table) against the monitor P_C14 (at most one repeat; only for a key down at the OS; if the held "
            "key is unambiguously what put an output key down on a certainly-active layer a repeat is emitted for one of its outputs, "
            "never a chord's modifier instead of its last-listed key) for every schedule within the instance bounds with an OS repeat "
            "of any held key injected in every state, per key-producing action form nested to depth 2 on 1-3 layers; the parser's table "
            "is compared with the specified collection; edge-cover replay binds L1 to the code; directed and random histories, also on "
            "sequence-mode (defcfg default and explicit leader modes), no-op key, unmod on held / switched layers, chords-v2 and override configurations outside L1, are "
            "recorded from the code and validated by TLC against P_C14.",
            "5 C14", TECH, BOUNDS + "; sequence modes and chords v2 only through recorded traces; completeness claimed only where attribution is unambiguous"),
    "C18": ("model_checking",
            "TLC checks L1 (Kanata.tla FakeKeyOp / CustomPress fakekey, fakekey_idle, fakekey_hold / IdleFire / HeldVkeys; Layout.tla "
            "SeqCustomPending/Active) against the virtual-key reference P_C18 (want[v] driven by press/release/tap/toggle in issue order "
            "whatever the trigger; one event per tick; hold-for-duration released exactly D ticks after the most recent activation, "
            "re-arming only extends; every armed on-idle entry fires once, on the first tick with D idle tick-ends behind it) for every interleaving of "
            "key events, direct handle_fakekey_action calls (the TCP path after name lookup) and ticks within the instance bounds; every "
            "model transition is replayed on the real code; model witnesses, random operation histories, trigger-equivalence histories "
            "(key / macro item / direct) and defseq-termination histories are recorded from the code and validated by TLC against P_C18.",
            "5 C18", TECH,
            BOUNDS + "; 1-3 virtual keys (key / layer-while-held / macro), D in {2,3}; is_idle() taken as the idle signal; sequence trigger "
            "and 8-key trigger-equivalence by recorded traces only; TCP socket not exercised; toggles issued while the key's state is in "
            "flight are a recorded finding and pruned from the quick instances"),
    "C15": ("fault_enumeration",
            "TLC explores spec/Reload.tla (two instances of the detailed model - old and new configuration, constants from the real "
            "parser - under one running state; the deferred reload with exactly do_live_reload's assigned/retained fields; file index "
            "selection) composed with three lanes and the relational monitor P_C15 for every history within the bounds and every fault "
            "kind (valid other/same content, post-parse step fails, two syntax errors, three refusals, missing, unreadable) at every "
            "reload attempt; every transition is replayed on the real code through the deterministic loop stepper (hooks) with fault "
            "injection on temp files; (request state, fault kind, continuation) triples from that graph, scripted retained-state "
            "scenarios and random histories run as lane A (requests), B (request keys neutralised = no reload requested) and C (fresh "
            "instance of the loaded file fed the same inputs - presses, releases and OS repeats - since the reload, compared from the first "
            "common idle point) on the real "
            "code; TLC validates the recorded lane triples against P_C15 (F1 failed reload = no request, F2 when/how a successful "
            "reload is applied + notifications + equals a restart, F3 lrld/next/prev/num index selection in both documented spellings over three files).",
            "5 C15", "TLC exploration of the reload model + edge-cover replay with fault injection + TLC validation of recorded relational lanes",
            "2-3 keys + request keys, <=2 pending events, <=6 inputs before / <=4 after an attempt, <=2-3 attempts per history; 1 ms per "
            "loop iteration via kanata_verif hooks; xset made unavailable; no dynamic-macro recording, clipboard slots, lrld-file; "
            "MAPPED_KEYS and device options not observable; the real blocking loop thread is not exercised"),
    "C16": ("translation_validation",
            "spec/CfgLang.tla defines s-expression trees, Norm (documented semantics of include, platform, templates, variables, "
            "aliases, deflayermap incl. wildcards in any position) and the abstraction steps (incl. conditionals nested in conditionals at "
            "non-top positions) as actions; TLC explores every step at every site and compositions of "
            "steps from a family of base configurations, checks Norm(Step(c)) = Norm(c) and prints every pair; each pair is given "
            "to the real parser: accepted iff accepted, structurally equal parse results, equal traces on shared random histories; "
            "random compositions of the same steps over configurations from the whole action grammar (transcription cross-checked "
            "against TLC's output).",
            "5 C16", "TLC-enumerated rewrite pairs + comparison of the real parser's results and of recorded behaviours on both sides",
            "base family of small configurations; compositions of <= 3 steps exhaustively, random beyond; active platform = linux"),
    "C17": ("model_checking",
            "TLC checks L1 against the tap-dance monitor P_C17 (group-wise accounting of every typed tap: no tap swallowed, no "
            "action for taps not typed; in the sharp zone the exact resolution tick and the exact action for the number of taps "
            "counted, window restart, interruption by another key, list exhaustion, action held until the final release; eager "
            "form: each tap performs its own action at once, past the end of the list a new dance starts; list entries that are macros, XX, release-key, multi) for every schedule within the "
            "instance bounds with one or two tap-dance keys (eager+eager, eager+lazy, lazy+lazy), eager successions to list length + 2; "
            "edge-cover replay binds L1 to the code; model-level counterexamples, TLC-enumerated class witnesses and random schedules are "
            "recorded from the code and validated by TLC against P_C17.",
            "5 C17", TECH, BOUNDS + "; histories with more than list-length+1 unconsumed taps are not expanded"),
    "C19": ("model_checking",
            "TLC checks the detailed model L1 (spec/Kanata.tla + spec/DynMacro.tla: record with the one-event lag, stop/truncate, "
            "record-key-as-stop, size limit, replay pacing constant/recorded incl. the extra ticks inside one tick_ms call, nested "
            "play, recursion guard) against the monitor P_C19 (Recorded = events typed between record and stop minus the stop key minus "
            "the truncated tail plus any-order releases of keys still down; replay output = the P_C04 reference typing Recorded again from "
            "the state at play time; nothing left down when idle; no self-recursion; stops by itself above 2*max+1 stored events) for every "
            "typing history within the bounds of 8 (quick) / 11 (thorough) instances; every model transition is replayed on the real code "
            "(stored macros, record/replay flags, executed tick count compared; zero drift required); scenario scripts enumerated beyond the "
            "bounds (all bodies <=3/4 events x keys held across the start x five ways of stopping; nesting, recursion, re-recording incl. recordings that end up empty, play "
            "while recording, size limit) and random sessions are recorded from the code and validated by TLC against P_C19; model mutants "
            "must be rejected (thorough).",
            "5 C19", TECH,
            "3-5 keys, <=1-3 saved macros, <=2-4 stored events, gaps 0..D ticks per instance; control keys processed before the next input "
            "in the sharp instances (the `late` instance explores the rest: known finding); states with >=2 keys still down at the stop are "
            "not expanded in TLC (HashSet release order) but covered by recorded scenarios; time-sensitive keys: one tap-hold key, "
            "recorded delays; replay pacing judged exactly (per stepper call) except after a key released during the replay; "
            "deterministic stepper; dev-profile build"),
    "C20": ("model_checking",
            "TLC explores spec/Zippy.tla (L1 transliteration of zippychord.rs: press/release/tick, constants and subset-map answers from the "
            "real parser) composed with the text-buffer reference model P_C20 (expected text defined on the history: literal typing, base ++ "
            "expansion (++ smart space), longer chord supersedes, follow-up replaces antecedent, modifiers restored) for every physically "
            "consistent history per dictionary instance (extension, overlap, shared prefixes, follow-ups, upper/lower case, shifts, altgr, "
            "smart space add/full with default and custom punctuation lists, space key); every model transition is replayed on the real code; model-level rejections, drifting edges, "
            "every entry x permutation x gap x shift x 1-2 further keys, non-default deadlines probed on both sides, and random typing over random dictionaries are recorded from the "
            "real code and validated by TLC against P_C20.",
            "5 C20", TECH,
            "dictionaries <= 4 lines over {a,b,c,space}(+comma); D,W in 2..3 ticks in exhaustive instances (up to 20 in recorded runs); "
            "<= 3-4 character presses per hold, histories unbounded; identity layout, one key event per tick; OS ignores a press of a key "
            "already down; caps-word, no-erase/single-output mappings and the 10 000-tick reset (C07) not covered"),
}

NOT_APPLICABLE = {}


def main():
    props = [json.loads(l)["id"] for l in open(os.path.join(V, "properties.jsonl"))]
    checks = []
    for pid in props:
        if pid in CHECKS:
            cat, text, ref, tech, note = CHECKS[pid]
            checks.append({
                "property_id": pid,
                "quick_cmd": "./check %s --tier quick" % pid,
                "thorough_cmd": "./check %s --tier thorough" % pid,
                "evidence_file": "evidence/%s.json" % pid,
                "replay_cmd_template": "./check replay {path}",
                "engine": "tlc+kverif",
                "level_claimed": {"category": cat, "text": text, "design_ref": "DESIGN.md section " + ref},
                "level_note": note,
                "technique": tech,
            })
    na = []
    for pid in props:
        if pid not in CHECKS:
            na.append({"property_id": pid, "reason": NOT_APPLICABLE.get(pid, "check not built yet in this round (planned: DESIGN.md section 5)")})
    m = {
        "version": 1,
        "setup_cmd": "./setup.sh",
        "hooks": {
            "guard": "kanata_verif",
            "enable": "RUSTFLAGS --cfg kanata_verif via harness/.cargo/config.toml (the harness builds /repo as a path dependency)",
            "baseline_off_cmd": "cd /repo && cargo test --workspace --no-fail-fast --offline",
            "source_commits": ["823cc88", "98e5b50"],
            "add_only": True,
        },
        "engines": [
            {"name": "tlc+kverif", "path": "check", "serves_properties": sorted(CHECKS.keys()),
             "kind_free_text": "TLA+ specs in spec/ checked by TLC; Rust harness harness/ (kverif) drives the real code; tools/ orchestrates"},
        ],
        "checks": checks,
        "not_applicable": na,
        "notes": "Model-based verification with an explicit TLA+ specification; see DESIGN.md.",
    }
    json.dump(m, open(os.path.join(V, "MANIFEST.json"), "w"), indent=1)


main()
