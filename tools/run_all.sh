#!/bin/sh
# usage: tools/run_all.sh [quick|thorough] [ids...]  - runs every registered check (or the given ids) one after another; summary on stdout
cd "$(dirname "$0")/.."
TIER=${1:-quick}; shift 2>/dev/null
IDS=${*:-$(python3 -c "import json;print(' '.join(c['property_id'] for c in json.load(open('MANIFEST.json'))['checks']))")}
mkdir -p work/logs
for id in $IDS; do
  t0=$(date +%s)
  ./check $id --tier $TIER > work/logs/all_${id}_$TIER.log 2>&1; rc=$?
  t1=$(date +%s)
  v=$(grep -c '^VIOLATION' work/logs/all_${id}_$TIER.log); k=$(grep -c '^KNOWN-FINDING' work/logs/all_${id}_$TIER.log)
  ev=$(python3-vt -c "
import json,jsonschema,sys
try:
    jsonschema.validate(json.load(open('evidence/$id.json')),json.load(open('/root/.vp/EVIDENCE.schema.json'))); print('evidence-ok')
except Exception as e: print('EVIDENCE-INVALID')" 2>/dev/null)
  echo "$id tier=$TIER rc=$rc violations=$v known=$k wall=$((t1-t0))s $ev"
done
