"""C03 - configuration parsing is total: every text yields a config or a diagnostic.

Level: exploration (TLC-enumerated mutations + grammar sweep + name-resolution graphs (variables, aliases,
templates) + capacity boundaries + byte mutations executed on the real
parser in watched worker subprocesses), with a model-checked sub-claim for the lexer / list builder
(spec/Lexer.tla: machine over all inputs up to N bytes, pure function on all strings up to L symbols,
exact conformance with the real sexpr::parse on all strings up to 5 symbols)."""
import json, os, re, random, time, hashlib, subprocess, threading
from collections import Counter, defaultdict
import kv, flow
import parsefuzz as pf
from kv import ToolError, log, workdir

PID = "C03"
LEXER_MSGS = ("Unterminated string", "Unterminated multiline", "Unexpected closing parenthesis",
              "Unclosed opening parenthesis", "Everything must be in a list")
B2 = "(defsrc a b)\n(deflayer base a b)\n"
# the probed inputs of DESIGN.md section 6 (and the suspected ones): always part of the run
SENTINELS = [
    ("empty-list-in-defalias", B2 + "(defalias () a)", {}),
    ("defvar-self", "(defvar x $x)\n(defsrc a)\n(deflayer base $x)", {}),
    ("fakekey-delay-noarg", "(defsrc a)\n(deflayer base (on-press-fakekey-delay))", {}),
    ("localkeys-767", "(deflocalkeys-linux kk 767)\n(defsrc kk)\n(deflayer base a)", {}),
    ("zippy-no-erase", B2 + "(defzippy f output-character-mappings (x (no-erase)))", {"f": "ab\tcd\n"}),
    ("template-self-call", "(deftemplate a (x) ($x a $x))\n" + B2 + "(t! a t!)", {}),
    ("chordsv2-include-missing", "(defcfg concurrent-tap-hold yes)\n" + B2 + "(defchordsv2 (include kv-no-such-file) () 100 all-released ())", {}),
    ("chordsv2-include-noname", "(defcfg concurrent-tap-hold yes)\n" + B2 + "(defchordsv2 (include) () 100 all-released ())", {}),
    ("chordsv2-include-list", "(defcfg concurrent-tap-hold yes)\n" + B2 + "(defchordsv2 (include (x)) () 100 all-released ())", {}),
    ("raw-string-eof-multibyte", B2 + '(defalias x r#"é', {}),
]


class Cases:
    """The texts of a run, deduplicated."""
    def __init__(self):
        self.items = []
        self.meta = []
        self.seen = set()
        self.generated = Counter()

    def add(self, kind, origin, text, files=None, path=None, disk=None):
        self.generated[kind] += 1
        files = files or {}
        h = hashlib.blake2b(digest_size=12)
        h.update(text.encode("utf-8", "surrogatepass"))
        h.update(b"\0")
        h.update(str(id(files)).encode() if len(files) > 3 else json.dumps(files, sort_keys=True).encode())
        if path:
            h.update(path.encode())
        d = h.digest()
        if d in self.seen:
            return None
        self.seen.add(d)
        it = {"id": len(self.items), "text": text, "files": files}
        if path:
            it["path"] = path
            it["disk"] = disk
        self.items.append(it)
        self.meta.append((kind, origin))
        return it


# ------------------------------------------------------------------ lexer sub-claim
def tlc_ok(r, what):
    txt = open(r["out"], errors="replace").read()
    if r["rc"] != 0 or "Model checking completed. No error" not in txt:
        raise ToolError("%s: TLC did not complete (rc=%s): %s" % (what, r["rc"], r["error"] or txt[-1200:]))


def lexer_subclaim(tier, wd, out):
    """Fills `out` (runs in a thread next to the exploration)."""
    try:
        maxlen, maxsyms = (12, 5) if tier == "quick" else (16, 6)
        d1 = workdir("c03/lexm")
        with open(os.path.join(d1, "LexMachine.cfg"), "w") as f:
            f.write("INIT MInit\nNEXT MNext\nCONSTANT MaxLen = %d\nCONSTANT MaxDepth = %d\n"
                    "INVARIANT MTermination\nINVARIANT MSpanWithin\nINVARIANT MBalancedOrError\n"
                    "INVARIANT MTokensAligned\nCHECK_DEADLOCK FALSE\n" % (maxlen, maxlen))
        r1 = kv.run_tlc(d1, "LexMachine", workers=6, timeout=1500, heap="6g")
        tlc_ok(r1, "LexMachine")
        d2 = workdir("c03/lexall")
        with open(os.path.join(d2, "LexAll.cfg"), "w") as f:
            f.write("INIT Init\nNEXT Next\nCONSTANT MaxSyms = %d\nINVARIANT ResultOK\nCHECK_DEADLOCK FALSE\n" % maxsyms)
        r2 = kv.run_tlc(d2, "LexAll", workers=6, timeout=1500, heap="6g")
        tlc_ok(r2, "LexAll")
        una = os.path.join(d2, "unaligned.ndjson")
        kv.extract_prints(r2["out"], "UNALIGNED", una)
        unaligned = [json.loads(l) for l in open(una) if l.strip()]
        # exact conformance with the real reader, all strings up to 5 symbols
        d3 = workdir("c03/lexconf")
        rec = os.path.join(d3, "lex.ndjson")
        p = kv.sh([kv.HARNESS, "lex-enum", "5", rec, "0", "1"], check=False, timeout=600)
        if p.returncode != 0:
            raise ToolError("lex-enum failed: " + (p.stdout or "")[-800:])
        nrec = 0
        classes = Counter()
        for line in open(rec):
            nrec += 1
            r = json.loads(line)["r"]
            classes["ok" if r["ok"] else r["err"]] += 1
        # vacuity: every result class of the reader occurs among the compared strings
        missing = [c for c in ("ok", "ustr", "umstr", "ucomment", "uclose", "uopen", "topatom") if not classes[c]]
        if missing:
            raise ToolError("lexer conformance is vacuous for result classes %r" % missing)
        with open(os.path.join(d3, "LexConf.cfg"), "w") as f:
            f.write("INIT Init\nNEXT Next\nINVARIANT Conforms\nPOSTCONDITION AllVisited\nCHECK_DEADLOCK FALSE\n")
        r3 = kv.run_tlc(d3, "LexConf", workers=6, timeout=1500, heap="6g", env_extra={"TRACE": rec})
        tlc_ok(r3, "LexConf")
        if r3["distinct"] != nrec:
            raise ToolError("LexConf visited %s of %d records" % (r3["distinct"], nrec))
        df = os.path.join(d3, "diff.ndjson")
        kv.extract_prints(r3["out"], "LEXDIFF", df)
        diffs = [json.loads(l) for l in open(df) if l.strip()]
        out.update({
            "machine": {"max_len_bytes": maxlen, "states": r1["distinct"], "transitions": r1["generated"], "wall_s": round(r1["wall_s"], 1),
                        "invariants": ["MTermination", "MSpanWithin", "MBalancedOrError", "MTokensAligned"]},
            "pure": {"max_symbols": maxsyms, "strings": r2["distinct"], "wall_s": round(r2["wall_s"], 1),
                     "unaligned_error_spans_predicted": len(unaligned)},
            "conformance": {"max_symbols": 5, "strings": nrec, "differences": len(diffs), "wall_s": round(r3["wall_s"], 1),
                            "result_classes_on_code": dict(classes)},
            "unaligned": unaligned, "diffs": diffs,
        })
        if tier != "quick":
            # outcome relation only, all strings up to 7 symbols, on the real reader
            procs = []
            n = min(kv.NCPU, 12)
            for i in range(n):
                procs.append(subprocess.Popen([kv.HARNESS, "lex-enum", "7", "-", str(i), str(n), "check"],
                                              stdout=subprocess.PIPE, stderr=subprocess.DEVNULL, text=True))
            tot = {"strings": 0, "ok": 0, "err": 0, "bad": 0, "samples": []}
            for p in procs:
                so, _ = p.communicate(timeout=3000)
                if p.returncode != 0:
                    raise ToolError("lex-enum check failed")
                j = json.loads(so.strip().splitlines()[-1])
                for k in ("strings", "ok", "err", "bad"):
                    tot[k] += j[k]
                tot["samples"] += j["samples"]
            out["len7"] = tot
    except Exception as e:      # re-raised by the main thread
        out["exc"] = e


# ------------------------------------------------------------------ TLC enumerators
def tlc_mutations(wd, name, seeds, table_enc, maxmut, kinds, hang_sites, timeout=1500):
    """Runs CfgMutate on `seeds` ([{"id","top"}] already encoded); returns the path of the MUT lines."""
    d = workdir("c03/" + name)
    sf = os.path.join(d, "seeds.ndjson")
    with open(sf, "w") as f:
        for s in seeds:
            f.write(json.dumps(s) + "\n")
    with open(os.path.join(d, "CfgMutate.cfg"), "w") as f:
        f.write("INIT Init\nNEXT Next\nCONSTANT MaxMut = %d\nCONSTANT NDonors = 6\nCONSTANT HangSites = %d\n"
                "CONSTANT DoubleKinds = {\"delete\", \"atom-to-empty-list\", \"arity\", \"number-boundary\"}\n"
                "CONSTANT Kinds = %s\nACTION_CONSTRAINT Emit\nCHECK_DEADLOCK FALSE\n" %
                (maxmut, hang_sites, kv.tla_val(set(kinds))))
    r = kv.run_tlc(d, "CfgMutate", workers=8, timeout=timeout, heap="8g", env_extra={"SEEDS": sf})
    tlc_ok(r, "CfgMutate(%s)" % name)
    mf = os.path.join(d, "mut.ndjson")
    n = kv.extract_prints(r["out"], "MUT", mf)
    if n != r["distinct"] - len(seeds):
        raise ToolError("CfgMutate(%s): %d MUT lines for %s states" % (name, n, r["distinct"]))
    os.remove(r["out"])
    return mf, r


ALL_KINDS = ["delete", "duplicate", "wrap", "swap", "splice", "atom-to-empty-list", "number-boundary",
             "name-unknown", "name-self-referential", "unwrap", "arity"]


def structure_mutations(tier, rng, wd, cases, stats):
    texts = pf.collect_seed_texts()
    sin = os.path.join(wd, "seeds.in.ndjson")
    with open(sin, "w") as f:
        for i, (o, t, fl) in enumerate(texts):
            f.write(json.dumps({"id": i, "text": t}) + "\n")
    sout = os.path.join(wd, "seeds.tree.ndjson")
    p = kv.sh([kv.HARNESS, "sexpr-tree", sin, sout], check=False, timeout=300)
    if p.returncode != 0:
        raise ToolError("sexpr-tree failed: " + (p.stdout or "")[-800:])
    trees = [json.loads(l) for l in open(sout)]
    table = []

    def enc(n):
        if "a" in n:
            table.append(n["a"])
            return {"a": len(table) - 1, "k": n["k"]}
        return {"l": [enc(x) for x in n["l"]]}
    seeds = []
    for t in trees:
        o, text, files = texts[t["id"]]
        cases.add("seed", o, text, files)                     # every seed as it is
        if o.startswith("doc:") and "defsrc" not in text:     # a fragment of the guide: complete it
            cases.add("seed", o + "+base", pf.BASE + text, files)
        if t["ok"]:
            n = sum(pf.count_nodes(x) for x in t["top"])
            if n >= 2:
                seeds.append({"id": t["id"], "n": n, "top": [enc(x) for x in t["top"]]})
    stats["seed_texts"] = len(texts)
    stats["seed_trees"] = len(seeds)
    stats["seed_origins"] = dict(Counter(texts[s["id"]][0].split(":")[0] for s in seeds))
    pytrees = {s["id"]: [pf.from_json_tree(x, table) for x in s["top"]] for s in seeds}
    by_size = sorted(seeds, key=lambda s: (s["n"], s["id"]))
    if tier == "quick":
        main = [s for s in by_size if s["n"] <= 120]
        rest = [s for s in by_size if s["n"] > 120]
        rng.shuffle(rest)
        main += [s for s in rest if s["n"] <= 500][:4]         # a few medium seeds, chosen by VERIF_SEED
        selfref = [s for s in by_size if s["n"] <= 60]
        rng.shuffle(selfref)
        selfref = selfref[:60]
        doubles = [s for s in by_size if s["n"] <= 16]
        rng.shuffle(doubles)
        doubles = doubles[:25]
        hang = 1
    else:
        main = by_size
        selfref = by_size
        doubles = [s for s in by_size if s["n"] <= 40]
        hang = 3
    strip = lambda ss: [{"id": s["id"], "top": s["top"]} for s in ss]
    runs = [("mutA", main, 1, [k for k in ALL_KINDS if k != "name-self-referential"]),
            ("mutB", selfref, 1, ["name-self-referential"]),
            ("mutC", doubles, 2, ALL_KINDS[:])]
    stats["tlc_mutation_runs"] = []
    for name, ss, mm, kinds in runs:
        if not ss:
            continue
        # double mutations: the first step must not be counted twice
        mf, r = tlc_mutations(wd, name, strip(ss), table, mm, kinds if mm == 1 else [k for k in kinds if k != "name-self-referential"], hang)
        nm = 0
        for line in open(mf):
            m = json.loads(line)
            if mm == 2 and len(m["k"]) < 2:
                continue
            o, text, files = texts[m["s"]]
            tops = pf.apply_patches(pytrees[m["s"]], m["ps"], table)
            cases.add("+".join(m["k"]), o, pf.render_top(tops), files)
            nm += 1
        stats["tlc_mutation_runs"].append({"run": name, "seeds": len(ss), "seed_nodes": sum(s["n"] for s in ss),
                                           "max_mutations": mm, "states": r["distinct"], "mutations": nm,
                                           "wall_s": round(r["wall_s"], 1)})
        os.remove(mf)
    return texts


def grammar_sweep(tier, rng, wd, cases, stats):
    voc = pf.vocabulary()
    d = workdir("c03/gram")
    vf = os.path.join(d, "vocab.ndjson")
    with open(vf, "w") as f:
        for n, c in voc:
            f.write(json.dumps({"n": n, "c": c}) + "\n")
    a2, a3 = (2, 3)
    with open(os.path.join(d, "CfgGrammar.cfg"), "w") as f:
        f.write("INIT Init\nNEXT Next\nCONSTANT MaxArgs = %d\nCONSTANT MaxArgs3 = %d\nINVARIANT Emit\nCHECK_DEADLOCK FALSE\n" % (a2, a3))
    r = kv.run_tlc(d, "CfgGrammar", workers=8, timeout=1500, heap="6g", env_extra={"VOCAB": vf})
    tlc_ok(r, "CfgGrammar")
    gf = os.path.join(d, "gen.ndjson")
    n = kv.extract_prints(r["out"], "GEN", gf)
    if n != r["distinct"]:
        raise ToolError("CfgGrammar: %d GEN lines for %s states" % (n, r["distinct"]))
    os.remove(r["out"])
    for line in open(gf):
        g = json.loads(line)
        text, files = pf.frame(g["ctx"], g["n"], g["args"])
        cases.add("grammar:" + g["ctx"], g["n"], text, files)
    os.remove(gf)
    stats["grammar"] = {"vocabulary": len(voc), "list_actions": sum(1 for _, c in voc if c == "action"),
                        "max_args": a2, "max_args_action_position": a3, "states": r["distinct"], "wall_s": round(r["wall_s"], 1)}


def refs_sweep(tier, rng, wd, cases, stats):
    """Name-resolution graphs enumerated by TLC (spec/CfgRefs.tla), rendered as defvar and as defalias texts."""
    d = workdir("c03/refs")
    n = 3
    with open(os.path.join(d, "CfgRefs.cfg"), "w") as f:
        f.write("INIT Init\nNEXT Next\nCONSTANT N = %d\nINVARIANT Emit\nCHECK_DEADLOCK FALSE\n" % n)
    r = kv.run_tlc(d, "CfgRefs", workers=4, timeout=900, heap="4g")
    tlc_ok(r, "CfgRefs")
    gf = os.path.join(d, "refs.ndjson")
    m = kv.extract_prints(r["out"], "REFS", gf)
    os.remove(r["out"])

    def var_value(e):
        ref = "$v%d" % e["j"]
        return {"const": "a", "ref": ref, "listref": "(a %s)" % ref, "concat": "(concat x %s)" % ref, "nested": "((%s))" % ref}[e["k"]]

    def alias_value(e):
        ref = "@a%d" % e["j"]
        return {"const": "a", "ref": ref, "listref": "(multi %s b)" % ref, "concat": "(tap-hold 200 200 %s b)" % ref,
                "nested": "(macro %s)" % ref}[e["k"]]
    k = 0
    for line in open(gf):
        g = json.loads(line)
        nn = len(g["g"])
        u = g["use"]
        for sigil, name, form, val in (("$", "v", "defvar", var_value), ("@", "a", "defalias", alias_value)):
            decl = "(%s %s)" % (form, " ".join("%s%d %s" % (name, i + 1, val(e)) for i, e in enumerate(g["g"])))
            if u == 0:
                layer = "a"
            elif u <= nn:
                layer = "%s%s%d" % (sigil, name, u)
            else:
                layer = "(macro %s%s%d)" % (sigil, name, u - nn)
            text = "(defsrc a)\n%s\n(deflayer base %s)\n" % (decl, layer)
            if cases.add("refs:" + form, "g%d" % nn, text, {}):
                k += 1
    os.remove(gf)
    stats["refs"] = {"names": n, "graphs_x_uses": m, "states": r["distinct"], "texts": k, "wall_s": round(r["wall_s"], 1)}


def templates_sweep(tier, rng, wd, cases, stats):
    """Template reference graphs enumerated by TLC (spec/CfgTemplates.tla): bodies that expand ti through
    template-expand and through t!, self / mutual / forward references, nested, used or unused."""
    lit = ["const", "long", "short", "nlong", "nshort"]
    runs = [("lit", 2, lit), ("all", 1, lit + ["subst"])] if tier == "quick" else [("lit", 3, lit), ("all", 2, lit + ["subst"])]
    st = {"runs": [], "texts": 0}
    for name, n, kinds in runs:
        d = workdir("c03/tpl_" + name)
        with open(os.path.join(d, "CfgTemplates.cfg"), "w") as f:
            f.write("INIT Init\nNEXT Next\nCONSTANT N = %d\nCONSTANT Kinds = %s\nINVARIANT Emit\nCHECK_DEADLOCK FALSE\n" %
                    (n, kv.tla_val(set(kinds))))
        r = kv.run_tlc(d, "CfgTemplates", workers=4, timeout=900, heap="4g")
        tlc_ok(r, "CfgTemplates(%s)" % name)
        gf = os.path.join(d, "tpl.ndjson")
        m = kv.extract_prints(r["out"], "TPL", gf)
        os.remove(r["out"])
        k = 0
        for line in open(gf):
            g = json.loads(line)
            if cases.add("templates:" + name, "g%d" % len(g["g"]), pf.template_text(g["g"], g["use"], g["pos"]), {}):
                k += 1
        os.remove(gf)
        st["runs"].append({"run": name, "names": n, "body_kinds": kinds, "graphs_x_uses": m, "states": r["distinct"],
                           "texts": k, "wall_s": round(r["wall_s"], 1)})
        st["texts"] += k
    stats["templates"] = st


def prefixes_sweep(tier, rng, wd, cases, stats):
    """Modifier prefixes x positions x forms enumerated by TLC (spec/CfgPrefixes.tla)."""
    d = workdir("c03/pfx")
    with open(os.path.join(d, "CfgPrefixes.cfg"), "w") as f:
        f.write("INIT Init\nNEXT Next\nINVARIANT Emit\nCHECK_DEADLOCK FALSE\n")
    r = kv.run_tlc(d, "CfgPrefixes", workers=4, timeout=900, heap="4g")
    tlc_ok(r, "CfgPrefixes")
    gf = os.path.join(d, "pfx.ndjson")
    m = kv.extract_prints(r["out"], "PFX", gf)
    if m != r["distinct"]:
        raise ToolError("CfgPrefixes: %d PFX lines for %s states" % (m, r["distinct"]))
    os.remove(r["out"])
    k = 0
    pos = Counter()
    for line in open(gf):
        g = json.loads(line)
        text, files = pf.prefix_text(g["pre"], g["pos"], g["form"])
        if cases.add("prefixes:" + g["pos"], "".join(g["pre"]) + ":" + g["form"], text, files):
            k += 1
            pos[g["pos"]] += 1
    os.remove(gf)
    stats["prefixes"] = {"cases": m, "texts": k, "positions": len(pos), "states": r["distinct"], "wall_s": round(r["wall_s"], 1)}


HEAVY_MS = 60000      # watchdog of the very large boundary texts (60000 layers take several seconds in a dev build)


def caps_sweep(tier, rng, wd, cases, stats):
    """Capacity boundaries enumerated by TLC (spec/CfgCaps.tla): for every capacity the quantities
    {L-1, L, L+1, L+2} in every shape that reaches them.  Returns the cases by item id (for the evidence)."""
    d = workdir("c03/caps")
    with open(os.path.join(d, "CfgCaps.cfg"), "w") as f:
        f.write("INIT Init\nNEXT Next\nCONSTANT Heavy = %s\nINVARIANT Emit\nCHECK_DEADLOCK FALSE\n" % ("FALSE" if tier == "quick" else "TRUE"))
    r = kv.run_tlc(d, "CfgCaps", workers=4, timeout=900, heap="4g")
    tlc_ok(r, "CfgCaps")
    gf = os.path.join(d, "caps.ndjson")
    m = kv.extract_prints(r["out"], "CAP", gf)
    if m != r["distinct"]:
        raise ToolError("CfgCaps: %d CAP lines for %s states" % (m, r["distinct"]))
    os.remove(r["out"])
    codes = pf.local_codes(d)
    if len(codes) < 200:
        raise ToolError("the loader accepts only %d key codes in deflocalkeys" % len(codes))
    byid = {}
    for line in open(gf):
        c = json.loads(line)
        it = cases.add("caps:" + c["c"], "%s=%d" % (c["a"] or c["c"], c["t"]), pf.cap_text(c, codes), {})
        if it:
            if c["c"] in ("layers", "chord-groups") or len(it["text"]) > 100000:
                it["heavy"] = True
            byid[it["id"]] = c
    os.remove(gf)
    stats["capacities"] = {"cases": m, "texts": len(byid), "heavy_texts": sum(1 for i in byid if cases.items[i].get("heavy")),
                           "key_codes_named_by_the_loader": len(codes), "states": r["distinct"], "wall_s": round(r["wall_s"], 1),
                           "by_capacity": dict(Counter(c["c"] for c in byid.values()))}
    return byid


def caps_report(byid, results, stats):
    """Per capacity and shape: where along t the outcome changes (shows that the boundary was really reached)."""
    by = defaultdict(list)
    for i, c in byid.items():
        o = results[i]["outcome"]
        by[(c["c"], c["a"], c["b"], "/".join(c["ops"]))].append((c["t"], o if o != "err" else "diagnostic"))
    flips = Counter()
    rows = []
    for k in sorted(by):
        seq = sorted(by[k])
        ch = ["%d:%s" % (t, o) for j, (t, o) in enumerate(seq) if j == 0 or seq[j - 1][1] != o]
        flips[k[0]] += 1 if len(ch) > 1 else 0
        if len(rows) < 40 and (k[0] != "switch-opcodes" or len(rows) < 6):
            rows.append({"capacity": k[0], "shape": " ".join(x for x in k[1:] if x), "outcome_along_t": ch})
    stats["capacities"]["shapes_with_an_outcome_change_inside_the_window"] = dict(flips)
    stats["capacities"]["outcome_along_t_samples"] = rows


def byte_level(tier, rng, cases, texts, stats):
    per = 12 if tier == "quick" else 150
    n = 0
    for o, text, files in texts:
        if len(text) > 20000 and tier == "quick":
            per_here = 4
        else:
            per_here = per
        for kind, m in pf.byte_mutations(rng, text, per_here):
            if cases.add("bytes:" + kind, o, m, files):
                n += 1
        # the same on an included file, the main text unchanged
        incs = [k for k in files if k.endswith(".kbd") and ("include " + k) in text]
        for k in incs[:2]:
            for kind, m in pf.byte_mutations(rng, files[k], max(2, per_here // 4)):
                f2 = {x: files[x] for x in incs}
                f2[k] = m
                if cases.add("bytes-include:" + kind, o, text, f2):
                    n += 1
    # short raw texts built from the delimiters and multi-byte characters
    toks = pf.OPENERS + pf.MULTI + ["a", " ", "\n", "(defsrc a)", "x y", "$v", "@a"]
    for _ in range(400 if tier == "quick" else 20000):
        t = "".join(rng.choice(toks) for _ in range(rng.randint(1, 7)))
        cases.add("bytes:raw", "raw", rng.choice(["", B2]) + t, {})
    stats["byte_level_distinct"] = n


def as_includes(tier, rng, cases, stats):
    """A sample of the generated texts loaded as an included file (in-memory include set): a diagnostic
    must then name the include and lie inside it."""
    k = 1500 if tier == "quick" else 30000
    idx = list(range(len(cases.items)))
    rng.shuffle(idx)
    n = 0
    for i in idx[:k]:
        it = cases.items[i]
        if it.get("path") or "kvinc.kbd" in it["files"] or it.get("heavy"):
            continue
        f2 = dict(it["files"]) if len(it["files"]) <= 3 else {}
        f2["kvinc.kbd"] = it["text"]
        if cases.add("as-include:" + cases.meta[i][0], cases.meta[i][1], "(include kvinc.kbd)\n", f2):
            n += 1
    stats["as_include"] = n


def on_disk(tier, rng, cases, wd, stats):
    """new_from_file with on-disk include sets (temp dirs under work/)."""
    import shutil
    root = os.path.join(wd, "disk")
    shutil.rmtree(root, ignore_errors=True)
    k = 300 if tier == "quick" else 5000
    idx = [i for i in range(len(cases.items)) if not cases.items[i].get("path") and not cases.items[i].get("heavy")]
    rng.shuffle(idx)
    # prefer texts that have includable files
    idx.sort(key=lambda i: 0 if cases.items[i]["files"] else 1)
    n = 0
    for i in idx[:k]:
        it = cases.items[i]
        d = os.path.join(root, "%d" % n)
        os.makedirs(d)
        main = os.path.join(d, "main.kbd")
        with open(main, "w", encoding="utf-8") as f:
            f.write(it["text"])
        disk = {main: it["text"]}
        for name, content in it["files"].items():
            if "/" in name or name in ("main.kbd",):
                continue
            with open(os.path.join(d, name), "w", encoding="utf-8") as f:
                f.write(content)
            disk[name] = content
        if cases.add("file:" + cases.meta[i][0], cases.meta[i][1], it["text"], it["files"], path=main, disk=disk):
            n += 1
    stats["on_disk"] = n


# ------------------------------------------------------------------ TLC as the judge
def tlc_judge(wd, items, results):
    """CfgOutcome!Allowed evaluated by TLC on the distinct outcome tuples; returns the rejected tuples."""
    tuples = {}
    for it in items:
        r = results[it["id"]]
        o = r["outcome"]
        sp = r.get("span") or []
        n = -1
        if o == "err" and not r.get("nolabel"):
            contents = dict(it["disk"]) if it.get("path") else dict(it["files"], **{pf.MAIN_NAME: it["text"]})
            if r.get("file") in contents:
                n = len(pf.strip_bom(contents[r["file"]]).encode("utf-8"))
        key = (o, tuple(sp), n, bool(r.get("in_bounds", True)))
        tuples.setdefault(key, []).append(it["id"])
    d = workdir("c03/judge")
    tf = os.path.join(d, "outcomes.ndjson")
    keys = list(tuples)
    with open(tf, "w") as f:
        for i, (o, sp, n, ib) in enumerate(keys):
            f.write(json.dumps({"id": i, "o": o, "sp": list(sp), "n": n, "ib": ib}) + "\n")
    with open(os.path.join(d, "CfgJudge.cfg"), "w") as f:
        f.write("INIT Init\nNEXT Next\nINVARIANT Judge\nPOSTCONDITION AllVisited\nCHECK_DEADLOCK FALSE\n")
    r = kv.run_tlc(d, "CfgJudge", workers=4, timeout=900, heap="4g", env_extra={"TRACE": tf})
    tlc_ok(r, "CfgJudge")
    rf = os.path.join(d, "reject.ndjson")
    kv.extract_prints(r["out"], "REJECT", rf)
    rejected = set()
    for l in open(rf):
        if l.strip():
            rejected.update(tuples[keys[json.loads(l)["id"]]])
    return rejected, len(keys)


# ------------------------------------------------------------------ the check
def run(tier, seed):
    t0 = time.time()
    res = flow.Result(PID, tier, seed)
    rng = random.Random(seed)
    wd = workdir("c03")
    kv.build_harness()
    to_ms = 3000 if tier == "quick" else 5000
    stats = {}
    lex = {}
    th = threading.Thread(target=lexer_subclaim, args=(tier, wd, lex))
    th.start()

    cases = Cases()
    for name, text, files in SENTINELS:
        cases.add("sentinel", name, text, files)
    # defchordsv2 reads its include straight from the file system: a chord file without a tab
    notab = os.path.join(wd, "kv-chords-without-tab.txt")
    with open(notab, "w") as f:
        f.write("ab cd\n")
    cases.add("sentinel", "chordsv2-include-notab", "(defcfg concurrent-tap-hold yes)\n" + B2 +
              "(defchordsv2 (include %s) () 100 all-released ())" % notab, {})
    texts = structure_mutations(tier, rng, wd, cases, stats)
    log("[c03] structure mutations: %d texts (%.0fs)" % (len(cases.items), time.time() - t0))
    grammar_sweep(tier, rng, wd, cases, stats)
    log("[c03] + grammar sweep: %d texts (%.0fs)" % (len(cases.items), time.time() - t0))
    refs_sweep(tier, rng, wd, cases, stats)
    templates_sweep(tier, rng, wd, cases, stats)
    log("[c03] + name-resolution graphs: %d texts (%.0fs)" % (len(cases.items), time.time() - t0))
    capcases = caps_sweep(tier, rng, wd, cases, stats)
    log("[c03] + capacity boundaries: %d texts (%.0fs)" % (len(cases.items), time.time() - t0))
    prefixes_sweep(tier, rng, wd, cases, stats)
    log("[c03] + modifier prefixes: %d texts (%.0fs)" % (len(cases.items), time.time() - t0))
    byte_level(tier, rng, cases, texts, stats)
    as_includes(tier, rng, cases, stats)
    on_disk(tier, rng, cases, wd, stats)
    log("[c03] + byte level, includes, on-disk: %d texts (%.0fs)" % (len(cases.items), time.time() - t0))

    th.join()
    if "exc" in lex:
        raise lex["exc"]
    # strings on which the model predicts a span that is not on a character boundary, and strings
    # on which the real reader and the model disagree (drift), go through the probe as well
    for u in lex["unaligned"][:200]:
        cases.add("lexer:unaligned-span", "Lexer.tla", B2 + "(defalias x " + bytes(u["b"]).decode("utf-8"), {})
        cases.add("lexer:unaligned-span", "Lexer.tla", bytes(u["b"]).decode("utf-8"), {})
    for dfr in lex["diffs"][:500]:
        cases.add("lexer:drift", "Lexer.tla", bytes(dfr["b"]).decode("utf-8"), {})

    heavy = [it for it in cases.items if it.get("heavy")]
    results = pf.run_probe([it for it in cases.items if not it.get("heavy")], wd, "probe", to_ms=to_ms)
    if heavy:
        # very large boundary texts: own watchdog, few at a time (a text with 60000 layers needs 1.5 GB)
        results.update(pf.run_probe(heavy, wd, "heavy", to_ms=HEAVY_MS, shards=3, per_shard=1))
    # a watchdog expiry on a loaded machine is confirmed alone with three times the budget before it counts:
    # per signature the smallest texts first; when all of those are confirmed the rest of the signature stands as
    # recorded, when one of them terminates after all every text of the signature is run again
    slow = defaultdict(list)
    for it in cases.items:
        if results[it["id"]]["outcome"] == "timeout" and not it.get("heavy"):
            slow[pf.judge(it, results[it["id"]])["signature"]].append(it)
    stats["timeouts_confirmed"] = 0
    stats["timeouts_of_a_confirmed_signature_not_rerun"] = 0
    stats["slow_but_terminating"] = 0
    for sig in sorted(slow):
        its = sorted(slow[sig], key=lambda it: (len(it["text"]), it["id"]))
        todo, rest = its[:6], its[6:200]
        while todo:
            again = pf.run_probe(todo, wd, "confirm", to_ms=3 * to_ms, shards=8, per_shard=1)
            ended = 0
            for it in todo:
                if again[it["id"]]["outcome"] != "timeout":
                    results[it["id"]] = again[it["id"]]
                    stats["slow_but_terminating"] += 1
                    ended += 1
                else:
                    stats["timeouts_confirmed"] += 1
            todo, rest = (rest, []) if ended else ([], rest)
        stats["timeouts_of_a_confirmed_signature_not_rerun"] += len(rest) + max(0, len(its) - 200)
    log("[c03] probed %d texts (%.0fs)" % (len(results), time.time() - t0))

    # verdicts: Python (for signatures) and TLC (the relation of the spec) must agree
    bad = {}
    for it in cases.items:
        j = pf.judge(it, results[it["id"]])
        if j:
            bad[it["id"]] = j
    caps_report(capcases, results, stats)
    rejected, ntuples = tlc_judge(wd, cases.items, results)
    if rejected != set(bad):
        diff = list(rejected ^ set(bad))[:5]
        raise ToolError("CfgOutcome!Allowed (TLC) and the tools disagree on cases %r" % diff)

    # clusters: by signature, and by whether the text lies inside the input class of a known finding with that
    # signature (exact signature - file:line / input class, not a prefix - and every `requires` regex of the
    # finding matches the text with its files); the same site reached by another class of input is a new violation
    known = [f for f in kv.known_findings().get("findings", []) if f.get("property") == PID and f.get("signature")]

    def known_for(i, sig):
        it = cases.items[i]
        whole = it["text"] + ("".join("\n" + v for v in it["files"].values()) if len(it["files"]) <= 3 else "")
        for f in known:
            if f["signature"] == sig and all(re.search(rx, whole) for rx in f.get("requires", [])):
                return f
        return None
    clusters = defaultdict(list)
    for i, j in bad.items():
        clusters[(j["signature"], known_for(i, j["signature"]) is not None)].append(i)
    cl_out = []
    for sig, is_known in sorted(clusters):
        ids = sorted(clusters[(sig, is_known)], key=lambda i: (len(cases.items[i]["text"]) + sum(len(v) for v in cases.items[i]["files"].values()), i))
        it = cases.items[ids[0]]
        text = it["text"]
        if not is_known and not it.get("path") and not it.get("heavy"):
            text = pf.minimise(it, sig, wd, budget_s=25 if tier == "quick" else 90, to_ms=to_ms)
        replay = {"property": PID, "kind": "parse", "signature": sig, "text": text, "files": it["files"] if len(it["files"]) <= 3 else
                  {k: v for k, v in it["files"].items() if k in text}, "desc": bad[ids[0]]["desc"],
                  "generated_by": list(cases.meta[ids[0]]), "count": len(ids)}
        if it.get("path"):
            replay["on_disk"] = True
        if it.get("heavy"):
            replay["to_ms"] = HEAVY_MS
        if is_known:
            res.known.append({"signature": sig, "what": known_for(ids[0], sig).get("what", "")})
        else:
            path = kv.write_replay(PID, hashlib.md5(sig.encode()).hexdigest()[:8], replay)
            res.violations.append({"desc": bad[ids[0]]["desc"], "replay": path})
        cl_out.append({"signature": sig, "count": len(ids), "known": is_known, "example": text[:300],
                       "kinds": dict(Counter(cases.meta[i][0].split(":")[0] for i in ids).most_common(5))})

    # evidence
    outcomes = Counter(results[it["id"]]["outcome"] for it in cases.items)
    nontrivial = 0
    msgs = Counter()
    for it in cases.items:
        r = results[it["id"]]
        if r["outcome"] == "err":
            m = r.get("msg") or ""
            if m.startswith(LEXER_MSGS):
                continue
            msgs[m[:60]] += 1
        nontrivial += 1
    bykind = Counter(k.split(":")[0] if k.startswith(("bytes", "grammar", "as-include", "file", "lexer", "refs", "templates", "caps", "prefixes")) else "structure:" + k
                     for k, _ in cases.meta)
    samples = []
    want = ["sentinel", "splice", "arity", "number-boundary", "name-self-referential", "grammar:action", "bytes:openend", "delete+arity",
            "templates:lit", "caps:seq-overlap", "caps:switch-depth", "prefixes:defseq-first", "prefixes:override-in"]
    for w in want:
        for i, (k, o) in enumerate(cases.meta):
            if k == w and len(cases.items[i]["text"]) < 400:
                r = results[i]
                samples.append({"kind": k, "seed": o, "text": cases.items[i]["text"], "outcome": r["outcome"],
                                "msg": r.get("msg"), "span": r.get("span"), "file": r.get("file")})
                break
    lexcov = {k: lex[k] for k in ("machine", "pure", "conformance") if k in lex}
    if "len7" in lex:
        lexcov["outcome_relation_len7_on_code"] = {k: lex["len7"][k] for k in ("strings", "ok", "err", "bad")}
        if lex["len7"]["bad"]:
            raise ToolError("lex-enum check: the real reader left the outcome relation on %r" % lex["len7"]["samples"][:3])
    cov = {
        "evaluations": len(results),
        "distinct_nontrivial": nontrivial,
        "rule": "Texts: every seed (shipped samples, config blocks of docs/config.adoc, config literals of the parser and "
                "simulation tests, parser/test_cfgs) as is; ALL single structure-aware mutations at ALL sites of the selected seeds and "
                "pairs of mutations on the smallest seeds, enumerated by TLC from spec/CfgMutate.tla (delete, duplicate, swap, splice, "
                "wrap/unwrap, atom->(), number->boundary, name->unknown, name->self-referential definition, list arity 0..n+1); the "
                "vocabulary x argument-list sweep of spec/CfgGrammar.tla; the name-resolution graphs of spec/CfgRefs.tla (defvar / "
                "defalias) and spec/CfgTemplates.tla (deftemplate bodies that expand ti through template-expand and through t!, self / "
                "mutual / forward references, nested, used or unused); the capacity boundaries of spec/CfgCaps.tla (every documented or "
                "announced capacity at L-1, L, L+1, L+2 in every shape that reaches it: switch opcode list with 1- and 2-opcode last "
                "items and nested lists closing at the end, switch depth, key-recency, chord-group keys, virtual keys, O-(..) lists, "
                "local key codes, defsrc size, distances, list widths 255 / 4095; thorough: layers, chord groups, widths 65535); the modifier "
                "prefixes of spec/CfgPrefixes.tla (every prefix and ordered pair of prefixes, ASCII and unicode spellings, x every position "
                "with its own prefix handling - action, multi, tap-hold, macro, defseq key list, defoverrides, unmod, defzippy, chords, "
                "switch, alias / variable, key-name lists - x {key, group, bare prefix}); byte-level mutations (truncate, bit flip, multi-byte insert, "
                "unterminated string/comment openers, slice delete/duplicate, control characters) of every seed and of included files; "
                "a sample re-run as an included file and through new_from_file with on-disk include sets. Each text is loaded by "
                "new_from_str/new_from_file and its diagnostic rendered (Debug of the miette report + graphical handler) in a worker "
                "subprocess (8 MiB stack, catch_unwind, per-text watchdog, address-space limit). evaluations = distinct (text, file set) "
                "pairs executed; distinct_nontrivial = those that got beyond the reader (outcome ok, a diagnostic other than the six "
                "lexer/list-builder errors, or a crash). A violation is a panic / abort / stack overflow / watchdog timeout / a "
                "diagnostic location outside the file it names (CfgOutcome!Allowed, evaluated by TLC on every distinct outcome). The "
                "signature of a hang / stack overflow names the parser entry AND the input class (for templates: recursion written in a "
                "deftemplate body | expansion call produced by parameter substitution), a known finding covers only its own class.",
        "samples": samples,
        "generated_before_dedup": sum(cases.generated.values()),
        "by_generator": dict(bykind.most_common()),
        "outcomes": dict(outcomes),
        "distinct_diagnostics": len(msgs),
        "distinct_outcome_tuples_judged_by_tlc": ntuples,
        "failure_clusters": cl_out,
        "watchdog_ms": to_ms,
        "lexer_subclaim": lexcov,
        "states": int(lex["machine"]["states"] + lex["pure"]["strings"]),
        "transitions": int(lex["machine"]["transitions"] + lex["pure"]["strings"]),
        "traces_validated_against_impl": int(lex["conformance"]["strings"]),
        "model_conformance": "ok" if not lex["diffs"] else "drift",
        "drift_strings": len(lex["diffs"]),
        "known_findings_seen": [k["signature"] for k in res.known],
    }
    cov.update(stats)
    for k in res.known:
        print("KNOWN-FINDING: property=%s %s" % (PID, k["what"] or k["signature"]))
    for v in res.violations:
        print("VIOLATION property=%s replay=%s" % (PID, v["replay"]))
    kv.write_evidence(PID, tier, seed, "exploration", cov, time.time() - t0, violations=len(res.violations),
                      assumptions=["dev-profile build (overflow checks on), Linux deflocalkeys variant",
                                   "a text that needs more than the watchdog (%d ms) to load counts as non-terminating" % to_ms,
                                   "stack of 8 MiB as for the main thread of the shipped binary",
                                   "the parser entry of a stack overflow / hang is inferred from the text (the process is gone)",
                                   "lexer model: 12-symbol alphabet (one 2-byte character); longer multi-byte characters only through the byte-level mutations",
                                   "capacity boundaries: options of other platforms (windows-interception hardware ids, limit 1024) are only read over by "
                                   "this Linux build; the very large boundary texts (60000 layers, 65536 chord groups, 65535-item lists) run in the "
                                   "thorough tier only, with a %d ms watchdog" % HEAVY_MS])
    log("[c03] %d texts, outcomes %s, %d clusters, %.0fs" % (len(results), dict(outcomes), len(clusters), time.time() - t0))
    return 1 if res.violations else 0


def replay(r, path, wd):
    """./check replay <file>: load the recorded text again (8 MiB stack, watchdog) and judge the outcome."""
    kv.build_harness()
    it = {"id": 0, "text": r["text"], "files": r.get("files", {})}
    if r.get("on_disk"):
        import shutil
        d = os.path.join(wd, "c03disk")
        shutil.rmtree(d, ignore_errors=True)
        os.makedirs(d)
        main = os.path.join(d, "main.kbd")
        with open(main, "w", encoding="utf-8") as f:
            f.write(it["text"])
        disk = {main: it["text"]}
        for name, content in it["files"].items():
            if "/" not in name and name != "main.kbd":
                with open(os.path.join(d, name), "w", encoding="utf-8") as f:
                    f.write(content)
                disk[name] = content
        it["path"], it["disk"] = main, disk
    res = pf.run_probe([it], wd, "replay", to_ms=int(r.get("to_ms", 5000)), shards=1)[0]
    print("text (%d bytes):\n%s" % (len(it["text"].encode("utf-8")), it["text"][:2000]))
    for k, v in it["files"].items():
        print("file %s (%d bytes)" % (k, len(v.encode("utf-8"))))
    print("outcome: %s" % json.dumps({k: v for k, v in res.items() if k not in ("id", "us")}))
    j = pf.judge(it, res)
    if j:
        print("REJECTED by CfgOutcome!Allowed: %s [%s]" % (j["desc"], j["signature"]))
        print("VIOLATION property=%s replay=%s" % (r.get("property", PID), path))
        return 1
    print("allowed outcome (ok, or a diagnostic located inside the file it names)")
    return 0
