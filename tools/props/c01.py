"""C01 - no stuck output: once all keys are up kanata releases everything and goes idle, within a bound given by
the configured timeouts and macro lengths.

  (a) TLC: L1 || P_C01 exhaustively on a family of small instances (one per feature + pairwise combinations),
      every model transition replayed on the real code (mc.check_instance);
  (b) burst scripts on the real code with the real capacities (queue wrap, >64 states, >8 tap-holds,
      >16 one-shots, >4 macros), recorded and validated by TLC against P_C01;
  (c) random latch-free configurations over the whole action grammar (tools/cfggen.py) + hand-written
      configurations for the features L1 does not model (chords v2, defseq modes, zippychord, caps-word, unmod,
      mouse movement / scroll, dynamic macros), random physically consistent histories with gaps around the
      configuration's own numbers, then Bound quiet ticks; recorded and validated by TLC against P_C01.
"""
import re
from props.common import *
import cfggen

PID = "C01"
MON = "P_C01"
SLACK = 200


# ------------------------------------------------------------------ text-level parameters of P_C01
def tokens(text):
    """atoms and parentheses of a .kbd text (comments and strings removed)"""
    text = re.sub(r'#\|.*?\|#', ' ', text, flags=re.S)
    text = re.sub(r';;[^\n]*', ' ', text)
    text = re.sub(r'"[^"\n]*"', ' S ', text)
    return re.findall(r'[()]|[^\s()]+', text)


def text_params(kbd, extra=0, slack=SLACK):
    """Bound ingredients from the configuration text: the sum of all numbers written in it (timeouts, delays,
    intervals, durations; other numbers only make the bound more generous) + 4 per item inside a macro."""
    toks = tokens(kbd)
    total = 0
    red = 5
    depth = 0
    macro_depth = []          # stack of paren depths at which a macro list was opened
    prev = None
    for i, t in enumerate(toks):
        if t == "(":
            depth += 1
            if i + 1 < len(toks) and re.match(r'(macro|dynamic-macro)', toks[i + 1]):
                macro_depth.append(depth)
        elif t == ")":
            if macro_depth and macro_depth[-1] == depth:
                macro_depth.pop()
            depth -= 1
        else:
            if re.fullmatch(r'\d+', t):
                v = int(t)
                if v <= 65535:
                    total += v
                if prev == "rapid-event-delay":
                    red = v
            if macro_depth:
                total += 4
        prev = t
    # a time-out that is in force although the text does not write it: the default sequence-timeout (1000 ticks) when a
    # sequence leader can be pressed (also from inside a macro / virtual key) and no sequence-timeout is configured
    if ("sldr" in toks or "sequence" in toks or "defseq" in toks) and "sequence-timeout" not in toks:
        extra += 1000
    p = {"sum": total, "red": red, "slack": slack}
    if extra:
        p["extra"] = extra
    if re.search(r"\(dynamic-macro-record\s+\d", kbd):
        p["rec"] = True       # a recording may be left switched on by the history: `idle` is not judged
    return p


def bound_of(p):
    return 2 * p["sum"] + 64 * (p["red"] + 1) + p["slack"] + p.get("extra", 0)


# ------------------------------------------------------------------ (a) the exhaustive instance family
HDR = "(defcfg rapid-event-delay %d%s)\n(defsrc %s)\n"


def cfg(keys, body, red=1, opts=""):
    return HDR % (red, (" " + opts) if opts else "", " ".join(keys)) + body.strip() + "\n"


def family(tier):
    """(name, kbd, key names, instance options)"""
    F = []

    def add(name, keys, body, red=1, opts="", quick=True, **inst):
        if tier == "quick" and not quick:
            return
        F.append((name, cfg(keys, body, red, opts), list(keys), inst))

    # ---- one per feature
    add("layers", "abc", "(deflayer l0 (layer-while-held l1) (layer-switch l1) x)\n"
                         "(deflayer l1 _ (layer-switch l0) (multi lsft y))", qmax=3)
    add("taphold", "ab", "(deflayer l0 (tap-hold 0 3 x lsft) (tap-hold-release 0 2 y lctl))", qmax=3, quick=False)
    add("taphold_conc", "ab", "(deflayer l0 (tap-hold 0 3 x lsft) (tap-hold-press 0 2 y lctl))",
        opts="concurrent-tap-hold yes", qmax=3)
    add("taphold_timeout", "ab", "(deflayer l0 (tap-hold-release-timeout 0 3 x lsft z) y)", qmax=3, quick=False)
    add("taphold_keys", "abc", "(deflayer l0 (tap-hold-release-keys 0 3 x lsft (b)) y z)", qmax=2, quick=False,
        custom_th=[("release-keys", [48])])
    add("oneshot_press", "abc", "(deflayer l0 (one-shot-press 3 lsft) y z)", qmax=3, osbound=3, quick=False)
    add("oneshot_release", "abc", "(deflayer l0 (one-shot-release 3 lsft) (one-shot-press-pcancel 2 lctl) z)", qmax=2,
        osbound=3)
    add("oneshot_rpc", "ab", "(deflayer l0 (one-shot-release-pcancel 3 S-lalt) y)", qmax=3, osbound=3, quick=False)
    add("tapdance", "ab", "(deflayer l0 (tap-dance 3 (x S-y lctl)) z)", qmax=3, quick=False)
    add("chordv1", "abc", "(defchords g 3 (a) x (b) y (a b) S-z)\n"
                          "(deflayer l0 (chord g a) (chord g b) lctl)", qmax=2, quick=False)
    add("macro", "ab", "(deflayer l0 (macro S-(x 1 y)) (macro C-x))", qmax=2, seqbound=2)
    add("macro_repeat", "ab", "(deflayer l0 (macro-repeat S-x 1) y)", qmax=2, seqbound=2, quick=False)
    add("fork_switch", "abc", "(deflayer l0 lsft (fork x (multi lctl y) (lsft)) "
                              "(switch (lsft) z break ((not lsft)) (multi lalt w) break))", qmax=2, track_hist=False)
    add("overrides", "abc", "(defoverrides (lsft a) (x) (lsft lctl a) (lalt y))\n(deflayer l0 lsft a lctl)", qmax=3)
    add("vkeys_balanced", "ab", "(defvirtualkeys v (multi lctl (layer-while-held l1)))\n"
                                "(deflayer l0 (multi (on-press press-vkey v) (on-release release-vkey v)) x)\n"
                                "(deflayer l1 _ (multi lsft y))", qmax=3)
    add("holdfor", "ab", "(defvirtualkeys v lsft)\n(deflayer l0 (hold-for-duration 3 v) x)", qmax=3)
    add("onidle", "ab", "(defvirtualkeys v S-x)\n(deflayer l0 (on-idle 3 tap-vkey v) y)", qmax=2, quick=False)
    add("mouse", "ab", "(deflayer l0 mlft (multi mrgt lsft mltp))", qmax=3, quick=False)
    add("release_state", "abc", "(deflayer l0 (multi lsft (layer-while-held l1)) (multi x (release-key lsft)) z)\n"
                                "(deflayer l1 _ (multi y (release-layer l1)) lctl)", qmax=3, quick=False)
    add("repeat", "ab", "(deflayer l0 S-x rpt)", qmax=3, quick=False)
    # mouse wheel in L1 (Kanata.tla HandleScrolling): vertical and horizontal slot, the second key of a slot takes it over
    add("mwheel", "abc", "(deflayer l0 (mwheel-up 2 120) (mwheel-down 3 50) (multi lsft (mwheel-left 2 10)))", qmax=2)
    # caps-word in L1 (Kanata.tla CwStep): a key to capitalise, a non-terminal key, a terminating key; timeout 3
    add("capsword", "abcd", "(deflayer l0 (caps-word-custom 3 (b) (c)) b c d)", qmax=2)
    add("capsword_toggle", "abc", "(deflayer l0 (caps-word-custom-toggle 4 (b) ()) b (multi lctl c))", qmax=2, quick=False)
    # ---- pairwise combinations
    add("layer_x_taphold", "abc", "(deflayer l0 (tap-hold 0 3 x (layer-while-held l1)) y (layer-while-held l1))\n"
                                  "(deflayer l1 _ (tap-hold-press 0 2 z lsft) _)", qmax=2)
    add("oneshot_x_chordv1", "ab", "(defchords g 3 (a) x (b) (one-shot 3 lsft) (a b) (one-shot-release 2 lctl))\n"
                                   "(deflayer l0 (chord g a) (chord g b))", qmax=3, osbound=3)
    add("macro_x_relcancel", "ab", "(deflayer l0 (macro-release-cancel S-(x 1 y)) (macro-cancel-on-press C-(x 1 y)))",
        qmax=2, seqbound=2, quick=False)
    # the cancelling key must not itself clean up (a release-cancel key clears every macro-held key when released)
    add("macro_relcancel", "ab", "(deflayer l0 (macro-release-cancel S-(x 1 y)) z)", qmax=2, seqbound=2)
    add("macro_presscancel", "ab", "(deflayer l0 (macro-cancel-on-press C-(x 1 y)) z)", qmax=2, seqbound=2)
    add("tde_x_layer", "ab", "(deflayer l0 (tap-dance-eager 3 (x (layer-while-held l1) lsft)) y)\n"
                             "(deflayer l1 _ (multi lctl z))", qmax=3)
    add("oneshot_x_taphold", "ab", "(deflayer l0 (one-shot 3 lsft) (tap-hold 0 2 y lctl))", qmax=3, osbound=3, quick=False)
    add("oneshot_x_layer", "abc", "(deflayer l0 (one-shot 3 (layer-while-held l1)) y lsft)\n"
                                  "(deflayer l1 _ (one-shot-press 2 lctl) z)", qmax=2, osbound=3, quick=False)
    add("tapdance_x_taphold", "ab", "(deflayer l0 (tap-dance 2 (x (tap-hold 0 2 y lsft))) z)", qmax=3, quick=False)
    add("chordv1_x_taphold", "ab", "(defchords g 2 (a) x (b) y (a b) (tap-hold 0 2 z lsft))\n"
                                   "(deflayer l0 (chord g a) (chord g b))", qmax=3, quick=False)
    add("macro_x_vkey", "ab", "(defvirtualkeys v (multi lsft (layer-while-held l1)))\n"
                              "(deflayer l0 (macro (on-press press-vkey v) x 1 (on-press release-vkey v)) y)\n"
                              "(deflayer l1 _ z)", qmax=2, seqbound=2, quick=False)
    # the custom-action list of one key: the button to unclick is threaded through the other custom actions
    add("custom_list", "ab", "(defvirtualkeys v lctl)\n"
                             "(deflayer l0 (multi mlft (on-release-fakekey v tap) (mwheel-up 2 120)) (multi (mwheel-down 3 120) mrgt))",
        qmax=2)
    add("custom_x_taphold", "ab", "(deflayer l0 (multi mlft (tap-hold 0 3 x mrgt)) y)", qmax=2)
    add("custom_x_chordv1", "ab", "(defchords g 3 (a) mrgt (b) x (a b) mlft)\n(deflayer l0 (chord g a) (chord g b))",
        qmax=3, quick=False)
    add("switch_trans_x_layer", "ab", "(deflayer l0 (layer-while-held l1) (switch () _ break))\n"
                                      "(deflayer l1 _ (switch () _ break))", qmax=2, track_hist=False, quick=False)
    # Two chords v2 that share no key, active at the same time: the L1 instance (4 keys, chv2=2, fixprobe=True:
    # "(defchordsv2 (a b) x 3 all-released () (c d) y 3 all-released ())") did not finish within 10 minutes with 2
    # workers, so this class is covered on the code by overlap_histories (every ordered pair of units, both release
    # orders) judged by TLC; the chv2 / fixprobe instance options above are kept for a smaller formulation.
    add("holdfor_x_oneshot", "ab", "(defvirtualkeys v (one-shot 2 lsft))\n(deflayer l0 (hold-for-duration 3 v) x)",
        qmax=3, osbound=3, quick=False)
    return F


def mc_one(name, kbd, keynames, io, wd):
    keys = [cfgdesc.code(k) for k in keynames]
    params = text_params(kbd)
    inst = {"name": "c01_" + name, "kbd": kbd, "keys": keys, "qmax": io.get("qmax", 3),
            "monitor": {"module": MON, "params": params}, "invariants": []}
    if "track_hist" in io:      # switch on held keys only: the key history need not be in the model state
        inst["track_hist"] = io["track_hist"]
    if io.get("custom_th"):
        inst["custom_th"] = io["custom_th"]
    if io.get("chv2"):
        # chords v2 in L1 (spec/ChordsV2.tla): TRIGGER_TAPHOLD_COORD (0, 0) is dequeued like a key; the pending-event
        # bound counts both queues; at most `chv2` chords active at the same time
        inst["universe"] = keys + [0]
        inst["view"] = "<<CvCanonK(K), phys, mon>>"
        inst["extra_guard"] = "/\\ Len(K.L.chv2.q) + Len(K.L.queue) < QMax"
        inst["constraint"] = "AchBound"
        inst["extra_defs"] = "AchBound == Len(K.L.chv2.ach) <= %d" % io["chv2"]
    if io.get("fixprobe"):
        # bound-free form of R2 for large instances: in a state with no physical key down on which a tick changes
        # nothing any more, nothing may be down at the OS and kanata must be idle (it will stay like this for ever).
        # No monitor state in the graph; a hit is printed as a model counterexample and judged on the code by P_C01.
        del inst["monitor"]
        inst["extra_defs"] = inst.get("extra_defs", "") + (
            "\nC01Fix == phys = {} /\\ K.L.panic = \"\" /\\ LET s == StepTick(K) IN s.K.out = <<>> /\\ "
            "[s.K EXCEPT !.out = <<>>] = [K EXCEPT !.out = <<>>]\n"
            "C01Probe == ~(C01Fix /\\ (K.prev # <<>> \\/ ~IsIdle(K))) \\/ PrintT(<<\"MONERR\", ToJson([h |-> hist, err |-> "
            "\"L1: quiescent state with output down or not idle\"])>>)")
        inst["invariants"] = ["C01Probe"]
        if io.get("chv2"):
            inst["view"] = "<<CvCanonK(K), phys>>"
    if io.get("seqbound"):
        # overlapping macros multiply the cursor positions: the exhaustive instances stop at `seqbound`
        # simultaneously running macros, the burst scripts go beyond the 4-slot ring on the real code
        inst["constraint"] = "SeqBound"
        inst["extra_defs"] = "SeqBound == Len(K.L.seqs) <= %d" % io["seqbound"]
    if io.get("osbound"):
        # re-pressing a one-shot key stacks coordinates up to the 16-entry ring: the exhaustive instances stop
        # at 3 stacked entries, the burst scripts below go beyond 16 on the real code
        b = io["osbound"]
        inst["constraint"] = "OsBound"
        inst["extra_defs"] = ("OsBound == Len(K.L.os.keys) <= %d /\\ Len(K.L.os.other) <= %d /\\ "
                              "Len(K.L.os.released) <= %d" % (b, b, b))
    # one work directory per instance: the instances are checked concurrently
    iwd = os.path.join(wd, "mc_" + name)
    os.makedirs(iwd, exist_ok=True)
    r = mc.check_instance(inst, iwd, workers=2, timeout=int(os.environ.get("C01_TLC_TIMEOUT", "1500")))
    return name, kbd, params, r


def family_random_jobs(tier, rng):
    """random physically consistent histories on the configurations of the exhaustive family (beyond the
    pending-event bound of the instances)"""
    jobs = []
    n = 12 if tier == "quick" else 150
    for name, kbd, keynames, io in family("thorough"):
        keys = [cfgdesc.code(k) for k in keynames]
        p = text_params(kbd)
        nums = sorted(set(int(t) for t in tokens(kbd) if re.fullmatch(r"\d+", t)))
        gaps = [0, 0, 1, 1, 2] + [g for x in nums for g in (max(x - 1, 0), x, x + 1)] + [3 * max(nums + [1])]
        scripts = [rand_history(rng, keys, rng.randint(4, 30 if tier == "quick" else 150), gaps, tail=bound_of(p) + 30,
                                repeat_p=0.1) for _ in range(n)]
        jobs.append({"cfg": kbd, "params": p, "tag": "f:" + name, "scripts": scripts})
    return jobs


def mc_part(res, tier, wd, rng):
    from concurrent.futures import ThreadPoolExecutor
    build_harness()
    cfgdesc.keytable()
    fam = family(tier)
    with ThreadPoolExecutor(max_workers=3) as ex:       # 3 concurrent TLC runs x 2 workers
        results = list(ex.map(lambda f: mc_one(f[0], f[1], f[2], f[3], wd), fam))
    witness_jobs = []
    for name, kbd, params, r in results:
        res.add_instance(r)
        log("[C01] %-22s states=%s edges=%s drift=%s monerr=%s panic=%s tlc=%ss wall=%ss bound=%d" % (
            name, r["states"], r.get("edges"), r.get("drift"), r["n_monerr"], r["n_panic"], r["tlc_wall_s"],
            r["wall_s"], bound_of(params)))
        if len(res.samples) < 4:
            res.samples.append({"instance": name, "kbd": kbd, "states": r["states"], "edges": r.get("edges"),
                                "bound": bound_of(params)})
        # model-level counterexamples (and drifting edges) are replayed on the real code and judged there
        ws = flow.witness_scripts(r["monerr_file"], 6) + flow.witness_scripts(r["panic_file"], 3)
        scripts = [quiesce(flow.hist_to_script(w["h"]), 30) for w in ws] + \
                  [quiesce(flow.hist_to_script(d["h"]), bound_of(params) + 30) for d in r.get("drift_samples", [])]
        if scripts:
            witness_jobs.append({"cfg": kbd, "params": params, "tag": "w:" + name, "scripts": scripts})
        for k in ("tlc_out", "edges_file"):      # large scratch (one line per model transition)
            if r.get(k) and os.path.exists(r[k]):
                os.remove(r[k])
    return witness_jobs


def quiesce(script, tail):
    """a model history as a C01 script: ticks merged, every key that is still down released, then the quiet tail"""
    out, down = [], set()
    for x in script:
        if x[0] == "t" and out and out[-1][0] == "t":
            out[-1] = ["t", out[-1][1] + x[1]]
        else:
            out.append(list(x))
        if x[0] == "d":
            down.add(x[1])
        elif x[0] == "u":
            down.discard(x[1])
    for k in sorted(down):
        out += [["u", k], ["t", 1]]
    out.append(["t", tail])
    return out


# ------------------------------------------------------------------ recording + validation (binding C)
RAW_BASE = 100000      # an arbitrary raw code n is rendered as key RAW_BASE + n
NAME_BASE = 200000     # a key whose name the harness could not resolve


CHUNK_BYTES = 60_000_000


def prep_trace(src, dst, stats):
    """Pre-processor of recorded traces for P_C01: keys become numbers (see the module comment of P_C01.tla);
    counts the soft observations (R1 redundant releases, continuous scroll / mouse-move events).  While a physical
    key is down, a run of ticks with the same continuous-only output (scroll / mouse move) is one tick for the
    monitor (phys # {}: quiet stays 0, the OS key state is unchanged) and is written once - this keeps traces of
    held mouse keys small.  The result is split at script boundaries into chunks of bounded size (TLC loads a
    whole trace file at once); returns the list of chunk files."""
    names = {}

    def conv(ev, down, bdown):
        k = ev[0]
        if k == "code":
            m = re.match(r"(\d+);(\w+)", str(ev[1]))
            if m and m.group(2) == "Press":
                ev = ["d", RAW_BASE + int(m.group(1))]
            elif m and m.group(2) == "Release":
                ev = ["u", RAW_BASE + int(m.group(1))]
            k = ev[0]
        if k in ("d", "u") and not isinstance(ev[1], int):
            ev = [k, names.setdefault(str(ev[1]), NAME_BASE + len(names))]
        if k == "d":
            down.add(ev[1])
        elif k == "u":
            if ev[1] not in down:
                stats["r1_redundant_releases"] += 1
            down.discard(ev[1])
        elif k == "bd":
            bdown.add(ev[1])
        elif k == "bu":
            if ev[1] not in bdown:
                stats["r1_redundant_releases"] += 1
            bdown.discard(ev[1])
        elif k in ("sc", "mv"):
            stats["continuous_events"] += 1
        return ev

    chunks = []
    g = None
    size = 0

    def rotate():
        nonlocal g, size
        if g:
            g.close()
        path = "%s.%d" % (dst, len(chunks))
        chunks.append(path)
        g = open(path, "w")
        size = 0

    rotate()
    down, bdown, phys = set(), set(), set()
    last_cont = None
    with open(src) as f:
        for line in f:
            r = json.loads(line)
            e = r["e"]
            if e == "reset":
                down, bdown, phys = set(), set(), set()
                last_cont = None
                if size > CHUNK_BYTES:
                    rotate()
            elif e == "d":
                phys.add(r["c"])
            elif e == "u":
                phys.discard(r["c"])
            if r.get("out"):
                r["out"] = [conv(x, down, bdown) for x in r["out"]]
                line = json.dumps(r) + "\n"
            if e == "t":
                stats["ticks"] += r.get("n", 1)
                if phys and r.get("out") and all(x[0] in ("sc", "mv") for x in r["out"]):
                    key = (json.dumps(r["out"]), r["idle"], r["cb"])
                    if key == last_cont:
                        stats["continuous_ticks_merged"] += 1
                        continue
                    last_cont = key
                else:
                    last_cont = None
            else:
                last_cont = None
            g.write(line)
            size += len(line)
    g.close()
    return chunks


def new_stats():
    return {"r1_redundant_releases": 0, "continuous_events": 0, "continuous_ticks_merged": 0, "ticks": 0, "scripts": 0,
            "panics_in_code": 0, "errors_from_code": 0}


def record(res, jobs, wd, name, stats):
    """runs the jobs on the real code, pre-processes and validates the trace with P_C01 (TLC); returns the
    rejections [{job, script, line, err}] that are about C01 (panics / harness-level errors are counted: a panic
    is C02's subject, the run simply ends there)"""
    jobs = shard_local_index(jobs)
    t0 = time.time()
    outs = run_jobs(jobs, wd, name, timeout=3000)
    raw = concat_traces(outs, os.path.join(wd, name + ".raw.ndjson"))
    chunks = prep_trace(raw, os.path.join(wd, name + ".trace.ndjson"), stats)
    os.remove(raw)
    for rc, jf, of, pj, so in outs:
        os.remove(of)
    t1 = time.time()
    nlines, errs = 0, []
    for ch in chunks:
        n1, e1 = validate_trace(MON, ch, wd, timeout=3000)
        nlines += n1
        errs += e1
    log("[C01] %s: recorded %d scripts in %.1fs, %d trace lines validated by TLC in %.1fs" % (
        name, len(jobs), t1 - t0, nlines, time.time() - t1))
    res.traces_validated += len(jobs)
    res.trace_lines += nlines
    stats["scripts"] += len(jobs)
    keep = []
    for e in errs:
        if e["err"].startswith("panic in the code under test"):
            stats["panics_in_code"] += 1
        elif e["err"].startswith("error from the code under test"):
            stats["errors_from_code"] += 1
        else:
            keep.append(e)
    return jobs, keep


def max_run(script):
    """longest run of input events without a tick"""
    m = c = 0
    for x in script:
        if x[0] == "t":
            c = 0
        else:
            c += 1
            m = max(m, c)
    return m


def diagnose(job, script, wd):
    """State-level diagnosis of a rejection (the script is run again with the state projection).  The tag is part
    of the finding signature:
      macro ring       at the end a FakeKey state (a key pressed by a macro) is left while no macro cursor is active,
                       and the 4-slot ring of macro cursors was full at some moment of the run
      livelock         input events are still in the layout queue after the whole quiet tail
      chords v2 held   no flood, and at the end a state is left on a chords-v2 virtual coordinate (y >= 768) or the
                       chords-v2 component never becomes idle: an activated chord was never released
      chords v2 lost   no flood, defchordsv2 configured, states of physically released keys left on real coordinates
      chords v2 flood  the configuration has defchordsv2 and the history has more than 16 events between two ticks
      os repeat        the stuck keys were pressed at the OS by an OS-repeat event while kanata had them lifted
      twin customs     two Custom-action states created at the same coordinate were removed by one release
      queue overflow   a Custom-action state disappeared while an *input* was handed over (not during a tick):
                       the 32-slot queue overflowed and Layout::event processed the evicted release itself
      otherwise        a summary of the end state (no known finding matches it)"""
    j = dict(job)
    j["scripts"] = [script]
    j["opts"] = dict(job.get("opts", {}), proj=True, proj_sparse=True, cap=60000)
    j["tag"] = "diag"
    outs = run_jobs([j], wd, "c01_diag")
    max_nseq, last, cu_lost, cu_twin = 0, None, 0, 0
    down, rep_pressed = set(), set()
    for rc, jf, of, pj, so in outs:
        for line in open(of):
            r = json.loads(line)
            for ev in r.get("out", []):
                if ev[0] == "d":
                    if r["e"] == "r" and ev[1] not in down:
                        rep_pressed.add(ev[1])
                    down.add(ev[1])
                elif ev[0] == "u":
                    down.discard(ev[1])
            if "proj" not in r:
                continue
            p = r["proj"]
            max_nseq = max(max_nseq, p["nseq"])
            if last is not None:
                before = sorted(tuple(x) for x in last["st"] if x[0] == "cu")
                after = sorted(tuple(x) for x in p["st"] if x[0] == "cu")
                gone = [x for x in set(before) if x not in after]
                if gone and r["e"] in ("d", "u", "r", "p"):
                    cu_lost += 1
                if any(before.count(x) > 1 for x in gone):
                    cu_twin += 1
            last = p
    if last is None:
        return "no-state"
    kinds = sorted(set(s[0] for s in last["st"]))
    fk = [s[1] for s in last["st"] if s[0] == "fk"]
    run = max_run(script)
    if fk and last["nseq"] == 0 and max_nseq >= 4:
        return "macro ring: %d key(s) pressed by a macro left with no active macro after the 4-slot ring was full" % len(fk)
    if last["q"]:
        return ("livelock: input events are still queued at the end of the quiet tail (%d queued, action queue %d): "
                "an action keeps re-queuing itself" % (len(last["q"]), last["naq"]))
    virt = [x for x in last["st"] if x[0] in ("nk", "lm", "cu", "rs") and x[2] == 0 and x[3] >= 768]
    if "(defchordsv2" in job["cfg"] and run <= 16 and (virt or not last.get("chv2i", True)):
        return ("chords v2: an activated chord is never released after all keys are up (states on virtual "
                "coordinates: %s; chords v2 idle: %s)" % (json.dumps(virt[:3]), last.get("chv2i")))
    real_left = [x for x in last["st"] if x[0] in ("nk", "lm", "cu", "rs") and x[2] == 0 and x[3] < 768]
    if "(defchordsv2" in job["cfg"] and run <= 16 and real_left and not last["q"]:
        return ("chords v2 configuration: states of released keys are left on real coordinates (a release event was "
                "lost on the chords-v2 input path): %s" % json.dumps(real_left[:4]))
    if "(defchordsv2" in job["cfg"] and run > 16:
        return "chords v2 flood: more than 16 events between two ticks (%d)" % run
    if down and down <= rep_pressed:
        return ("os repeat pressed a key that was up at the OS (lifted by unmod / unshift or swallowed by a hidden "
                "sequence mode) and kanata does not track it: %s" % sorted(down))
    if cu_twin:
        return ("two custom-action states on one coordinate released together (%d time(s)): only the first release "
                "handler runs" % cu_twin)
    if cu_lost and run > 32:
        return "queue overflow: custom action released inside Layout::event (%d time(s)), its release handler never runs" % cu_lost
    return "end-state kinds=%s nseq=%d max_nseq=%d longest no-tick run=%d" % (",".join(kinds), last["nseq"], max_nseq, run)


def cfg_shape(kbd):
    """coarse shape of a configuration (which action families it uses) - part of the finding signature"""
    fams = []
    for fam, rx in (("macro", r"\(macro"), ("tap-hold", r"\(tap-hold"), ("one-shot", r"\(one-shot"), ("tap-dance", r"\(tap-dance"),
                    ("chords", r"\(defchords "), ("chordsv2", r"\(defchordsv2"), ("vkey", r"\(def(virtual|fake)keys"),
                    ("seq", r"\(defseq"), ("zippy", r"\(defzippy"), ("dynmacro", r"dynamic-macro")):
        if re.search(rx, kbd):
            fams.append(fam)
    return "+".join(fams) or "plain"


MAX_REPORTED = 10


def handle_errs(res, jobs, errs, label, wd):
    for e in sorted(errs, key=lambda e: len(script_of(jobs, e["job"], 0)[1])):
        if len(res.violations) >= MAX_REPORTED:
            # enough replay files: the remaining rejections are only counted
            res.extra["rejections_not_reported_individually"] = res.extra.get("rejections_not_reported_individually", 0) + 1
            continue
        j, s = script_of(jobs, e["job"], 0)
        tag = " [" + diagnose(j, s, wd) + "; cfg shape " + cfg_shape(j["cfg"]) + "]"
        short = re.sub(r": \{.*$", "", e["err"])        # the rule without the key set
        text = short + tag + " || " + e["err"] + " source=" + label + " cfg=" + j["cfg"]
        obj = {"kind": "c01", "property": PID, "cfg": j["cfg"], "params": j["params"], "script": s, "err": e["err"],
               "monitor": MON, "files": j.get("files", {}), "diagnosis": tag.strip()}
        if flow.classify(res, PID, e["err"], text, obj, "%s_%d" % (label.replace(":", "_"), len(res.violations))):
            log("[C01] REJECTED (%s): %s%s" % (label, e["err"], tag))


def replay(r, path, wd):
    """./check replay <file> for kind c01: re-run on the current tree, re-validate with P_C01"""
    job = {"cfg": r["cfg"], "params": r["params"], "tag": "replay", "scripts": [r["script"]], "files": r.get("files", {})}
    res = flow.Result(PID, "replay", 0)
    st = new_stats()
    jobs, errs = record(res, [job], wd, "replay_c01", st)
    for line in open(os.path.join(wd, "replay_c01.trace.ndjson.0")):
        print(line.rstrip()[:300])
    for e in errs:
        print("REJECTED at line %s: %s" % (e["line"], e["err"]))
    if errs:
        print("VIOLATION property=%s replay=%s" % (PID, path))
        return 1
    print("accepted by %s" % MON)
    return 0


# ------------------------------------------------------------------ (b) bursts with the real capacities
def release_all(s, down, rng, gap=1):
    ks = sorted(down)
    rng.shuffle(ks)
    for k in ks:
        s.append(["u", k])
        if gap:
            s.append(["t", gap])
    down.clear()


def consistent_burst(rng, codes, m, down, s):
    """m physically consistent events without a tick"""
    for _ in range(m):
        c = rng.choice(codes)
        if c in down:
            s.append(["u", c])
            down.discard(c)
        else:
            s.append(["d", c])
            down.add(c)


def all_key_codes():
    kt = cfgdesc.keytable()["names"]
    skip = {"mlft", "mrgt", "mmid", "mbck", "mfwd", "mwu", "mwd", "mwl", "mwr"}
    return sorted(set(v for k, v in kt.items() if k not in skip))


def burst_jobs(tier, rng):
    C = cfgdesc.code
    n = 6 if tier == "quick" else 40
    jobs = []

    def job(tag, kbd, scripts):
        p = text_params(kbd)
        B = bound_of(p)
        for s in scripts:
            s.append(["t", B + 30])
        jobs.append({"cfg": kbd, "params": p, "tag": "burst:" + tag, "scripts": scripts})

    # ---- 33-40 events without a tick: the 32-slot event queue wraps (waiting keys are forced into hold)
    for conc in ("no", "yes"):
        kbd = ("(defcfg concurrent-tap-hold %s process-unmapped-keys yes)\n(defsrc a b c d e f g h i j k l)\n"
               "(deflayer l0 (tap-hold 200 200 a lsft) (tap-hold-press 200 200 b lctl) (tap-hold-release 200 150 c lalt) "
               "(one-shot 300 rsft) (layer-while-held l1) (tap-dance 150 (x y z)) (macro S-(m 10 n)) (multi lmet f13) i j k l)\n"
               "(deflayer l1 1 2 3 4 _ 5 6 7 8 9 0 _)\n" % conc)
        codes = [C(k) for k in "abcdefghijkl"] + [C("q"), C("w")]
        scripts = []
        for _ in range(n):
            s, down = [], set()
            for _ in range(rng.randint(1, 3)):
                if rng.random() < 0.5:
                    s += [["d", codes[rng.randrange(3)]]]
                    down.add(s[-1][1])
                    s.append(["t", rng.choice([1, 2, 50])])
                consistent_burst(rng, codes, rng.randint(33, 40), down, s)
                s.append(["t", rng.choice([1, 3, 40, 250])])
            release_all(s, down, rng, rng.choice([0, 1]))
            scripts.append(s)
        job("queue_wrap_conc_" + conc, kbd, scripts)
    # ---- which event does the overflow evict?  A key of every deciding / state-creating kind is pressed (processed
    # or still queued), then released inside a tick-free burst whose length makes the 32-slot queue evict exactly
    # 1..4 oldest events: the key's own press, its own release while it is still undecided, or filler taps
    for conc in ("no", "yes"):
        kbd = ("(defcfg concurrent-tap-hold %s process-unmapped-keys yes)\n(defsrc a b c d e f g)\n"
               "(deflayer l0 (tap-hold 200 200 q lsft) (tap-hold-press 200 200 w lctl) (tap-hold-release 200 200 e lalt) "
               "(one-shot 300 rsft) (layer-while-held l1) (tap-dance 150 (x y)) (multi mlft lmet))\n"
               "(deflayer l1 1 2 3 4 _ 5 6)\n" % conc)
        fillers = [C(k) for k in "uiopjklnm"]
        scripts = []
        for key in "abcdefg":
            for tb in (0, 1, 3):
                for pre in (0, 1):
                    for m in (1, 2, 3, 4):
                        s = [["d", C(key)]]
                        if tb:
                            s.append(["t", tb])
                        burst = []
                        fi = 0
                        for _ in range(pre):
                            burst += [["d", fillers[fi % 9]], ["u", fillers[fi % 9]]]
                            fi += 1
                        burst.append(["u", C(key)])
                        queued = 1 if tb == 0 else 0          # the press itself is still in the queue
                        while queued + len(burst) < 32 + m:
                            burst += [["d", fillers[fi % 9]], ["u", fillers[fi % 9]]]
                            fi += 1
                        s += burst
                        s.append(["t", 1])
                        scripts.append(s)
        if tier == "quick":
            scripts = [x for i, x in enumerate(scripts) if i % 2 == (0 if conc == "no" else 1)]
        job("evicted_event_conc_" + conc, kbd, scripts)
    # ---- 65+ simultaneously active states (process-unmapped-keys yes): the 64-entry state vector is full
    kbd = ("(defcfg process-unmapped-keys yes)\n(defsrc a b c d)\n"
           "(deflayer l0 (multi lsft lctl lalt) (layer-while-held l1) (multi mlft (unicode r)) d)\n(deflayer l1 _ _ _ (multi rsft rctl))\n")
    allc = all_key_codes()
    scripts = []
    for _ in range(n):
        s, down = [], set()
        ks = list(allc)
        rng.shuffle(ks)
        special = [C("a"), C("b"), C("c"), C("d")]
        ks = [k for k in ks if k not in special]
        m = rng.randint(62, 70)
        order = ks[:m]
        for sp in special:
            # early (a state is created normally) or late (the 64-entry vector is already full)
            order.insert(rng.randint(0, 20) if rng.random() < 0.5 else rng.randint(len(order) - 2, len(order)), sp)
        for k in order:
            s.append(["d", k])
            down.add(k)
            s.append(["t", rng.choice([1, 1, 2])])
        s.append(["t", rng.choice([1, 30])])
        release_all(s, down, rng, rng.choice([0, 1]))
        scripts.append(s)
    job("states_full", kbd, scripts)
    # ---- 9-10 concurrent tap-holds: the 8-slot extra_waiting ring wraps
    mods = ["lsft", "lctl", "lalt", "lmet", "rsft", "rctl", "ralt", "rmet", "f13", "f14"]
    outs = "qwertyuiop"
    for T in (300, 40):
        kbd = ("(defcfg concurrent-tap-hold yes)\n(defsrc a b c d e f g h i j)\n(deflayer l0 %s)\n" %
               " ".join("(tap-hold 0 %d %s %s)" % (T + 3 * i, outs[i], mods[i]) for i in range(10)))
        codes = [C(k) for k in "abcdefghij"]
        scripts = []
        for _ in range(n):
            s, down = [], set()
            ks = list(codes)
            rng.shuffle(ks)
            for k in ks[:rng.randint(9, 10)]:
                s.append(["d", k])
                down.add(k)
                s.append(["t", rng.choice([0, 1, 1, 2])] if rng.random() < 0.8 else ["t", 1])
            s = [x for x in s if x != ["t", 0]]
            s.append(["t", rng.choice([1, 10, T - 5, T + 50])])
            release_all(s, down, rng, rng.choice([0, 1, 3]))
            scripts.append(s)
        job("taphold_ring_T%d" % T, kbd, scripts)
    # ---- 17-18 one-shots: the 16-entry one-shot ring overflows
    oskeys = "abcdefghijklmnopqr"
    osouts = ["lsft", "lctl", "lalt", "lmet", "rsft", "rctl", "ralt", "rmet", "x", "y", "z", "1", "2", "3", "4", "5", "6", "7"]
    for var in ("one-shot", "one-shot-release", "one-shot-press-pcancel"):
        kbd = ("(defsrc %s s)\n(deflayer l0 %s s)\n" % (
            " ".join(oskeys), " ".join("(%s 400 %s)" % (var, o) for o in osouts)))
        codes = [C(k) for k in oskeys]
        scripts = []
        for i in range(n):
            s, down = [], set()
            if i % 2 == 0:       # 17-18 different one-shot keys
                ks = list(codes)
                rng.shuffle(ks)
                for k in ks[:rng.randint(17, 18)]:
                    s += [["d", k], ["t", rng.choice([1, 2])], ["u", k], ["t", rng.choice([1, 2])]]
            else:                # the same key tapped 17-20 times
                k = rng.choice(codes)
                for _ in range(rng.randint(17, 20)):
                    s += [["d", k], ["t", 1], ["u", k], ["t", 1]]
            if rng.random() < 0.6:
                s += [["d", C("s")], ["t", 3], ["u", C("s")], ["t", 1]]
            scripts.append(s)
        job("oneshot_ring_" + var, kbd, scripts)
    # ---- 4 / 5 / 6 overlapping macros: the 4-slot ring of macro cursors (the fifth used to evict the oldest cursor and
    # leave its modifier pressed for ever: repaired in /repo by a8a26da, see known_findings.json "fixed")
    pre = ["S-", "C-", "A-", "M-", "RS-", "RC-"]
    kbd = ("(defsrc a b c d e f)\n(deflayer l0 %s)\n" %
           " ".join("(macro %s(%s 50 %s))" % (pre[i], "qwerty"[i], "uiopkl"[i]) for i in range(6)))
    codes = [C(k) for k in "abcdef"]
    scripts = []
    for m in (4, 5, 6):
        for _ in range(max(1, n // 2)):
            s, down = [], set()
            ks = list(codes)
            rng.shuffle(ks)
            for k in ks[:m]:
                s += [["d", k], ["t", rng.choice([1, 2, 5])]]
                down.add(k)
            release_all(s, down, rng, 1)
            scripts.append(s)
    job("macros_overlapping", kbd, scripts)
    return jobs


# ------------------------------------------------------------------ (c) features L1 does not model + random grammar
def overlap_histories(kbd, keys, nums, rng, limit):
    """Two things active at the same time, every release order: a unit is one key or the key set of one chord
    (defchordsv2 / defchords participants); for every ordered pair of disjoint units: activate the first, keep it,
    activate the second, then release second-then-first and first-then-second, with a short and a long gap."""
    C = cfgdesc.code
    units = [[k] for k in keys]
    for m in re.finditer(r"\(defchordsv2\s+(.*)\)\s*$", kbd, flags=re.M):
        toks = tokens(m.group(1))
        i = 0
        while i < len(toks):            # entries: (keys) action timeout release (layers)
            if toks[i] == "(":
                j = toks.index(")", i)
                ks = toks[i + 1:j]
                if ks and all(k in keys for k in ks) and len(ks) >= 2:
                    units.append(ks)
                # skip the action (atom or list), timeout, release behaviour and the disabled-layer list
                i = j + 1
                depth = 0
                seen = 0
                while i < len(toks) and seen < 4:
                    if toks[i] == "(":
                        depth += 1
                    elif toks[i] == ")":
                        depth -= 1
                    if depth == 0:
                        seen += 1
                    i += 1
            else:
                i += 1
    long_gap = max([n for n in nums if n < 2000] + [5]) + 5
    out = []
    for u1 in units:
        for u2 in units:
            if set(u1) & set(u2):
                continue
            for order in ("21", "12"):
                for gap in (2, long_gap):
                    s = []
                    for k in u1:
                        s.append(["d", C(k)])
                    s.append(["t", gap])
                    for k in u2:
                        s.append(["d", C(k)])
                    s.append(["t", gap])
                    first, second = (u2, u1) if order == "21" else (u1, u2)
                    for k in first:
                        s.append(["u", C(k)])
                    s.append(["t", gap])
                    for k in second:
                        s.append(["u", C(k)])
                    s.append(["t", 1])
                    out.append(s)
    # pairs of multi-key units (two chords active together) first, then a sample of the rest
    out.sort(key=lambda x: -sum(1 for e in x if e[0] == "d"))
    if len(out) > limit:
        head = [x for x in out if sum(1 for e in x if e[0] == "d") >= 4][:limit]
        rest = [x for x in out if x not in head]
        out = head + rng.sample(rest, max(0, limit - len(head)))
    return out


def extra_feature_jobs(tier, rng):
    """hand-written latch-free configurations for the features the detailed model does not cover; random
    physically consistent histories (recorded traces only)"""
    C = cfgdesc.code
    X = []
    X.append(("chordsv2", "(defcfg concurrent-tap-hold yes chords-v2-min-idle 20)\n(defsrc a b c d)\n"
              "(deflayer l0 a b (tap-hold 100 100 c lsft) d)\n"
              "(defchordsv2 (a b) x 50 all-released () (a b c) S-y 80 first-release () (c d) (one-shot 100 lctl) 60 all-released ()"
              " (a d) (macro z 10 S-w) 40 first-release ())\n", "abcd", {}))
    X.append(("chordsv2_disjoint", "(defcfg concurrent-tap-hold yes process-unmapped-keys yes chords-v2-min-idle 5)\n"
              "(defsrc a b c d e f)\n(deflayer l0 a b c d e f)\n"
              "(defchordsv2 (a b) x 30 all-released () (c d) S-y 30 all-released () (e f) mlft 30 first-release ())\n",
              "abcdef", {}))
    for mode in ("visible-backspaced", "hidden-suppressed", "hidden-delay-type"):
        X.append(("defseq_" + mode, "(defcfg sequence-timeout 50 sequence-input-mode %s)\n(defsrc a b c d e)\n"
                  "(deflayer l0 sldr a b (multi lsft c) (sequence 30 hidden-delay-type))\n"
                  "(defvirtualkeys v1 S-x v2 (macro y 5 z) v3 (one-shot 40 lctl))\n"
                  "(defseq v1 (a b) v2 (b S-c) v3 (O-(a b c)))\n" % mode, "abcde", {}))
    X.append(("zippychord", "(defsrc a b c d spc lsft)\n(deflayer l0 a b c d spc lsft)\n"
              "(defzippy dict on-first-press-chord-deadline 40 idle-reactivate-time 60 smart-space full)\n",
              ["a", "b", "c", "d", "spc", "lsft"], {"dict": "ab\tAbba\nab cd\tlonger\nbc\tbook \nabc\tAlphabet\n"}))
    X.append(("capsword", "(defsrc a b c d e)\n(deflayer l0 (caps-word 60) a (caps-word-toggle 40) 1 (multi lsft b))\n", "abcde", {}))
    X.append(("unmod", "(defsrc a b c d)\n(deflayer l0 lsft (unmod a) (unshift 1) (multi lctl (unmod (lctl) b)))\n", "abcd", {}))
    X.append(("mouse", "(defcfg movemouse-smooth-diagonals yes movemouse-inherit-accel-state yes)\n(defsrc a b c d e f g)\n"
              "(deflayer l0 (mwheel-up 5 120) (movemouse-left 3 2) (movemouse-accel-up 2 20 1 5) (movemouse-speed 200) "
              "(mwheel-right 7 30) (multi mlft (movemouse-accel-right 3 10 2 9)) (macro (mwheel-down 4 120) 10 mrtp))\n", "abcdefg", {}))
    X.append(("dynmacro", "(defcfg dynamic-macro-max-presses 20)\n(defsrc a b c d e)\n"
              "(deflayer l0 (dynamic-macro-record 1) (dynamic-macro-play 1) dynamic-macro-record-stop (multi lsft x) y)\n", "abcde", {}))
    X.append(("arbitrary_code", "(defsrc a b c)\n(deflayer l0 (arbitrary-code 700) (multi (arbitrary-code 30) lsft) "
              "(tap-hold 50 50 (arbitrary-code 255) lctl))\n", "abc", {}))
    jobs = []
    ns = 6 if tier == "quick" else 60
    for name, kbd, keys, files in X:
        codes = [C(k) for k in keys]
        scripts = []
        dur = 0
        nums = [int(t) for t in tokens(kbd) if re.fullmatch(r"\d+", t)]
        scripts += overlap_histories(kbd, keys, nums, rng, 40 if tier == "quick" else 400)
        for _ in range(ns):
            s = cfggen.gen_history(rng, codes, rng.choice([10, 30, 80] if tier == "quick" else [10, 30, 80, 300]), False,
                                   numbers=nums, floods=rng.random() < 0.2, long_gaps=False, focus=codes, tail=0)
            scripts.append(s)
            dur = max(dur, sum(x[1] for x in s if x[0] == "t") + len(s))
        # a dynamic macro replays what was recorded, with the recorded gaps: the allowance depends on the history
        p = text_params(kbd, extra=2 * dur if "dynamic-macro" in kbd else 0)
        for s in scripts:
            s.append(["t", bound_of(p) + 30])
        jobs.append({"cfg": kbd, "params": p, "tag": "x:" + name, "scripts": scripts, "files": files})
    return jobs


def dynmacro_limit_jobs(tier, rng):
    """Dynamic macros whose recording is cut off by a small dynamic-macro-max-presses: every physically consistent
    typing pattern over 2 keys (all of them, max-presses 1) / a sample over 3 keys incl. a modifier (max-presses 2, 3)
    whose length reaches the limit - so the limit is hit after a press, after a release and with keys held -,
    then everything is released, the recording is stopped (a no-op when the limit already ended it), the macro is
    played twice, then the quiet tail."""
    import itertools
    C = cfgdesc.code
    REC, PLAY, STOP = C("a"), C("b"), C("c")
    typ = [C("d"), C("e"), C("f")]
    jobs = []
    for M in (1, 2, 3):
        kbd = ("(defcfg dynamic-macro-max-presses %d)\n(defsrc a b c d e f)\n"
               "(deflayer l0 (dynamic-macro-record 1) (dynamic-macro-play 1) dynamic-macro-record-stop x y (multi lsft z))\n" % M)
        lens = range(2 * M + 1, 2 * M + 5)
        if M == 1:
            seqs = [q for n in lens for q in itertools.product(typ[:2], repeat=n)]
            seqs += rng.sample([q for n in lens for q in itertools.product(typ, repeat=n)], 40 if tier == "quick" else 400)
        else:
            seqs = [tuple(rng.choice(typ) for _ in range(rng.choice(list(lens)))) for _ in range(60 if tier == "quick" else 600)]
        scripts = []
        dur = 0
        for q in seqs:
            s = [["d", REC], ["t", 2], ["u", REC], ["t", 2]]
            down = set()
            for k in q:                      # a key toggles: press if up, release if down
                if k in down:
                    s.append(["u", k])
                    down.discard(k)
                else:
                    s.append(["d", k])
                    down.add(k)
                s.append(["t", rng.choice([1, 1, 2, 5])])
            for k in sorted(down):
                s += [["u", k], ["t", 1]]
            s += [["t", 10], ["d", STOP], ["t", 2], ["u", STOP], ["t", 5]]
            for _ in range(2):
                s += [["d", PLAY], ["t", 2], ["u", PLAY], ["t", 60]]
            scripts.append(s)
            dur = max(dur, sum(x[1] for x in s if x[0] == "t") + len(s))
        p = text_params(kbd, extra=2 * dur)
        for s in scripts:
            s.append(["t", bound_of(p) + 30])
        jobs.append({"cfg": kbd, "params": p, "tag": "x:dynmacro_limit_%d" % M, "scripts": scripts})
    return jobs


CUSTOM_KINDS = [
    "(movemouse-speed 50)", "(movemouse-up 3 2)", "(movemouse-left 3 2)", "(movemouse-accel-down 2 20 1 5)",
    "(mwheel-up 5 120)", "(mwheel-left 5 30)", "mwu", "mltp", "(unicode r)", "(on-press tap-vkey v)",
    "(on-release tap-vkey v)", "(on-press-fakekey v tap)", "(on-release-fakekey v tap)",
    "(on-press press-vkey v) (on-release release-vkey v)", "(hold-for-duration 5 v)", "(on-idle 5 tap-vkey v)",
    "(on-idle-fakekey v tap 5)", "(on-press-delay 1)", "(on-release-delay 1)", "(caps-word 20)", "(unmod a)", "(unshift 1)",
    "(arbitrary-code 700)", "(setmouse 5 5)", "rpt", "sldr", "(sequence 20)", "(dynamic-macro-play 1)",
    "dynamic-macro-record-stop", "lrld", "reverse-release-order", "(macro-release-cancel x 3 y)",
    "(macro-cancel-on-press x 3 y)",
]


def custom_list_jobs(tier, rng, wd, stats):
    """The release handling of a key's custom-action LIST: a held mouse button together with every other custom-action
    kind in one multi, in both orders, between two buttons and with a second custom action behind it (the button to
    unclick is carried through the list).  One configuration per kind (the real parser decides which are accepted);
    tap, hold, re-press and overlapping histories, then the quiet tail."""
    C = cfgdesc.code
    texts, kinds = [], []
    for i, k in enumerate(CUSTOM_KINDS):
        k2 = CUSTOM_KINDS[(i + 1) % len(CUSTOM_KINDS)]
        texts.append("(defcfg sequence-timeout 20)\n(defsrc a b c d e)\n(defvirtualkeys v lctl)\n"
                     "(deflayer l0 (multi mlft %s) (multi %s mrgt) (multi mmid %s mlft) (multi mrgt %s %s) lsft)\n"
                     % (k, k, k, k, k2))
        kinds.append(k)
    accd, ast = cfggen.accepted(texts, wd, "c01cl", chunk=200)
    stats["custom_list_cfgs"] = {"texts": len(texts), "accepted": ast["accepted"],
                                 "rejected_kinds": [k for k, a in zip(kinds, accd) if a is None]}
    keys = [C(k) for k in "abcde"]
    jobs = []
    for t, k, a in zip(texts, kinds, accd):
        if a is None:
            continue
        scripts = []
        for key in keys[:4]:
            scripts.append([["d", key], ["t", 3], ["u", key], ["t", 30]])
            scripts.append([["d", key], ["t", 60], ["u", key], ["t", 5], ["d", key], ["t", 2], ["u", key], ["t", 30]])
        scripts += overlap_histories(t, list("abcde"), [20], rng, 12 if tier == "quick" else 80)
        scripts += [rand_history(rng, keys, rng.randint(6, 30), [0, 1, 1, 2, 6, 25]) for _ in range(2 if tier == "quick" else 30)]
        p = text_params(t, extra=400 if "dynamic-macro" in t else 0)
        for s in scripts:
            s.append(["t", bound_of(p) + 30])
        jobs.append({"cfg": t, "params": p, "tag": "x:custom_list:" + k.split()[0].strip("("), "scripts": scripts})
    return jobs + spelling_twins(jobs, keep=8)


def random_jobs(tier, rng, wd, stats):
    ncfg = 90 if tier == "quick" else 800
    texts, metas = [], []
    for i in range(ncfg):
        d = rng.choice([1, 2, 2, 3, 3])
        t, m = cfggen.gen_config(rng, depth=d, latch_free=True, zero_rate=0.0)
        texts.append(t)
        metas.append(m)
    accd, ast = cfggen.accepted(texts, wd, "c01acc", chunk=1000)
    stats["random_cfgs"] = {"texts": ncfg, "accepted": ast["accepted"], "rejected": ast["rejected"],
                            "parser_panics": ast["parser_panics"] + ast["parser_aborts"]}
    names = cfgdesc.keytable()["names"]
    jobs, used = [], set()
    budget = 700_000 if tier == "quick" else 3_000_000      # ticks per script at most (bound + history)
    skipped = 0
    for i, (t, m, a) in enumerate(zip(texts, metas, accd)):
        if a is None:
            continue
        src = [names[k] for k in m["src"] if k in names]
        if m["process_unmapped"]:
            codes = sorted(set(src + [names[k] for k in ("q", "w", "lsft", "x", "1")]))
        else:
            codes = [c for c in src if c in a["mapped"]]
        if not codes:
            continue
        dyn = "dynamic-macro" in t
        scripts = []
        dur = 0
        for _ in range(2 if tier == "quick" else 3):
            n = rng.choice([10, 30, 80]) if tier == "quick" else rng.choice([20, 60, 200, 400])
            s = cfggen.gen_history(rng, codes, n, False, numbers=m["numbers"], floods=rng.random() < 0.3,
                                   long_gaps=rng.random() < 0.1, focus=src or codes, tail=0)
            scripts.append(s)
            dur = max(dur, sum(x[1] for x in s if x[0] == "t") + len(s))
        p = text_params(t, extra=2 * dur if dyn else 0)
        B = bound_of(p)
        if B + dur > budget:
            skipped += 1
            continue
        for s in scripts:
            s.append(["t", B + 30])
        used |= set(m["used"])
        jobs.append({"cfg": t, "params": p, "tag": "g:%d" % i, "scripts": scripts})
    stats["random_cfgs"]["used_actions"] = len(used)
    stats["random_cfgs"]["run"] = len(jobs)
    stats["random_cfgs"]["skipped_over_tick_budget"] = skipped
    return jobs, sorted(used)


def load_known_once():
    """known_findings.json is edited by other checks' authors while this one runs: read it once (with retries on
    a half-written file) and use that snapshot for the whole run"""
    for _ in range(20):
        try:
            snap = known_findings()
            break
        except ValueError:
            time.sleep(0.5)
    else:
        raise ToolError("known_findings.json is not readable")
    flow.known_findings = lambda: snap


def run(tier, seed):
    load_known_once()
    res = flow.Result(PID, tier, seed)
    rng = random.Random(seed)
    wd = workdir("c01")
    build_harness()
    stats = new_stats()
    t0 = time.time()
    witness_jobs = mc_part(res, tier, wd, rng)
    log("[C01] model checking part: %.1fs" % (time.time() - t0))
    parts = [("witness", witness_jobs), ("family", family_random_jobs(tier, rng)), ("burst", burst_jobs(tier, rng)),
             ("extra", extra_feature_jobs(tier, rng) + dynmacro_limit_jobs(tier, rng) + custom_list_jobs(tier, rng, wd, stats))]
    rj, used = random_jobs(tier, rng, wd, stats)
    parts.append(("random", rj))
    for label, jobs in parts:
        if not jobs:
            continue
        t1 = time.time()
        sj, errs = record(res, jobs, wd, "c01_" + label, stats)
        handle_errs(res, sj, errs, label, wd)
        log("[C01] %s: %d scripts, %d rejected (%.1fs)" % (label, len(sj), len(errs), time.time() - t1))
        if label in ("burst", "random") and sj:
            res.samples.append({"source": label, "tag": sj[0]["tag"], "cfg": sj[0]["cfg"][:600], "bound": bound_of(sj[0]["params"]),
                                "script_head": sj[0]["scripts"][0][:24]})
    res.extra["c01"] = stats
    res.extra["grammar_actions_used"] = used
    res.notes.append("features covered by recorded traces only (not in the detailed model): chords v2, defseq sequence "
                     "modes, zippychord, caps-word, unmod/unshift, mouse movement / scroll, dynamic macros, arbitrary-code")
    res.notes.append("cb (can_block) is observed but not judged: with live-reload requested and never served by the "
                     "deterministic stepper it stays false by design; the statement asks for `idle`")
    return flow.finish(
        res, "model_checking",
        "TLC explores L1||P_C01 for every physically consistent schedule over 2-3 keys (<=2-3 pending events, every tick "
        "gap) on one small instance per feature and per pairwise feature combination; R2 of P_C01 (after Bound(config "
        "text) quiet ticks: nothing pressed at the OS, no output, idle) is judged in every state with no physical key "
        "down; every model transition is replayed on the real code; burst scripts with the real capacities, hand-written "
        "configurations of the unmodelled features and random latch-free configurations over the whole action grammar "
        "with random consistent histories + Bound quiet ticks are recorded from the code and validated by TLC against P_C01.",
        assumptions=["deterministic stepper (tick_ms(1) + can_block_update_idle_waiting(1))",
                     "latch-free configurations: virtual keys only tapped / pressed and released in balanced pairs / "
                     "hold-for-duration",
                     "Bound = 2*(sum of numbers in the text + 4 per macro item) + 64*(rapid-event-delay+1) + 200 "
                     "(+ 2 x history length for dynamic macros)",
                     "exhaustive instances bound stacked one-shots to 3 and overlapping macros to 2 (bursts go beyond on the code)"])
