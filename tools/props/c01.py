"""C01 - no stuck output: once all keys are up kanata releases everything and goes idle, within a bound given by
the configured timeouts and macro lengths.

  (a) TLC: L1 || P_C01 exhaustively on a family of small instances (one per feature + pairwise combinations),
      every model transition replayed on the real code (mc.check_instance);
  (b) burst scripts on the real code with the real capacities (queue wrap, >64 states, >8 tap-holds,
      >16 one-shots, >4 macros), recorded and validated by TLC against P_C01;
  (c) random latch-free configurations over the whole action grammar (tools/cfggen.py) + hand-written
      configurations for the features L1 does not model (chords v2, defseq modes, zippychord, caps-word, unmod,
      mouse movement / scroll, dynamic macros), random physically consistent histories with gaps around the
      configuration's own numbers, then Bound quiet ticks; recorded and validated by TLC against P_C01.
"""
import re
from props.common import *
import cfggen

PID = "C01"
MON = "P_C01"
SLACK = 200


# ------------------------------------------------------------------ text-level parameters of P_C01
def tokens(text):
    """atoms and parentheses of a .kbd text (comments and strings removed)"""
    text = re.sub(r'#\|.*?\|#', ' ', text, flags=re.S)
    text = re.sub(r';;[^\n]*', ' ', text)
    text = re.sub(r'"[^"\n]*"', ' S ', text)
    return re.findall(r'[()]|[^\s()]+', text)


def text_params(kbd, extra=0, slack=SLACK):
    """Bound ingredients from the configuration text: the sum of all numbers written in it (timeouts, delays,
    intervals, durations; other numbers only make the bound more generous) + 4 per item inside a macro."""
    toks = tokens(kbd)
    total = 0
    red = 5
    depth = 0
    macro_depth = []          # stack of paren depths at which a macro list was opened
    prev = None
    for i, t in enumerate(toks):
        if t == "(":
            depth += 1
            if i + 1 < len(toks) and re.match(r'(macro|dynamic-macro)', toks[i + 1]):
                macro_depth.append(depth)
        elif t == ")":
            if macro_depth and macro_depth[-1] == depth:
                macro_depth.pop()
            depth -= 1
        else:
            if re.fullmatch(r'\d+', t):
                v = int(t)
                if v <= 65535:
                    total += v
                if prev == "rapid-event-delay":
                    red = v
            if macro_depth:
                total += 4
        prev = t
    p = {"sum": total, "red": red, "slack": slack}
    if extra:
        p["extra"] = extra
    return p


def bound_of(p):
    return 2 * p["sum"] + 64 * (p["red"] + 1) + p["slack"] + p.get("extra", 0)


# ------------------------------------------------------------------ (a) the exhaustive instance family
HDR = "(defcfg rapid-event-delay %d%s)\n(defsrc %s)\n"


def cfg(keys, body, red=1, opts=""):
    return HDR % (red, (" " + opts) if opts else "", " ".join(keys)) + body.strip() + "\n"


def family(tier):
    """(name, kbd, key names, instance options)"""
    F = []

    def add(name, keys, body, red=1, opts="", quick=True, **inst):
        if tier == "quick" and not quick:
            return
        F.append((name, cfg(keys, body, red, opts), list(keys), inst))

    # ---- one per feature
    add("layers", "abc", "(deflayer l0 (layer-while-held l1) (layer-switch l1) x)\n"
                         "(deflayer l1 _ (layer-switch l0) (multi lsft y))", qmax=3)
    add("taphold", "ab", "(deflayer l0 (tap-hold 0 3 x lsft) (tap-hold-release 0 2 y lctl))", qmax=3, quick=False)
    add("taphold_conc", "ab", "(deflayer l0 (tap-hold 0 3 x lsft) (tap-hold-press 0 2 y lctl))",
        opts="concurrent-tap-hold yes", qmax=3)
    add("taphold_timeout", "ab", "(deflayer l0 (tap-hold-release-timeout 0 3 x lsft z) y)", qmax=3, quick=False)
    add("taphold_keys", "abc", "(deflayer l0 (tap-hold-release-keys 0 3 x lsft (b)) y z)", qmax=2, quick=False,
        custom_th=[("release-keys", [48])])
    add("oneshot_press", "abc", "(deflayer l0 (one-shot-press 3 lsft) y z)", qmax=3, osbound=3, quick=False)
    add("oneshot_release", "abc", "(deflayer l0 (one-shot-release 3 lsft) (one-shot-press-pcancel 2 lctl) z)", qmax=2,
        osbound=3)
    add("oneshot_rpc", "ab", "(deflayer l0 (one-shot-release-pcancel 3 S-lalt) y)", qmax=3, osbound=3, quick=False)
    add("tapdance", "ab", "(deflayer l0 (tap-dance 3 (x S-y lctl)) z)", qmax=3, quick=False)
    add("chordv1", "abc", "(defchords g 3 (a) x (b) y (a b) S-z (a b c) lctl (c) w)\n"
                          "(deflayer l0 (chord g a) (chord g b) (chord g c))", qmax=3, quick=False)
    add("macro", "ab", "(deflayer l0 (macro S-(x 1 y)) (macro C-x))", qmax=2, seqbound=2)
    add("macro_repeat", "ab", "(deflayer l0 (macro-repeat S-x 1) y)", qmax=2, seqbound=2, quick=False)
    add("fork_switch", "abc", "(deflayer l0 lsft (fork x (multi lctl y) (lsft)) "
                              "(switch (lsft) z break ((not lsft)) (multi lalt w) break))", qmax=3)
    add("overrides", "abc", "(defoverrides (lsft a) (x) (lsft lctl a) (lalt y))\n(deflayer l0 lsft a lctl)", qmax=3)
    add("vkeys_balanced", "ab", "(defvirtualkeys v (multi lctl (layer-while-held l1)))\n"
                                "(deflayer l0 (multi (on-press press-vkey v) (on-release release-vkey v)) x)\n"
                                "(deflayer l1 _ (multi lsft y))", qmax=3)
    add("holdfor", "ab", "(defvirtualkeys v lsft)\n(deflayer l0 (hold-for-duration 3 v) x)", qmax=3)
    add("onidle", "ab", "(defvirtualkeys v S-x)\n(deflayer l0 (on-idle 3 tap-vkey v) y)", qmax=2, quick=False)
    add("mouse", "ab", "(deflayer l0 mlft (multi mrgt lsft mltp))", qmax=3)
    add("release_state", "abc", "(deflayer l0 (multi lsft (layer-while-held l1)) (multi x (release-key lsft)) z)\n"
                                "(deflayer l1 _ (multi y (release-layer l1)) lctl)", qmax=3, quick=False)
    add("repeat", "ab", "(deflayer l0 S-x rpt)", qmax=3, quick=False)
    # ---- pairwise combinations
    add("layer_x_taphold", "abc", "(deflayer l0 (tap-hold 0 3 x (layer-while-held l1)) y (layer-while-held l1))\n"
                                  "(deflayer l1 _ (tap-hold-press 0 2 z lsft) _)", qmax=2)
    add("oneshot_x_chordv1", "ab", "(defchords g 3 (a) x (b) (one-shot 3 lsft) (a b) (one-shot-release 2 lctl))\n"
                                   "(deflayer l0 (chord g a) (chord g b))", qmax=3, osbound=3)
    add("macro_x_relcancel", "ab", "(deflayer l0 (macro-release-cancel S-(x 1 y)) (macro-cancel-on-press C-(x 1 y)))",
        qmax=2, seqbound=2)
    add("tde_x_layer", "ab", "(deflayer l0 (tap-dance-eager 3 (x (layer-while-held l1) lsft)) y)\n"
                             "(deflayer l1 _ (multi lctl z))", qmax=3)
    add("oneshot_x_taphold", "ab", "(deflayer l0 (one-shot 3 lsft) (tap-hold 0 2 y lctl))", qmax=3, osbound=3, quick=False)
    add("oneshot_x_layer", "abc", "(deflayer l0 (one-shot 3 (layer-while-held l1)) y lsft)\n"
                                  "(deflayer l1 _ (one-shot-press 2 lctl) z)", qmax=2, osbound=3, quick=False)
    add("tapdance_x_taphold", "ab", "(deflayer l0 (tap-dance 2 (x (tap-hold 0 2 y lsft))) z)", qmax=3, quick=False)
    add("chordv1_x_taphold", "ab", "(defchords g 2 (a) x (b) y (a b) (tap-hold 0 2 z lsft))\n"
                                   "(deflayer l0 (chord g a) (chord g b))", qmax=3, quick=False)
    add("macro_x_vkey", "ab", "(defvirtualkeys v (multi lsft (layer-while-held l1)))\n"
                              "(deflayer l0 (macro (on-press press-vkey v) x 1 (on-press release-vkey v)) y)\n"
                              "(deflayer l1 _ z)", qmax=2, seqbound=2, quick=False)
    add("holdfor_x_oneshot", "ab", "(defvirtualkeys v (one-shot 2 lsft))\n(deflayer l0 (hold-for-duration 3 v) x)",
        qmax=3, osbound=3, quick=False)
    return F


def mc_part(res, tier, wd, rng):
    witness_jobs = []
    for name, kbd, keynames, io in family(tier):
        keys = [cfgdesc.code(k) for k in keynames]
        params = text_params(kbd)
        inst = {"name": "c01_" + name, "kbd": kbd, "keys": keys, "qmax": io.get("qmax", 3),
                "monitor": {"module": MON, "params": params}}
        if io.get("custom_th"):
            inst["custom_th"] = io["custom_th"]
        if io.get("seqbound"):
            # overlapping macros multiply the cursor positions: the exhaustive instances stop at `seqbound`
            # simultaneously running macros, the burst scripts go beyond the 4-slot ring on the real code
            inst["constraint"] = "SeqBound"
            inst["extra_defs"] = "SeqBound == Len(K.L.seqs) <= %d" % io["seqbound"]
        if io.get("osbound"):
            # re-pressing a one-shot key stacks coordinates up to the 16-entry ring: the exhaustive instances stop
            # at 3 stacked entries, the burst scripts below go beyond 16 on the real code
            b = io["osbound"]
            inst["constraint"] = "OsBound"
            inst["extra_defs"] = ("OsBound == Len(K.L.os.keys) <= %d /\\ Len(K.L.os.other) <= %d /\\ "
                                  "Len(K.L.os.released) <= %d" % (b, b, b))
        r = mc.check_instance(inst, wd, workers=8, timeout=1500)
        res.add_instance(r)
        log("[C01] %-22s states=%s edges=%s drift=%s monerr=%s panic=%s tlc=%ss wall=%ss bound=%d" % (
            name, r["states"], r.get("edges"), r.get("drift"), r["n_monerr"], r["n_panic"], r["tlc_wall_s"],
            r["wall_s"], bound_of(params)))
        if len(res.samples) < 4:
            res.samples.append({"instance": name, "kbd": kbd, "states": r["states"], "edges": r.get("edges"),
                                "bound": bound_of(params)})
        ws = flow.witness_scripts(r["monerr_file"], 20) + flow.witness_scripts(r["panic_file"], 5)
        scripts = [flow.hist_to_script(w["h"], bound_of(params) + 50) for w in ws] + \
                  [flow.hist_to_script(d["h"], bound_of(params) + 50) for d in r.get("drift_samples", [])]
        if scripts:
            witness_jobs.append({"cfg": kbd, "params": params, "tag": "w:" + name, "scripts": scripts})
    return witness_jobs


def run(tier, seed):
    res = flow.Result(PID, tier, seed)
    rng = random.Random(seed)
    wd = workdir("c01")
    witness_jobs = mc_part(res, tier, wd, rng)
    return 0
