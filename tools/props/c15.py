"""C15 - live reload is all-or-nothing (failure keeps the old config, success = restart).

Flow (DESIGN 3.2): per (old, new) configuration pair
  A  the constants of both configurations come from the real parser (dump-cfg),
  D  TLC explores spec/Reload.tla (two instances of the detailed model under one running state, the
     deferred reload, every fault kind at every attempt) composed with three lanes and the relational
     monitor spec/P_C15.tla,
  B  every transition of that graph (inputs, iterations, file contents at the attempt) is replayed on
     the real code through the deterministic loop stepper (harness `reload-edges`),
  C  request points x fault kinds x continuations enumerated by TLC, plus scripted retained-state
     scenarios and random histories, are run as three lanes on the real code (harness `reload`) and the
     recorded lane triples are validated by TLC against P_C15."""
import glob
import subprocess
from props.common import *

PID = "C15"
MON = "P_C15"

# ------------------------------------------------------------------------------------------------
# configuration pairs.  Request keys are the same on every layer of every valid content.
REQ_ACTIONS = {"lrld": "lrld", "next": "lrld-next", "prev": "lrld-prev"}


def req_text(q):
    """The action as written in the file; "text" = another documented spelling of the same request (docs/config.adoc:
    'The prev/next variants can be used with shortened names of lrpv and lrnx').  The monitor parameters say which
    request the key makes (k), never how it is spelled."""
    if q.get("text"):
        return q["text"]
    return "(lrld-num %d)" % q["n"] if q["k"] == "num" else REQ_ACTIONS[q["k"]]


NEUTRAL = '(push-msg "noreq")'      # a custom action whose only effect is a message to TCP clients (dropped by the harness)


def kbd(keys, layers, reqs, extra="", defcfg="", neutral=False):
    """keys: source key names (without the request keys); layers: [(name, [action per key])];
    reqs: [{"key","k","n"}]."""
    out = []
    if defcfg:
        out.append("(defcfg %s)" % defcfg)
    out.append("(defsrc %s)" % " ".join(list(keys) + [q["key"] for q in reqs]))
    if extra:
        out.append(extra)
    for name, acts in layers:
        out.append("(deflayer %s %s)" % (name, " ".join(list(acts) + [NEUTRAL if neutral else req_text(q) for q in reqs])))
    return "\n".join(out) + "\n"


def pair(name, keys, reqs, o, n, nfiles=1, start=None, kinds=None, qmax=2, maxatt=1, settle=None, rnd_gaps=None,
         pre=5, post=3, env=None, env_reqs=None, aux=None):
    """o, n: dict(layers=[(name,[actions])], extra=, defcfg=)"""
    def both(c, **kw):
        return kbd(keys, c["layers"], reqs, c.get("extra", ""), c.get("defcfg", ""), **kw)
    xcfg = (n.get("defcfg", "") + " linux-x11-repeat-delay-rate 400,50").strip()
    texts = {
        "O": both(o), "N": both(n),
        # parses, but a step of the reload (xset, run before the first assignment since 20ca339) cannot be run
        "X": kbd(keys, n["layers"], reqs, n.get("extra", ""), xcfg),
        "S": both(n).rstrip()[:-1] + "\n",                         # unbalanced parenthesis
        "S2": both(n) + ')\n',                                     # stray closing parenthesis
        "R": both(n).replace("(deflayer %s " % n["layers"][0][0], "(deflayer %s nosuchkey " % n["layers"][0][0], 1),
        "R2": both(n) + "(defsrc a)\n",                            # refused: a second defsrc
        "R3": both(n) + "(defalias)\n(deflayer %s)\n" % n["layers"][0][0],   # duplicate layer name / wrong length
    }
    btexts = {"O": both(o, neutral=True), "N": both(n, neutral=True), "X": both(n, neutral=True)}
    first = {"O": o["layers"][0][0], "N": n["layers"][0][0], "X": n["layers"][0][0]}
    return {"name": name, "keys": list(keys), "reqs": reqs, "texts": texts, "btexts": btexts, "first": first,
            "aux": dict(aux or {}), "nfiles": nfiles, "start": start or (["O"] + ["N"] * (nfiles - 1)),
            "kinds": kinds or ["N", "S", "missing"], "qmax": qmax, "maxatt": maxatt, "settle": settle, "pre": pre, "post": post,
            "env": list(env if env is not None else keys) + list(env_reqs if env_reqs is not None else [q["key"] for q in reqs]),
            "rnd_gaps": rnd_gaps or [0, 1, 1, 2, 3, 5]}


R1 = [{"key": "r", "k": "lrld", "n": 0}]
R4 = [{"key": "r", "k": "lrld", "n": 0}, {"key": "n", "k": "next", "n": 0}, {"key": "p", "k": "prev", "n": 0},
      {"key": "m", "k": "num", "n": 3}]

# the documented short spellings of the cycling requests
R4S = [dict(q, text={"next": "lrnx", "prev": "lrpv"}.get(q["k"])) for q in R4]

ALL_KINDS = ["N", "O", "X", "S", "S2", "R", "R2", "R3", "missing", "unreadable"]


def family(tier):
    q = tier == "quick"
    fam = []
    # plain key and a layer switch before the request: is the base layer reset?
    fam.append(pair("layers", ["a", "b"], R1,
                    {"layers": [("l0", ["a", "(layer-switch l1)"]), ("l1", ["x", "(layer-switch l0)"])]},
                    {"layers": [("n0", ["1", "(layer-while-held n1)"]), ("n1", ["2", "_"])]},
                    kinds=["N", "S", "missing", "X"] if q else ALL_KINDS, maxatt=1 if q else 2, pre=4 if q else 6, post=3 if q else 4))
    # pending tap-hold, active one-shot at the request point
    fam.append(pair("thos", ["a", "b"], R1,
                    {"layers": [("l0", ["(tap-hold 0 3 x lsft)", "(one-shot 4 lctl)"])], "defcfg": "rapid-event-delay 1"},
                    {"layers": [("n0", ["(one-shot 3 lalt)", "(tap-hold 0 2 2 rsft)"])], "defcfg": "rapid-event-delay 1"},
                    kinds=["N", "R", "O"] if q else ALL_KINDS, pre=4 if q else 6, post=2 if q else 4))
    # running macro at the request point (no output key is down between its taps)
    fam.append(pair("macro", ["a", "b"], R1,
                    {"layers": [("l0", ["(macro y 2 z)", "lsft"])]},
                    {"layers": [("n0", ["1", "(macro 2 1 3)"])]},
                    kinds=["N", "S2", "O"] if q else ALL_KINDS, pre=3 if q else 5, post=2 if q else 4))
    # virtual keys: hold-for-duration pending release and on-idle pending at the request point; the same
    # coordinates mean something else in the new configuration
    fam.append(pair("vkeys", ["a", "b"], R1,
                    {"layers": [("l0", ["(hold-for-duration 4 v1)", "(on-idle 5 tap-vkey v2)"]), ("l1", ["q", "w"])],
                     "extra": "(defvirtualkeys v1 (layer-while-held l1) v2 y)"},
                    {"layers": [("n0", ["(hold-for-duration 3 w1)", "1"])],
                     "extra": "(defvirtualkeys w1 z w2 lsft)"},
                    kinds=["N", "unreadable"] if q else ALL_KINDS, settle=30, pre=3 if q else 5, post=2 if q else 4))
    # three files, all request kinds (F3)
    # quick explores the short spellings lrnx / lrpv (the long ones: scenarios cycle3, failed_next_then_next); thorough both
    fam.append(pair("files3", ["a"], R4S if q else R4,
                    {"layers": [("l0", ["a"])]}, {"layers": [("n0", ["1"])]},
                    nfiles=3, start=["O", "N", "N"], kinds=["N", "S"] if q else ["N", "O", "S", "X"],
                    maxatt=2, pre=2 if q else 3, post=2, env=[],
                    env_reqs=["r", "n", "p"] if q else None))
    if not q:
        fam.append(pair("files3s", ["a"], R4S,
                        {"layers": [("l0", ["a"])]}, {"layers": [("n0", ["1"])]},
                        nfiles=3, start=["O", "N", "N"], kinds=["N", "O", "S"], maxatt=2, pre=3, post=2, env=[]))
        # the one-second fallback: an unmod key is no NormalKey, so with it held kanata counts idle ticks and the reload
        # is applied with an output key down.  ticks_since_idle needs its real range here (cap 1002); the environment
        # does not interrupt the idle second in the middle
        u = pair("unmod", ["a", "b"], R1,
                 {"layers": [("l0", ["(unmod x)", "b"])]}, {"layers": [("n0", ["1", "2"])]},
                 kinds=["N", "S"], pre=3, post=2, settle=40)
        u["age"] = 1002
        u["label"] = "scenario unmod"     # the same defect as the scripted scenario (known finding)
        u["mc_scap"] = 1001
        u["extra_guard"] = "/\\ ~(SA.K.lrr /\\ SA.K.tsi > 2 /\\ SA.K.tsi < 999)"
        fam.append(u)
    return fam


def check_texts(p, wd):
    """The fault kinds are what they claim to be: the real file loader (cfg::new_from_file, what a reload calls)
    accepts exactly the valid contents."""
    build_harness()
    casef = os.path.join(wd, "c15_kinds_%s.json" % p["name"])
    texts = dict(p["texts"])
    texts.update({"B" + k: t for k, t in p["btexts"].items()})
    json.dump({"texts": texts, "aux": p.get("aux", {})}, open(casef, "w"))
    outf = casef + ".out"
    sh([HARNESS, "reload-kinds", casef, outf, wd])
    got = json.load(open(outf))
    for kind, ok in got.items():
        want = kind in ("O", "N", "X") or kind.startswith("B")
        if ok != want:
            raise ToolError("content kind %s of pair %s: the file loader %s it" % (kind, p["name"], "accepts" if ok else "rejects"))


# ------------------------------------------------------------------------------------------------
MC_TEMPLATE = r'''---- MODULE %(mod)s ----
EXTENDS Reload, Json
%(consts)s
CfgOfKindDef == %(cfgofkind)s
PostFailDef == %(postfail)s
EnvKeys == %(keys)s
QMax == %(qmax)d
MaxAtt == %(maxatt)d
PreBudget == %(prebudget)d
PostBudget == %(postbudget)d
AttemptKinds == %(kinds)s
MonParams == %(monparams)s
Mon == INSTANCE P_C15

VARIABLES SA, SB, SC, lane, mon, phys, natt, budget, hist, obs
vars == <<SA, SB, SC, lane, mon, phys, natt, budget, hist, obs>>
Off == [on |-> FALSE]
OffC == [on |-> FALSE, run |-> FALSE]
Init == /\ SA = InitS /\ SB = InitS /\ SC = 0 /\ lane = [b |-> TRUE, c |-> "off", ci |-> 0]
        /\ mon = Mon!MonInit(MonParams) /\ phys = {} /\ natt = 0 /\ budget = PreBudget /\ hist = <<>> /\ obs = 0

Alive == SA.K.L.panic = "" /\ mon.err = ""
\* the environment: at most QMax queued events, PreBudget input events before the first reload attempt and
\* PostBudget after the latest one (the continuation)
CanInput == Alive /\ Len(SA.K.L.queue) < QMax /\ budget > 0 %(extra_guard)s
InRec(S) == [on |-> TRUE, out |-> S.K.out]
Input(kind, c) ==
  /\ SA' = InputS(SA, kind, c)
  /\ SB' = IF lane.b THEN InputS(SB, kind, c) ELSE SB
  /\ SC' = IF lane.c # "off" THEN InputS(SC, kind, c) ELSE SC
  /\ mon' = Mon!MonStep(mon, [e |-> kind, c |-> c, A |-> InRec(SA'), B |-> IF lane.b THEN InRec(SB') ELSE Off,
                              C |-> IF lane.c = "on" THEN InRec(SC') ELSE OffC])
  /\ hist' = Append(hist, <<kind, c>>)
  /\ obs' = [out |-> SA'.K.out, proj |-> ProjOf(SA'.cfg, SA'.K)]
  /\ budget' = budget - 1
  /\ UNCHANGED <<lane, natt>>
Press(c) == CanInput /\ c \notin phys /\ Input("d", c) /\ phys' = phys \cup {c}
Release(c) == CanInput /\ c \in phys /\ Input("u", c) /\ phys' = phys \ {c}
\* OS key repeat of a held key: handle_repeat consults the key_outputs table of the configuration in force
Repeat(c) == CanInput /\ c \in phys /\ Input("r", c) /\ UNCHANGED phys

TickRec(r) == [on |-> TRUE, out |-> r.out, idle |-> r.idle, cb |-> r.cb, msgs |-> r.msgs, lrr |-> r.S.K.lrr,
               idx |-> r.S.idx, layer |-> LayerNameOf(r.S.cfg, CurLayerOf(r.S.cfg, r.S.K)), repl |-> r.repl]
\* the monitor only needs to know whether the content parses: all failing kinds are one value in its state
MonKind(f) == IF CfgOfKind[f] = "" \/ f \in PostFailDef THEN "bad" ELSE f
TickWith(f, att, aidx) ==
  LET ra == LoopIter(SA, f, FALSE)
      rb == IF lane.b THEN LoopIter(SB, f, TRUE) ELSE 0
      rc == IF lane.c # "off" THEN LoopIter(SC, f, FALSE) ELSE 0
      trec == [e |-> "t", n |-> 1, phys |-> Cardinality(phys), A |-> TickRec(ra),
               B |-> IF lane.b THEN TickRec(rb) ELSE Off,
               C |-> IF lane.c = "on" THEN [TickRec(rc) EXCEPT !.on = TRUE] @@ [run |-> TRUE]
                     ELSE IF lane.c = "wait" THEN [on |-> FALSE, run |-> TRUE, cb |-> rc.cb] ELSE OffC]
      mon0 == IF att THEN Mon!MonStep(mon, [e |-> "w", i |-> aidx, k |-> MonKind(f), valid |-> TRUE]) ELSE mon
      c1 == IF ra.repl /\ lane.c # "on" THEN "wait" ELSE lane.c
      ci1 == IF ra.repl /\ lane.c # "on" THEN ra.S.idx ELSE lane.ci
      c2 == IF c1 = "wait" /\ ra.cb /\ phys = {} /\ (ra.repl \/ (lane.c = "wait" /\ rc.cb)) THEN "on" ELSE c1
  IN /\ SA' = ra.S
     /\ SB' = IF lane.b /\ ~ra.repl THEN rb.S ELSE 0
     \* the fresh instance is created in the iteration of the reload and fed from then on (compared once "on")
     /\ SC' = IF ra.repl /\ lane.c # "on" THEN FreshS(ra.S.cfg, ci1) ELSE IF lane.c # "off" THEN rc.S ELSE 0
     /\ lane' = [b |-> lane.b /\ ~ra.repl, c |-> c2, ci |-> ci1]
     /\ mon' = Mon!MonStep(mon0, trec)
     /\ obs' = [out |-> ra.out, idle |-> ra.idle, cb |-> ra.cb, msgs |-> ra.msgs, lrr |-> ra.S.K.lrr, idx |-> ra.S.idx,
                li |-> CurLayerOf(ra.S.cfg, ra.S.K), repl |-> ra.repl, proj |-> ProjOf(ra.S.cfg, ra.S.K)]
     /\ UNCHANGED phys
\* plain iterations are run-length compressed in the history: <<"T", n>>
TickAppend(h) == IF h # <<>> /\ h[Len(h)][1] = "T" THEN [h EXCEPT ![Len(h)] = <<"T", @[2] + 1>>] ELSE Append(h, <<"T", 1>>)
Tick == /\ Alive
        /\ LET p == Pre(SA, FALSE) IN
           IF p.due
           THEN /\ natt < MaxAtt
                /\ \E f \in AttemptKinds :
                     /\ TickWith(f, TRUE, p.S.idx)
                     /\ hist' = Append(hist, <<"t", f, p.S.idx>>)
                /\ natt' = natt + 1 /\ budget' = PostBudget
           ELSE /\ TickWith("none", FALSE, 0)
                /\ hist' = TickAppend(hist) /\ UNCHANGED <<natt, budget>>
Next == (\E c \in EnvKeys : Press(c) \/ Release(c) \/ Repeat(c)) \/ Tick

View == <<SA, SB, SC, lane, mon, phys, natt, budget>>
Edge == PrintT(<<"EDGE", ToJson([h |-> hist', x |-> obs'])>>)
PanicProbe == SA.K.L.panic = "" \/ PrintT(<<"PANIC", ToJson([h |-> hist, site |-> SA.K.L.panic])>>)
MonProbe == mon.err = "" \/ PrintT(<<"MONERR", ToJson([h |-> hist, err |-> mon.err])>>)
====
'''

CFG_TEMPLATE = '''CONSTANT ActO <- ActODef
CONSTANT LayerTabO <- LayerTabODef
CONSTANT SrcTabO <- SrcTabODef
CONSTANT OptsO <- OptsODef
CONSTANT NamesO <- NamesODef
CONSTANT ActN <- ActNDef
CONSTANT LayerTabN <- LayerTabNDef
CONSTANT SrcTabN <- SrcTabNDef
CONSTANT OptsN <- OptsNDef
CONSTANT NamesN <- NamesNDef
CONSTANT CapsR <- CapsRDef
CONSTANT BugR <- BugRDef
CONSTANT CfgOfKind <- CfgOfKindDef
CONSTANT PostFail <- PostFailDef
CONSTANT NFilesR <- NFilesRDef
INIT Init
NEXT Next
VIEW View
ACTION_CONSTRAINT Edge
CHECK_DEADLOCK FALSE
INVARIANT PanicProbe
INVARIANT MonProbe
'''

CFG_OF_KIND = {"O": "O", "N": "N", "X": "N"}


def mon_params(p, idxsem, scap, files=None):
    codes = {q["key"]: cfgdesc.code(q["key"]) for q in p["reqs"]}
    return {"files": list(files or p["start"]), "valid": ["O", "N"], "first": p["first"],
            "req": [{"c": codes[q["key"]], "k": q["k"], "n": q["n"]} for q in p["reqs"]],
            "idxsem": idxsem, "scap": scap, "sec": 1000, "bound": 1, "settle": p["settle"]}


def gen_mc(p, wd, tier):
    keys = [cfgdesc.code(k) for k in p["keys"] + [q["key"] for q in p["reqs"]]]
    dO, _ = dump_cfg(p["texts"]["O"], keys, wd, "c15_%s_O" % p["name"])
    dN, _ = dump_cfg(p["texts"]["N"], keys, wd, "c15_%s_N" % p["name"])
    age = p.get("age") or (max(max_number(dO), max_number(dN)) + 2)
    if p["settle"] is None:
        p["settle"] = 2 * age + 12
    cO, capsO = gen_constants(dO, caps={"age": age})
    cN, _ = gen_constants(dN, caps={"age": age})

    def ren(c, suffix):
        out = []
        for line in c.split("\n"):
            name, rest = line.split(" == ", 1)
            if name == "CapsDef":
                continue
            out.append(name.replace("Def", suffix + "Def") + " == " + rest)
        return "\n".join(out)
    consts = ren(cO, "O") + "\n" + ren(cN, "N") + "\nCapsRDef == " + tla_val(capsO) + '\nBugRDef == "none"' + \
        "\nNamesODef == " + tla_val(dO["layer_names"]) + "\nNamesNDef == " + tla_val(dN["layer_names"]) + \
        "\nNFilesRDef == %d" % p["nfiles"]
    allk = sorted(set(p["kinds"]) | {"none"} | set(ALL_KINDS))
    cfgofkind = "(" + " @@ ".join('%s :> %s' % (tla_val(k), tla_val(CFG_OF_KIND.get(k, ""))) for k in allk) + ")"
    mod = "MC_c15_" + p["name"]
    # the graph is explored with the index semantics of the code ("requested") so that nothing is pruned behind the
    # known deviation F3x; the statement semantics ("inuse") are applied to the recorded traces
    text = MC_TEMPLATE % dict(mod=mod, consts=consts, cfgofkind=cfgofkind, postfail='{"X"}',
                              keys="{" + ", ".join(str(cfgdesc.code(k)) for k in p["env"]) + "}",
                              qmax=p["qmax"], maxatt=p["maxatt"], prebudget=p["pre"], postbudget=p["post"],
                              kinds="{" + ", ".join(tla_val(k) for k in p["kinds"]) + "}",
                              monparams=tla_val(mon_params(p, "requested", p.get("mc_scap", 0))),
                              extra_guard=p.get("extra_guard", ""))
    open(os.path.join(wd, mod + ".tla"), "w").write(text)
    open(os.path.join(wd, mod + ".cfg"), "w").write(CFG_TEMPLATE)
    return mod, keys, age


def case_of(p, cid, script, params, lanes=True):
    return {"id": cid, "params": params, "texts": p["texts"], "btexts": p["btexts"], "aux": p.get("aux", {}), "start": p["start"],
            "script": script, "lanes": lanes}


def hist_to_steps(h):
    s = []
    for st in h:
        if st[0] == "T":
            s.append(["t", int(st[1])])
        elif st[0] == "t":
            if len(st) >= 3:
                s.append(["w", int(st[2]), st[1]])
            s.append(["t"])
        else:
            s.append([st[0], int(st[1])])
    return s


def replay_reload_edges(p, edges_file, wd, cap):
    build_harness()
    lines = open(edges_file).read().splitlines()
    if not lines:
        return {"edges": 0, "mismatches": 0, "panics": 0, "samples": []}
    conv = []
    for line in lines:
        e = json.loads(line)
        conv.append(json.dumps({"h": hist_to_steps(e["h"]), "x": e["x"]}))
    n = max(1, min(min(NCPU, 12), len(conv) // 300 + 1))
    casef = os.path.join(wd, "c15_%s.case.json" % p["name"])
    json.dump(case_of(p, p["name"], [], {}, lanes=False), open(casef, "w"))
    procs = []
    for i in range(n):
        part = edges_file + ".part%d" % i
        open(part, "w").write("\n".join(conv[i::n]) + "\n")
        outp = part + ".res.json"
        procs.append((subprocess.Popen([HARNESS, "reload-edges", casef, part, outp, wd, str(cap)],
                                       stdout=subprocess.PIPE, stderr=subprocess.STDOUT, text=True), part, outp))
    tot = {"edges": 0, "mismatches": 0, "panics": 0, "clock_slips": 0, "samples": []}
    for pr, part, outp in procs:
        so, _ = pr.communicate()
        if pr.returncode != 0:
            raise ToolError("reload-edges failed: " + (so or "")[-2000:])
        r = json.load(open(outp))
        for k in ("edges", "mismatches", "panics", "clock_slips"):
            tot[k] += r[k]
        tot["samples"] += r["samples"][:10]
        os.remove(part)
        os.remove(outp)
    return tot


# ------------------------------------------------------------------------------------------------
TRACE_TEMPLATE = r"""---- MODULE Trace_P_C15 ----
EXTENDS P_C15, Json, IOUtils
Rec == ndJsonDeserialize(IOEnv.TRACE)
VARIABLES l, mon, cur
Init == l = 1 /\ mon = [err |-> "idle"] /\ cur = <<0, 0>>
Next == /\ l <= Len(Rec) /\ l' = l + 1
        /\ LET r == Rec[l] IN
           IF r.e = "reset" THEN mon' = MonInit(r.params) /\ cur' = <<r.job, r.script>>
           ELSE IF r.e = "end" THEN mon' = [err |-> "idle"] /\ UNCHANGED cur
           ELSE mon' = MonStep(mon, r) /\ UNCHANGED cur
ErrPrint == (mon.err = "" /\ mon'.err \notin {"", "idle"}) =>
              PrintT(<<"VERR", ToJson([job |-> cur[1], script |-> cur[2], line |-> l, err |-> mon'.err])>>)
Accepted == TLCGet("stats").diameter - 1 = Len(Rec)
====
"""


def validate_lanes(trace_file, wd, timeout=1800):
    mod = "Trace_P_C15"
    open(os.path.join(wd, mod + ".tla"), "w").write(TRACE_TEMPLATE)
    open(os.path.join(wd, mod + ".cfg"), "w").write(TRACE_CFG)
    nlines = sum(1 for _ in open(trace_file))
    outp = os.path.join(wd, mod + "." + os.path.basename(trace_file) + ".out")
    r = run_tlc(wd, mod, workers=1, timeout=timeout, heap="4g", deque=True,
                env_extra={"TRACE": os.path.abspath(trace_file)}, stdout_path=outp)
    errs_f = outp + ".verr"
    extract_prints(outp, "VERR", errs_f)
    errs = [json.loads(x) for x in open(errs_f) if x.strip()]
    txt = open(outp, errors="replace").read()
    if r["rc"] != 0 or "Model checking completed. No error" not in txt:
        raise ToolError("trace validation with P_C15 did not accept/consume %s (rc=%s): %s" %
                        (trace_file, r["rc"], r["error"] or txt[-1500:]))
    return nlines, errs


def run_lanes(cases, wd, name, shards=None):
    """Runs the cases (three lanes each) on the real code; returns the concatenated trace file."""
    build_harness()
    shards = shards or min(NCPU, 12)
    n = max(1, min(shards, len(cases) // 20 + 1))
    procs = []
    for i in range(n):
        jf = os.path.join(wd, "%s.%d.json" % (name, i))
        of = os.path.join(wd, "%s.%d.ndjson" % (name, i))
        json.dump({"cases": cases[i::n]}, open(jf, "w"))
        procs.append((subprocess.Popen([HARNESS, "reload", jf, of, wd], stdout=subprocess.PIPE,
                                       stderr=subprocess.STDOUT, text=True), of))
    dest = os.path.join(wd, name + ".trace.ndjson")
    with open(dest, "w") as g:
        for pr, of in procs:
            so, _ = pr.communicate(timeout=3600)
            if pr.returncode != 0:
                raise ToolError("harness reload failed rc=%s: %s" % (pr.returncode, (so or "")[-2000:]))
            g.write(open(of).read())
    return dest


def record_validate(res, pairs_by_id, cases, wd, name):
    """cases carry 'pair' (family member name) for the replay file."""
    if not cases:
        return []
    trace = run_lanes([{k: v for k, v in c.items() if k != "pair"} for c in cases], wd, name)
    nlines, errs = validate_lanes(trace, wd)
    res.traces_validated += len(cases)
    res.trace_lines += nlines
    # vacuity: what the recorded lanes actually exercised
    st = {"cases": 0, "with_successful_reload": 0, "with_fresh_lane_compared": 0, "with_invalid_file_at_request": 0,
          "reloads": 0, "lane_B_iterations": 0, "lane_C_iterations": 0, "reload_with_physical_key_held": 0}
    cur = None
    for line in open(trace):
        r = json.loads(line)
        if r["e"] == "reset":
            cur = {"repl": False, "c": False, "bad": False}
            st["cases"] += 1
        elif r["e"] == "w" and not r["valid"] and not cur["bad"]:
            cur["bad"] = True
            st["with_invalid_file_at_request"] += 1
        elif r["e"] == "t":
            if r["A"].get("repl"):
                st["reloads"] += 1
                if r["phys"] > 0:
                    st["reload_with_physical_key_held"] += 1
                if not cur["repl"]:
                    cur["repl"] = True
                    st["with_successful_reload"] += 1
            if r["B"]["on"]:
                st["lane_B_iterations"] += r["n"]
            if r["C"]["on"]:
                st["lane_C_iterations"] += r["n"]
                if not cur["c"]:
                    cur["c"] = True
                    st["with_fresh_lane_compared"] += 1
    res.extra["lanes"] = st
    if min(st["with_successful_reload"], st["with_fresh_lane_compared"], st["with_invalid_file_at_request"]) == 0:
        raise ToolError("vacuous lane runs: %r" % st)
    by_id = {c["id"]: c for c in cases}
    skipped = 0
    for e in errs:
        c = by_id[e["job"]]
        if len(res.violations) >= 25:      # enough replay files; the rest is only counted
            skipped += 1
            continue
        label = str(c.get("pair"))
        if not label.startswith("scenario"):
            label = pairs_by_id[label].get("label", "pair " + label) if label in pairs_by_id else "pair " + label
        flow.classify(res, PID, e["err"], e["err"] + " [" + label + "]",
                      {"property": PID, "kind": "c15", "case": {k: v for k, v in c.items() if k != "pair"},
                       "err": e["err"], "monitor": MON, "pair": c.get("pair")},
                      "%s_%d" % (name, len(res.violations)))
    if skipped:
        res.notes.append({"rejected_traces_beyond_the_first_25_violations": skipped})
    return errs


def replay(r, path, wd):
    """./check replay <file>: re-run the recorded case (three lanes) and re-validate it with P_C15."""
    trace = run_lanes([r["case"]], wd, "replay_c15")
    for i, line in enumerate(open(trace)):
        print("%4d %s" % (i + 1, line.rstrip()[:400]))
    n, errs = validate_lanes(trace, wd)
    for e in errs:
        print("REJECTED at line %s: %s" % (e["line"], e["err"]))
    if errs:
        print("VIOLATION property=%s replay=%s" % (PID, path))
        return 1
    print("accepted by P_C15")
    return 0


# ------------------------------------------------------------------------------------------------
def tail_steps(p, keys_down, settle):
    """release what is held, let kanata settle, then tap every key once (the continuation that is compared
    with the fresh instance beyond the model's bound)."""
    s = []
    for k in sorted(keys_down):
        s += [["u", k], ["t", 1]]
    s.append(["t", settle + 4])
    for name in p["keys"]:
        c = cfgdesc.code(name)
        # held long enough for the OS to send key repeats (every input kind belongs to "behaves like a fresh instance")
        s += [["d", c], ["t", 2], ["r", c], ["t", 1], ["r", c], ["t", 2], ["u", c], ["t", settle]]
    # the last key held while the first one repeats (a held layer / modifier under the repeat)
    if len(p["keys"]) >= 2:
        a, b = cfgdesc.code(p["keys"][0]), cfgdesc.code(p["keys"][-1])
        s += [["d", b], ["t", 2], ["d", a], ["t", 2], ["r", a], ["t", 1], ["r", b], ["t", 1], ["u", a], ["t", 2], ["u", b], ["t", settle]]
    return s


def held_after(steps):
    down = set()
    for st in steps:
        if st[0] == "d":
            down.add(st[1])
        elif st[0] == "u":
            down.discard(st[1])
    return down


def lane_cases_from_edges(p, edges_file, rng, limit, settle):
    """request point x fault kind x continuation triples enumerated by TLC: the histories of the explored graph that
    contain a reload attempt; maximal ones first (every prefix of a history is covered by the same run)."""
    hs = []
    for line in open(edges_file):
        e = json.loads(line)
        if any(st[0] == "t" and len(st) >= 3 for st in e["h"]):
            hs.append(e["h"])
    keyed = {json.dumps(h): h for h in hs}
    # drop histories that are a proper prefix of another one
    pref = set()
    for h in hs:
        for i in range(1, len(h)):
            pref.add(json.dumps(h[:i]))
    maximal = [h for k, h in keyed.items() if k not in pref]
    rng.shuffle(maximal)
    maximal.sort(key=lambda h: -len(h))
    # stratify by fault kind so that a small sample still sees every kind
    by_kind = {}
    for h in maximal:
        ks = tuple(st[1] for st in h if st[0] == "t" and len(st) >= 3)
        by_kind.setdefault(ks, []).append(h)
    chosen = []
    while len(chosen) < limit and any(by_kind.values()):
        for ks in sorted(by_kind):
            if by_kind[ks] and len(chosen) < limit:
                chosen.append(by_kind[ks].pop(0))
    triples = set()
    cases = []
    for i, h in enumerate(chosen):
        steps = hist_to_steps(h)
        ia = max(j for j, st in enumerate(h) if st[0] == "t" and len(st) >= 3)
        triples.add((json.dumps(h[:ia]), h[ia][1], json.dumps(h[ia + 1:])))
        script = steps + tail_steps(p, held_after(steps), settle)
        cases.append(dict(case_of(p, "%s/e%d" % (p["name"], i), script, mon_params(p, "inuse", 1020)), pair=p["name"]))
    return cases, triples, len(hs), len(maximal)


def random_cases(p, rng, n, settle, nev):
    keys = [cfgdesc.code(k) for k in p["keys"]]
    rk = [cfgdesc.code(q["key"]) for q in p["reqs"]]
    kinds = p["kinds"]
    cases = []
    for i in range(n):
        s = []
        down = set()
        files = list(p["start"])
        for _ in range(rng.randint(3, nev)):
            x = rng.random()
            if x < 0.18:
                k = rng.choice(rk)
                if k in down:
                    s.append(["u", k]); down.discard(k)
                else:
                    fi = rng.randrange(p["nfiles"])
                    kd = rng.choice(kinds)
                    s.append(["w", fi, kd]); files[fi] = kd
                    s.append(["d", k]); down.add(k)
            else:
                k = rng.choice(keys)
                if k in down and rng.random() < 0.35:
                    s.append(["r", k])
                elif k in down:
                    s.append(["u", k]); down.discard(k)
                else:
                    s.append(["d", k]); down.add(k)
            g = rng.choice(p["rnd_gaps"])
            if g:
                s.append(["t", g])
        s += tail_steps(p, down, settle)
        cases.append(dict(case_of(p, "%s/r%d" % (p["name"], i), s, mon_params(p, "inuse", 1020)), pair=p["name"]))
    return cases


def run(tier, seed):
    res = flow.Result(PID, tier, seed)
    rng = random.Random(seed)
    wd = workdir("c15")
    fam = family(tier)
    pairs = {p["name"]: p for p in fam}
    all_triples = 0
    evaluations = 0
    kinds_seen = set()
    lane_cases = []
    from concurrent.futures import ThreadPoolExecutor

    def explore(p):
        pwd = workdir("c15/" + p["name"])
        check_texts(p, pwd)
        mod, keys, age = gen_mc(p, pwd, tier)
        t0 = time.time()
        r = run_tlc(pwd, mod, workers=2, timeout=3000 if tier != "quick" else 900, heap="4g")
        return pwd, mod, age, r, t0
    build_harness()
    cfgdesc.keytable()
    with ThreadPoolExecutor(max_workers=2) as ex:      # <= 4 TLC worker threads in total
        explored = list(ex.map(explore, fam))
    for p, (pwd, mod, age, r, t0) in zip(fam, explored):
        if r["rc"] == 124:
            raise ToolError("TLC timed out on %s" % mod)
        if r["error"] and not r["violated"]:
            raise ToolError("TLC error on %s: %s (see %s)" % (mod, r["error"], r["out"]))
        inst = {"name": "c15_" + p["name"], "states": r["distinct"], "generated": r["generated"],
                "tlc_wall_s": round(r["wall_s"], 1)}
        edges = os.path.join(pwd, mod + ".edges.ndjson")
        inst["edges"] = extract_prints(r["out"], "EDGE", edges)
        monerr = os.path.join(pwd, mod + ".monerr.ndjson")
        inst["n_monerr"] = extract_prints(r["out"], "MONERR", monerr)
        panic = os.path.join(pwd, mod + ".panic.ndjson")
        inst["n_panic"] = extract_prints(r["out"], "PANIC", panic)
        rr = replay_reload_edges(p, edges, pwd, age)
        inst["replayed"] = rr["edges"]
        inst["drift"] = rr["mismatches"]
        inst["wall_s"] = round(time.time() - t0, 1)
        res.add_instance(inst)
        if rr["mismatches"]:
            res.notes.append({"drift_samples": rr["samples"][:3], "instance": p["name"]})
        log("[c15] %s: %s states, %s edges, drift %s, monerr %s, %.1fs" %
            (p["name"], r["distinct"], inst["edges"], rr["mismatches"], inst["n_monerr"], inst["wall_s"]))
        settle = p["settle"]
        # model-level counterexamples and drifting edges are judged on the real code
        ws = []
        by_err = {}
        for w in flow.witness_scripts(monerr, 10 ** 9):
            by_err.setdefault(w["err"][:70], []).append(w)
        for k in sorted(by_err):         # the shortest witnesses of every distinct rule, not only of the most frequent one
            ws += by_err[k][:10]
        ws += flow.witness_scripts(panic, 10)
        for i, w in enumerate(ws):
            steps = hist_to_steps(w["h"])
            lane_cases.append(dict(case_of(p, "%s/w%d" % (p["name"], i), steps + tail_steps(p, held_after(steps), settle),
                                           mon_params(p, "inuse", 1020)), pair=p["name"]))
        for i, d in enumerate(rr["samples"][:10]):
            steps = d["h"]
            lane_cases.append(dict(case_of(p, "%s/d%d" % (p["name"], i), steps + tail_steps(p, held_after(steps), settle),
                                           mon_params(p, "inuse", 1020)), pair=p["name"]))
        cs, triples, n_att, n_max = lane_cases_from_edges(p, edges, rng, 60 if tier == "quick" else 400, settle)
        lane_cases += cs
        all_triples += len(triples)
        for t in triples:
            kinds_seen.add(t[1])
        rc = random_cases(p, rng, 25 if tier == "quick" else 150, settle, 14 if tier == "quick" else 40)
        lane_cases += rc
        evaluations += len(cs) + len(rc) + len(ws)
        if len(res.samples) < 4:
            res.samples.append({"pair": p["name"], "old": p["texts"]["O"], "new": p["texts"]["N"], "fault_kinds": p["kinds"],
                                "states": r["distinct"], "edges": inst["edges"], "histories_with_attempt": n_att,
                                "maximal": n_max, "lane_script": cs[0]["script"][:40] if cs else []})
    # scripted retained-state / post-step scenarios (request point = a state the bounded models do not reach)
    sc = scenarios(pairs, tier)
    lane_cases += sc
    evaluations += len(sc)
    record_validate(res, pairs, lane_cases, wd, "c15_lanes")
    res.samples.append({"lane_cases": len(lane_cases), "first": lane_cases[0]["id"] if lane_cases else None})
    res.extra["evaluations"] = evaluations
    res.extra["distinct_nontrivial"] = all_triples
    res.extra["fault_kinds_exercised"] = sorted(kinds_seen)
    return flow.finish(
        res, "fault_enumeration",
        "TLC explores Reload.tla (two instances of the detailed model under one running state, deferred reload, file index "
        "selection) composed with three lanes and the relational monitor P_C15 for every history within the bounds and every "
        "fault kind at every reload attempt; every transition is replayed on the real code through the deterministic loop "
        "stepper; (request state, fault kind, continuation) triples taken from that graph, scripted retained-state scenarios "
        "and random histories are run as lanes A (requests), B (no request), C (fresh instance of the new file) on the real "
        "code and TLC validates the recorded lane triples against P_C15.",
        assumptions=["deterministic loop stepper (1 ms per iteration) through the kanata_verif hooks",
                     "xset is not available (fault kind X: the file parses, the repeat-rate step of do_live_reload fails)",
                     "histories do not record dynamic macros, save clipboard slots or use lrld-file",
                     "MAPPED_KEYS / device-related options are not observable through the stepper; the zippychord global is observed at the OS output in three scripted scenarios only (lanes run one after the other, never two instances alive)"])


def scenario_pairs():
    """Retained-state scenarios: request points that the bounded L1 instances do not reach (fields of the running
    instance that do_live_reload does not touch).  name -> (pair, script builder)."""
    c = cfgdesc.code
    sc = {}

    def add(name, p, script, settle=None):
        if settle is not None:
            p["settle"] = settle
        elif p["settle"] is None:
            p["settle"] = 40
        sc[name] = (p, script)
    r = c("r")
    # last_pressed_key survives the reload: `rpt` in the new configuration repeats a key of the old one
    p = pair("s_rpt", ["a", "b"], R1, {"layers": [("l0", ["a", "b"])]}, {"layers": [("n0", ["rpt", "1"])]})
    add("rpt", p, [["d", c("a")], ["t", 2], ["u", c("a")], ["t", 3], ["w", 0, "N"], ["d", r], ["t", 2], ["u", r], ["t", 50],
                   ["d", c("a")], ["t", 2], ["u", c("a")], ["t", 50]])
    # unmod key held for more than a second after the request: the 1 s fallback fires with an output key down
    p = pair("s_unmod", ["a", "b"], R1, {"layers": [("l0", ["(unmod x)", "b"])]}, {"layers": [("n0", ["1", "2"])]})
    add("unmod", p, [["d", c("a")], ["t", 3], ["w", 0, "N"], ["d", r], ["t", 2], ["u", r], ["t", 1100], ["u", c("a")], ["t", 60],
                     ["d", c("b")], ["t", 2], ["u", c("b")], ["t", 50]])
    # same with a file that does not parse: nothing may change
    add("unmod_fail", pair("s_unmod", ["a", "b"], R1, {"layers": [("l0", ["(unmod x)", "b"])]}, {"layers": [("n0", ["1", "2"])]}),
        [["d", c("a")], ["t", 3], ["w", 0, "S"], ["d", r], ["t", 2], ["u", r], ["t", 1100], ["u", c("a")], ["t", 60],
         ["d", c("b")], ["t", 2], ["u", c("b")], ["t", 50]])
    # a plain key held for more than a second after the request (the documented purpose of the fallback)
    add("held_1s", pair("s_held", ["a", "b"], R1, {"layers": [("l0", ["a", "b"])]}, {"layers": [("n0", ["1", "2"])]}),
        [["d", c("a")], ["t", 3], ["w", 0, "N"], ["d", r], ["t", 2], ["u", r], ["t", 1500], ["u", c("a")], ["t", 60],
         ["d", c("b")], ["t", 2], ["u", c("b")], ["t", 50]])
    # mouse wheel key held at the request: scroll_state is retained, its release is lost with the old layout
    p = pair("s_wheel", ["a", "b"], R1, {"layers": [("l0", ["(mwheel-up 5 120)", "b"])]}, {"layers": [("n0", ["1", "2"])]})
    add("wheel", p, [["d", c("a")], ["t", 7], ["w", 0, "N"], ["d", r], ["t", 2], ["u", r], ["t", 4], ["u", c("a")], ["t", 120],
                     ["d", c("b")], ["t", 2], ["u", c("b")], ["t", 50]])
    # caps-word active at the request: ends by its own timeout, after which kanata must be like a fresh instance
    p = pair("s_caps", ["a", "b"], R1, {"layers": [("l0", ["(caps-word 300)", "b"])]}, {"layers": [("n0", ["a", "b"])]})
    add("capsword", p, [["d", c("a")], ["t", 2], ["u", c("a")], ["t", 3], ["w", 0, "N"], ["d", r], ["t", 2], ["u", r], ["t", 5],
                        ["d", c("b")], ["t", 2], ["u", c("b")], ["t", 400], ["d", c("b")], ["t", 2], ["u", c("b")], ["t", 50]],
        settle=340)
    # mouse speed modifier held at the request
    p = pair("s_speed", ["a", "b"], R1, {"layers": [("l0", ["(movemouse-speed 200)", "b"])]},
             {"layers": [("n0", ["1", "(movemouse-up 3 10)"])]})
    add("mousespeed", p, [["d", c("a")], ["t", 3], ["w", 0, "N"], ["d", r], ["t", 2], ["u", r], ["t", 4], ["u", c("a")], ["t", 60],
                          ["d", c("b")], ["t", 8], ["u", c("b")], ["t", 50]])
    # sequence mode entered before the request; the new configuration has its own leader key and sequences
    p = pair("s_seq", ["a", "b"], R1,
             {"layers": [("l0", ["sldr", "b"])], "extra": "(defvirtualkeys v1 x)\n(defseq v1 (b b))", "defcfg": "sequence-timeout 30"},
             {"layers": [("n0", ["sldr", "b"])], "extra": "(defvirtualkeys w1 y)\n(defseq w1 (b))", "defcfg": "sequence-timeout 20"})
    add("sequence", p, [["d", c("a")], ["t", 2], ["u", c("a")], ["t", 2], ["w", 0, "N"], ["d", r], ["t", 2], ["u", r], ["t", 3],
                        ["d", c("b")], ["t", 2], ["u", c("b")], ["t", 80],
                        ["d", c("a")], ["t", 2], ["u", c("a")], ["t", 2], ["d", c("b")], ["t", 2], ["u", c("b")], ["t", 50]], settle=60)
    # global overrides only in the new configuration
    p = pair("s_ovr", ["a", "b"], R1, {"layers": [("l0", ["a", "lsft"])]},
             {"layers": [("n0", ["a", "lsft"])], "extra": "(defoverrides (lsft a) (x))"})
    add("overrides", p, [["d", c("a")], ["t", 2], ["u", c("a")], ["t", 2], ["w", 0, "N"], ["d", r], ["t", 2], ["u", r], ["t", 40],
                         ["d", c("b")], ["t", 2], ["d", c("a")], ["t", 3], ["u", c("a")], ["t", 2], ["u", c("b")], ["t", 40]])
    # OS key repeat after the reload: handle_repeat consults the per-layer physical-key -> outputs table (key_outputs) of
    # the configuration in force; the new file maps the keys to other outputs on the same layer index ...
    def rtype(ks):
        t = []
        for k_ in ks:
            t += [["d", c(k_)], ["t", 2], ["r", c(k_)], ["t", 1], ["r", c(k_)], ["t", 1]]
        for k_ in reversed(ks):
            t += [["r", c(k_)], ["u", c(k_)], ["t", 2]]
        return t + [["t", 30]]
    p = pair("s_rep", ["a", "b"], R1, {"layers": [("l0", ["a", "b"])]}, {"layers": [("n0", ["x", "S-y"])]})
    add("repeat_changed_outputs", p, rtype(["a"]) + [["w", 0, "N"], ["d", r], ["t", 2], ["u", r], ["t", 30]]
        + rtype(["a"]) + rtype(["b"]) + rtype(["a", "b"]))
    # ... and has more layers than the old one, with a layer beyond the old count held / switched to under the repeat
    p = pair("s_rep_layers", ["a", "b", "c"], R1, {"layers": [("l0", ["a", "b", "c"])]},
             {"layers": [("n0", ["1", "(layer-while-held n2)", "(layer-switch n1)"]), ("n1", ["2", "_", "(layer-switch n0)"]),
                         ("n2", ["3", "_", "_"])]})
    add("repeat_more_layers", p, [["w", 0, "N"], ["d", r], ["t", 2], ["u", r], ["t", 30]] + rtype(["a"]) + rtype(["b", "a"])
        + rtype(["c"]) + rtype(["a"]) + rtype(["b", "a"]))
    # the reverse: fewer layers / same outputs (an unchanged table must keep working), and a failed reload keeps the old table
    p = pair("s_rep_back", ["a", "b", "c"], R1,
             {"layers": [("l0", ["1", "(layer-while-held l1)", "c"]), ("l1", ["3", "_", "_"])]}, {"layers": [("n0", ["a", "b", "c"])]})
    add("repeat_fewer_layers", p, rtype(["b", "a"]) + [["w", 0, "N"], ["d", r], ["t", 2], ["u", r], ["t", 30]] + rtype(["a"]) + rtype(["b", "a"]))
    add("repeat_after_failed_reload", pair("s_rep_back", ["a", "b", "c"], R1,
                                           {"layers": [("l0", ["1", "(layer-while-held l1)", "c"]), ("l1", ["3", "_", "_"])]},
                                           {"layers": [("n0", ["a", "b", "c"])]}),
        [["w", 0, "S"], ["d", r], ["t", 2], ["u", r], ["t", 30]] + rtype(["a"]) + rtype(["b", "a"]))
    # zippychord: its chords and detection state are a process-wide global outside the Kanata fields; reload must
    # reconfigure it from the new file also when that file has no defzippy (then: no chords at all)
    zopt = " on-first-press-chord-deadline 40 idle-reactivate-time 40"
    zaux = {"dict1": "ab\tout\n", "dict2": "ab\tin\nbc\tup\n"}
    plain = {"layers": [("n0", ["a", "b", "c"])]}

    def zcfg(name, d):
        return {"layers": [(name, ["a", "b", "c"])], "extra": "(defzippy %s%s)" % (d, zopt)}

    def zchord(ks):
        t = []
        for k_ in ks:
            t += [["d", c(k_)], ["t", 1]]
        for k_ in ks:
            t += [["u", c(k_)], ["t", 1]]
        return t + [["t", 90]]

    def ztype():      # the chord a+b, then b+c, then c alone
        return zchord(["a", "b"]) + zchord(["b", "c"]) + zchord(["c"])
    for zname, o_, n_ in (("zippy_to_none", zcfg("l0", "dict1"), plain), ("none_to_zippy", {"layers": [("l0", ["a", "b", "c"])]}, zcfg("n0", "dict1")),
                          ("zippy_to_other_zippy", zcfg("l0", "dict1"), zcfg("n0", "dict2"))):
        p = pair("s_" + zname, ["a", "b", "c"], R1, o_, n_, aux=zaux)
        # the chord is typed under the old file, then the reload, then the same typing under the new file
        add(zname, p, zchord(["a", "b"]) + [["w", 0, "N"], ["d", r], ["t", 2], ["u", r], ["t", 90]] + ztype(), settle=120)
    # a failed lrld-next, then lrld-next again (F3: relative to the file in use)
    p = pair("s_idx", ["a"], R4, {"layers": [("l0", ["a"])]}, {"layers": [("n0", ["1"])]}, nfiles=3, start=["O", "S", "N"])
    n_ = c("n")
    add("failed_next_then_next", p, [["d", n_], ["t", 2], ["u", n_], ["t", 10], ["d", n_], ["t", 2], ["u", n_], ["t", 40],
                                     ["d", c("a")], ["t", 2], ["u", c("a")], ["t", 40]])
    # every request kind over three valid files: next next next prev prev prev num(3) lrld
    p = pair("s_cyc", ["a"], R4, {"layers": [("l0", ["a"])]}, {"layers": [("n0", ["1"])]}, nfiles=3, start=["O", "N", "O"])
    cyc = []
    for key in ["n", "n", "n", "p", "p", "p", "m", "r", "p", "n"]:
        cyc += [["d", c(key)], ["t", 2], ["u", c(key)], ["t", 6], ["d", c("a")], ["t", 2], ["u", c("a")], ["t", 4]]
    add("cycle3", p, cyc + [["t", 30]])
    # the same with the short spellings lrnx / lrpv, and from the other end (prev first: wrap-around 0 -> 2)
    p = pair("s_cycs", ["a"], R4S, {"layers": [("l0", ["a"])]}, {"layers": [("n0", ["1"])]}, nfiles=3, start=["O", "N", "O"])
    add("cycle3_short", p, cyc + [["t", 30]])
    cyc2 = []
    for key in ["p", "p", "n", "n", "n", "m", "p", "r"]:
        cyc2 += [["d", c(key)], ["t", 2], ["u", c(key)], ["t", 6], ["d", c("a")], ["t", 2], ["u", c("a")], ["t", 4]]
    add("cycle3_short_prev_first", pair("s_cycs", ["a"], R4S, {"layers": [("l0", ["a"])]}, {"layers": [("n0", ["1"])]},
                                        nfiles=3, start=["O", "N", "O"]), cyc2 + [["t", 30]])
    add("cycle3_prev_first", pair("s_cyc", ["a"], R4, {"layers": [("l0", ["a"])]}, {"layers": [("n0", ["1"])]},
                                  nfiles=3, start=["O", "N", "O"]), cyc2 + [["t", 30]])
    # a request that fails, the file is repaired later, no new request: nothing may be loaded
    p = pair("s_fix", ["a", "b"], R1, {"layers": [("l0", ["a", "b"])]}, {"layers": [("n0", ["1", "2"])]})
    add("repaired_later", p, [["w", 0, "S"], ["d", r], ["t", 2], ["u", r], ["t", 10], ["w", 0, "N"], ["t", 1200],
                              ["d", c("a")], ["t", 2], ["u", c("a")], ["t", 30]])
    # requests repeated back-to-back: fail, fail, succeed, succeed
    add("back_to_back", pair("s_b2b", ["a", "b"], R1, {"layers": [("l0", ["a", "b"])]}, {"layers": [("n0", ["1", "2"])]}),
        [["w", 0, "S"], ["d", r], ["t", 1], ["u", r], ["t", 1], ["w", 0, "R"], ["d", r], ["t", 1], ["u", r], ["t", 1],
         ["w", 0, "N"], ["d", r], ["t", 1], ["u", r], ["t", 1], ["w", 0, "O"], ["d", r], ["t", 1], ["u", r], ["t", 30],
         ["d", c("a")], ["t", 2], ["u", c("a")], ["t", 30]])
    return sc


def scenarios(pairs, tier):
    cases = []
    for name, (p, script) in scenario_pairs().items():
        cases.append(dict(case_of(p, "scn/" + name, script, mon_params(p, "inuse", 1020)), pair="scenario " + name))
    return cases
