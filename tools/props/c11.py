"""C11 - key identity: every key name and code survives the trip from config to OS output.

Part T (tables, exhaustive): the discriminant sets of KeyCode / OsCode are parsed from the source text of the
  working tree, from_u16 / as_u16 / the From conversions are called for all 65536 u16 values, every key name
  found in the source of str_to_oscode is resolved by the real function and observed in every configuration
  position through the real parser; TLC checks spec/KeyTables.tla over these generated constants.
  Names under deflocalkeys: every name (all built-in names redefined one at a time, the deflocalkeys-linux blocks of
  docs/locales.adoc, random blocks mixing redefined built-in names / the overridable default names / new names, with
  swaps and shared targets) is observed through the real parser in every position that takes a key name (defsrc, layer
  action, fork / switch key / key-history / input / macro / unmod / release-key / caps-word / one-shot / modifier
  prefix, deflayermap input, all-except, defoverrides input and output, defseq, defchordsv2), the configurations parsed
  in one process in shuffled order; KeyTables.T_LkPositions: the code is a function of (name, block) only.
Part I (identity pipeline): one press/release of every code through the real stepper under configurations that
  leave keys to themselves; traces validated by TLC against the P_C11 monitor.
Part P (output paths): one configuration per output path with a no-op key as the key that path emits (macro items,
  multi / modifier prefix, tap-hold, one-shot, tap-dance, fork / switch, chords v1 / v2, override outputs, sequences in
  the three input modes (completed, cancelled, timed out; leader forms; always-on), dynamic macro replay, virtual keys
  (incl. operated from outside), rpt, unmod / unshift, layers / release-key, caps-word, nop codes as physical input,
  zippychord output mapping): all tap words of length <= 3 over the keys, holds, overlaps and random histories are
  recorded from the real code and judged by TLC against P_C11 in paths mode (I2 only); the small members are explored
  exhaustively with L1 || P_C11 (mc.check_instance, every transition replayed on the code).
Part R (intercept set across live reloads): harness/src/mapkeys.rs starts kanata from one random content and runs
  words of file contents (valid, valid but failing in a late reload step, not parsing, refused, missing), each followed
  by a reload request; MAPPED_KEYS is read after every step and P_C11.ReloadBad (TLC) compares it with
  P_C11.Intercept of the configuration in force.
Part S (intercept set): random defsrc / deflayermap / process-unmapped-keys lists; Cfg.mapped_keys of the real
  parser is compared by TLC with P_C11.Intercept computed from the text-level description.
"""
import re, threading, itertools, subprocess
from props.common import *
from props.c13 import par_validate, tlc_ok


# ------------------------------------------------------------------ source text
def parse_enum(path, name):
    s = open(os.path.join(REPO, path), encoding="utf-8").read()
    a = s.index("pub enum %s {" % name)
    b = s.index("\n}", a)
    out, prev = [], -1
    for line in s[a:b].splitlines()[1:]:
        line = line.split("//")[0].strip()
        if not line or line.startswith("#"):
            continue
        m = re.match(r"^(\w+)\s*(?:=\s*(0x[0-9a-fA-F]+|\d+))?\s*,?$", line)
        if not m:
            raise ToolError("cannot parse enum line in %s: %r" % (path, line))
        v = int(m.group(2), 0) if m.group(2) else prev + 1
        out.append({"n": m.group(1), "v": v})
        prev = v
    return out


def candidate_names():
    """every string literal in the default mapping table and the match arms of str_to_oscode"""
    s = open(os.path.join(REPO, "parser/src/keys/mod.rs"), encoding="utf-8").read()
    a = s.index("fn add_default_str_osc_mappings")
    b = s.index("pub enum OsCode")
    names = []
    for l in re.findall(r'"((?:[^"\\]|\\.)*)"', s[a:b]):
        n = l.replace("\\\\", "\\").replace('\\"', '"')
        if n not in names:
            names.append(n)
    return names


def quote(n):
    if re.fullmatch(r'[^\s()"]+', n) and not n.startswith(";;") and not n.startswith("#|"):
        return n
    if '"' in n:
        return None
    return '"%s"' % n


def harness_json(cmd, inp, wd, name):
    build_harness()
    fi, fo = os.path.join(wd, name + ".in.json"), os.path.join(wd, name + ".out.json")
    json.dump(inp, open(fi, "w"))
    p = sh([HARNESS, cmd, fi, fo], check=False, timeout=900)
    if p.returncode != 0:
        raise ToolError("%s failed: %s" % (cmd, (p.stdout or "")[-2000:]))
    return json.load(open(fo))


# ------------------------------------------------------------------ part T
def gather_tables(wd):
    kc = parse_enum("keyberon/src/key_code.rs", "KeyCode")
    osc = parse_enum("parser/src/keys/mod.rs", "OsCode")
    t = harness_json("c11-tables", candidate_names(), wd, "tables")
    names = t["names"]
    # the code each name denotes in every position, through the real parser
    jobs = [{"tag": ["pu", "", 0], "cfg": "(defcfg process-unmapped-keys yes)\n(defsrc)\n(deflayer l0)\n", "probe": []}]
    ovr_lines = []
    mods = set(t["modifiers"])
    A, B = 30, 48
    fromset = {c for c, _ in t["from"]}
    for e in names:
        n, c = e["n"], e["c"]
        qn = quote(n)
        if qn is None:
            continue
        if c not in fromset:
            # a name whose code from_u16 does not know: reported by KeyTables.T_NamesInDomain; the harness cannot
            # convert the code, so it is not observed in positions
            continue
        jobs.append({"tag": ["src", n, c], "cfg": "(defsrc %s)\n(deflayer l0 %s)\n" % (qn, qn), "probe": [c]})
        jobs.append({"tag": ["lmap", n, c], "cfg": "(defsrc)\n(deflayermap (l0) %s %s)\n" % (qn, "b" if c != B else "a"),
                     "probe": [c]})
        jobs.append({"tag": ["exc", n, c], "cfg": "(defcfg process-unmapped-keys (all-except %s))\n(defsrc)\n(deflayer l0)\n" % qn,
                     "probe": []})
        out = "b" if c != B else "a"
        outc = B if c != B else A
        if c in mods:
            ovr_lines.append({"ovs": [], "tag": [n, c, outc], "lists": [[c, A]],
                              "cfg": "(defsrc a)\n(deflayer l0 a)\n(defoverrides (%s a) (b))\n" % qn})
        else:
            ovr_lines.append({"ovs": [], "tag": [n, c, outc], "lists": [[c]],
                              "cfg": "(defsrc a)\n(deflayer l0 a)\n(defoverrides (%s) (%s))\n" % (qn, out)})
    pr = harness_json("c11-parse", jobs, wd, "namepos")
    pos = {e["n"]: {"n": e["n"], "c": e["c"], "src": -1, "act": -1, "lmap": -1, "exc": -1, "ovr": -1} for e in names}
    pu_all = None
    nfail = 0
    for x in pr:
        kind, n, c = x["tag"]
        if not x["ok"]:
            nfail += 1
            continue
        if kind == "pu":
            pu_all = set(x["mapped"])
        elif kind in ("src", "lmap"):
            pos[n][kind] = x["mapped"][0] if len(x["mapped"]) == 1 else -2
            if kind == "src":
                a = x["l0"][str(c)]
                a = x["acts"][a - 1] if isinstance(a, int) else a          # action ids are 1-based
                # mlft, mwu, ... written as an action are the documented mouse actions (action keywords): not applicable
                pos[n]["act"] = a["kc"] if a.get("t") == "key" else (-1 if a.get("t") == "custom" else -2)
        elif kind == "exc":
            gone = sorted(pu_all - set(x["mapped"]))
            pos[n]["exc"] = gone[0] if len(gone) == 1 else (-1 if c not in pu_all and not gone else -2)
    # defoverrides position, observed through the real override function
    inp = os.path.join(wd, "nameovr.in.ndjson")
    with open(inp, "w") as f:
        for ln in ovr_lines:
            f.write(json.dumps(ln) + "\n")
    outp = os.path.join(wd, "nameovr.out.ndjson")
    p = sh([HARNESS, "ovr-eval", inp, outp], check=False, timeout=600)
    ovr_failed = ""
    if p.returncode != 0:
        # data, not a tool error: the defoverrides position stays unobserved, the table check goes on
        ovr_failed = (p.stdout or "")[-300:]
        open(outp, "w").close()
    for line in open(outp):
        d = json.loads(line)
        n, c, outc = d["tag"]
        if "err" in d:
            nfail += 1
            continue
        pos[n]["ovr"] = c if d["real"] == [[outc]] else -2
    return {"kc": kc, "osc": osc, "t": t, "pos": list(pos.values()), "pu_all": sorted(pu_all), "parse_failures": nfail,
            "ovr_failed": ovr_failed}


# ------------------------------------------------------------------ part T, names under deflocalkeys
# Every configuration position that takes a key name, observed through the real parser with and without a
# deflocalkeys-linux block: KeyTables.T_LkPositions requires the code to be a function of (name, deflocalkeys) only.
LAYER_POS = [("act", "%s"), ("fork", "(fork XX XX (%s))"),
             ("swk", "(switch (%s) XX break)"), ("swh", "(switch ((key-history %s 1)) XX break)"),
             ("swi", "(switch ((input real %s)) XX break)"), ("mac", "(macro %s)"), ("unmod", "(unmod %s)"),
             ("relk", "(release-key %s)"), ("capsw", "(caps-word-custom 2000 (%s) (%s))"), ("osh", "(one-shot 5 %s)"),
             ("modpfx", "A-%s")]
POSITIONS = ["src"] + [p for p, _ in LAYER_POS] + ["lmap", "exc", "ovri", "ovro", "seq", "chv2"]
NEW_NAMES = ["ì", "lkey90", "ü", "ñ", "<>", "k252", "ç", "hash", "º", "ß", "æ", "my_key", "²", "ö", "ğ", "´", "§", "å", "*", "~"]
REJ = -3          # the parser rejected a configuration the documentation allows
MISMATCH = -2     # the position holds something else than one key
NA = -1           # not applicable / the atom is an action keyword there (mlft, mwu, ...: documented mouse actions)


def lk_text(lk):
    if not lk:
        return ""
    return "(deflocalkeys-linux %s)\n" % " ".join("%s %d" % (quote(n), c) for n, c in lk)


def documented_blocks():
    """the deflocalkeys-linux blocks of docs/locales.adoc of the working tree"""
    p = os.path.join(REPO, "docs", "locales.adoc")
    if not os.path.exists(p):
        return []
    s = open(p, encoding="utf-8").read()
    out = []
    for m in re.finditer(r"\(deflocalkeys-linux\b([^()]*)\)", s):
        toks = []
        for line in m.group(1).splitlines():
            toks += line.split(";;")[0].split()
        if len(toks) % 2 == 0 and toks and all(t.isdigit() for t in toks[1::2]):
            lk = [(toks[i], int(toks[i + 1])) for i in range(0, len(toks), 2)]
            if all(quote(n) == n for n, _ in lk) and lk not in out:
                out.append(lk)
    return out


def lk_families(tier, rng, g):
    """[(family, lk, [names to observe])]: lk = the deflocalkeys-linux block as [(name, code)]"""
    t = g["t"]
    builtin = {e["n"]: e["c"] for e in t["names"] if quote(e["n"])}
    by_code = {}
    for n, c in builtin.items():
        by_code.setdefault(c, []).append(n)
    mods = set(t["modifiers"])
    osc_by_name = {e["n"]: e["v"] for e in g["osc"]}
    pseudo = {osc_by_name[n] for n in ("KEY_RESERVED", "KEY_UNKNOWN", "KEY_MAX") if n in osc_by_name}
    mouse = {builtin[n] for n, _ in BTN + WHEEL if n in builtin}
    # target codes: ordinary keys that have a layout column (named or not)
    pool = [c for c, _ in t["from"] if c < t["keys_in_row"] and c not in pseudo and c not in mods and c not in mouse
            and c not in (30, 48, 251) and (c in by_code or 84 <= c <= 255)]     # 251 = the O-(..) marker of defseq
    overridable = [n for n in ("+", "[", "]", "{", "}", "/", ";", "`", "=", "-", "'", ",", ".", "\\", "yen", "¥", "right", "grave")
                   if n in builtin]
    new = [n for n in NEW_NAMES if n not in builtin]
    fams = [("base", [], sorted(builtin))]
    # F1: every accepted name redefined on its own
    for n in sorted(builtin):
        c2 = rng.choice([c for c in pool if c != builtin[n]])
        fams.append(("single", [(n, c2)], [n]))
    # F1b: a new name on its own, mapped onto a code that has built-in names and onto one that has none
    for n in new:
        fams.append(("new", [(n, rng.choice(pool))], [n]))

    def bystanders(lk, k):
        names = {n for n, _ in lk}
        out = []
        for n, c in lk:                     # other spellings of a redefined key keep their meaning
            if n in builtin:
                out += [a for a in by_code[builtin[n]] if a not in names][:2]
            out += [a for a in by_code.get(c, []) if a not in names][:1]     # the old names of the target code too
        rest = [n for n in builtin if n not in names]
        out += rng.sample(rest, k)
        return [n for i, n in enumerate(out) if n not in out[:i]]
    # F2: the documented blocks
    for lk in documented_blocks():
        lk = [(n, c) for n, c in lk if c in set(x for x, _ in t["from"]) and c < t["keys_in_row"]]
        if lk:
            fams.append(("documented", lk, [n for n, _ in lk] + bystanders(lk, 4)))
    # F3: random blocks mixing the three classes of names; swaps and shared targets allowed
    letters = [n for n in builtin if len(n) == 1 and n.isascii()]
    for i in range(30 if tier == "quick" else 400):
        k = rng.choice([2, 2, 3, 5, 8, 12])
        names = []
        for _ in range(k):
            cls = rng.choice(["builtin", "builtin", "letter", "overridable", "new"])
            cand = {"builtin": sorted(builtin), "letter": letters, "overridable": overridable, "new": new}[cls]
            n = rng.choice(cand)
            if n not in names:
                names.append(n)
        lk = []
        for n in names:
            mode = rng.choice(["pool", "pool", "swap", "same"])
            if mode == "swap":               # the built-in code of another redefined name (z 21 y 44)
                src = [builtin[m] for m in names if m in builtin and m != n and builtin[m] in pool]
                c2 = rng.choice(src) if src else rng.choice(pool)
            elif mode == "same" and lk:
                c2 = lk[-1][1]
            else:
                c2 = rng.choice(pool)
            lk.append((n, c2))
        fams.append(("random", lk, names[:6] + bystanders(lk[:3], 2)))
    return fams


def pick_other(lk, exp, builtin):
    """a plain key name for the neighbouring slot: not redefined, a code different from exp and from the block's targets"""
    taken = {c for _, c in lk} | {exp}
    names = {n for n, _ in lk}
    for n in ("b", "a", "c", "d", "e", "f", "g", "h", "i", "j", "k", "l", "m"):
        if n not in names and builtin.get(n) not in taken and n in builtin:
            return n, builtin[n]
    raise ToolError("no neighbour key for %r" % (lk,))


def position_jobs(fams, g):
    t = g["t"]
    builtin = {e["n"]: e["c"] for e in t["names"]}
    mods = set(t["modifiers"])
    jobs, rows = [], []
    jobs.append({"tag": ["pu", -1], "cfg": "(defcfg process-unmapped-keys yes)\n(defsrc)\n(deflayer l0)\n", "probe": []})
    for fam, lk, names in fams:
        L = lk_text(lk)
        d = dict(lk)
        for n in names:
            qn = quote(n)
            if qn is None:
                continue
            exp = d[n] if n in d else builtin.get(n)
            if exp is None:
                continue
            o, oc = pick_other(lk, exp, builtin)
            ri = len(rows)
            rows.append({"n": n, "fam": fam, "lk": [{"n": a, "c": c} for a, c in lk], "exp": exp, "o": oc, "oname": o,
                         "obs": {p: NA for p in POSITIONS}, "cfgs": {}})
            layers = []
            for p, tmpl in LAYER_POS:
                if p == "modpfx" and qn != n:
                    continue
                layers.append((p, tmpl % ((qn, o) if p == "capsw" else qn)))
            lay = L + "(defsrc %s)\n" % qn + "".join("(deflayer l%d %s)\n" % (i, a) for i, (_, a) in enumerate(layers))
            jobs.append({"tag": ["lay", ri, [p for p, _ in layers]], "cfg": lay, "probe": [], "full": True})
            jobs.append({"tag": ["lmap", ri], "cfg": L + "(defsrc)\n(deflayermap (l0) %s %s)\n" % (qn, o), "probe": [], "full": True})
            jobs.append({"tag": ["exc", ri], "cfg": L + "(defcfg process-unmapped-keys (all-except %s))\n(defsrc)\n(deflayer l0)\n" % qn,
                         "probe": []})
            pair = (qn + " " + o) if exp in mods else qn          # defoverrides lists need exactly one non-modifier key
            jobs.append({"tag": ["ovr", ri], "cfg": L + "(defsrc %s %s)\n(deflayer l0 %s %s)\n(defoverrides (%s) (%s) (%s) (%s))\n" %
                         (qn, o, qn, o, pair, o, o, pair), "probe": [], "full": True})
            jobs.append({"tag": ["seq", ri], "cfg": L + "(defsrc %s %s)\n(deflayer l0 %s %s)\n(defvirtualkeys v1 XX)\n(defseq v1 (%s))\n" %
                         (qn, o, qn, o, qn), "probe": [], "full": True})
            jobs.append({"tag": ["chv2", ri], "cfg": L + "(defcfg concurrent-tap-hold yes)\n(defsrc %s %s)\n(deflayer l0 %s %s)\n"
                         "(defchordsv2 (%s %s) XX 50 all-released ())\n" % (qn, o, qn, o, qn, o), "probe": [], "full": True})
            for j in jobs[-6:]:
                rows[ri]["cfgs"][j["tag"][0]] = j["cfg"]
    return jobs, rows


def act_code(x, aid, pos, oc):
    """the key code a parsed action holds in the place where the name was written (dump format of harness/src/dump.rs)"""
    a = x["acts"][aid - 1]
    t = a.get("t")
    if pos == "act":
        return a["kc"] if t == "key" else (NA if t == "custom" else MISMATCH)
    if pos == "fork":
        return a["trig"][0] if t == "fork" and len(a["trig"]) == 1 else MISMATCH
    if pos in ("swk", "swh", "swi"):
        if t != "switch" or len(a["cases"]) != 1:
            return MISMATCH
        ops = a["cases"][0]["ops"]
        if pos == "swk":
            return ops[0] if len(ops) == 1 and ops[0] < 0x1000 else MISMATCH
        if pos == "swh":
            return ops[0] & 0x0FFF if len(ops) == 1 and ops[0] >= 0x8000 else MISMATCH
        return ops[1] & 0x03FF if len(ops) == 2 and ops[0] == 851 else MISMATCH
    if pos == "mac":
        if t not in ("seq", "rseq"):
            return MISMATCH
        evs = [e for e in a["evs"] if e["e"] in ("press", "release", "tap", "delay")]
        if evs and evs[0]["e"] == "delay":
            return NA                       # a number is a delay inside a macro
        if not evs and any(e["e"] == "custom" for e in a["evs"]):
            return NA                       # an action keyword (mouse actions)
        ks = {e["kc"] for e in evs}
        return ks.pop() if len(ks) == 1 else MISMATCH
    if pos == "unmod":
        cu = a.get("cu", [{}])
        return cu[0]["keys"][0] if t == "custom" and cu[0].get("c") == "unmod" and len(cu[0]["keys"]) == 1 else MISMATCH
    if pos == "relk":
        return a["kc"] if t == "relkey" else MISMATCH
    if pos == "capsw":
        cu = a.get("cu", [{}])
        return cu[0]["cap"][0] if t == "custom" and cu[0].get("c") == "capsword" and len(cu[0]["cap"]) == 1 else MISMATCH
    if pos == "osh":
        if t != "oneshot":
            return MISMATCH
        b = x["acts"][a["ac"] - 1]
        return b["kc"] if b.get("t") == "key" else (NA if b.get("t") == "custom" else MISMATCH)
    if pos == "modpfx":
        return a["kcs"][1] if t == "mkeys" and len(a["kcs"]) == 2 and a["kcs"][0] == 56 else MISMATCH
    return MISMATCH


def gather_lk_rows(wd, g, tier, rng, fams=None):
    fams = fams or lk_families(tier, rng, g)
    jobs, rows = position_jobs(fams, g)
    # interleave the blocks: the meaning of a name in one configuration must not depend on the configurations
    # parsed before it (the custom name table is process-global state)
    order = list(range(1, len(jobs)))
    rng.shuffle(order)
    jobs = [jobs[0]] + [jobs[i] for i in order]
    nsh = 6
    parts = [jobs[:1] + jobs[1:][i::nsh] for i in range(nsh)]
    results = [None] * nsh
    exc = []

    def work(i):
        try:
            results[i] = harness_json("c11-parse", parts[i], wd, "lkpos%d" % i)
        except Exception as e:      # re-raised below
            exc.append(e)
    th = [threading.Thread(target=work, args=(i,)) for i in range(nsh)]
    for x in th:
        x.start()
    for x in th:
        x.join()
    if exc:
        raise exc[0]
    pu_all = None
    for part in results:
        for x in part:
            if x["tag"][0] == "pu":
                pu_all = set(x["mapped"])
    nrej = [0]
    retry = []

    def take(x):
        kind, ri = x["tag"][0], x["tag"][1]
        if kind == "pu":
            return
        row = rows[ri]
        obs, oc = row["obs"], row["o"]
        if not x["ok"]:
            nrej[0] += 1
            if kind == "lay" and len(x["tag"][2]) > 1:
                # one position at a time, to see which of them the parser does not accept
                qn = quote(row["n"])
                for p in x["tag"][2]:
                    tmpl = dict(LAYER_POS)[p]
                    retry.append({"tag": ["lay", ri, [p]], "probe": [], "full": True,
                                  "cfg": lk_text([(e["n"], e["c"]) for e in row["lk"]]) + "(defsrc %s)\n(deflayer l0 %s)\n" %
                                  (qn, tmpl % ((qn, row["oname"]) if p == "capsw" else qn))})
                return
            row.setdefault("rejected", {})[kind if kind != "lay" else x["tag"][2][0]] = x["err"][:200]
            for p in (x["tag"][2] if kind == "lay" else ["ovri", "ovro"] if kind == "ovr" else [kind]):
                obs[p] = REJ
            return
        m = x["mapped"]
        if kind == "lay":
            obs["src"] = m[0] if len(m) == 1 else MISMATCH
            for i, p in enumerate(x["tag"][2]):
                aid = x["layers"][i].get(str(m[0])) if len(m) == 1 else None
                obs[p] = act_code(x, aid, p, oc) if aid else MISMATCH
        elif kind == "lmap":
            obs["lmap"] = m[0] if len(m) == 1 else MISMATCH
        elif kind == "exc":
            gone = sorted(pu_all - set(m))
            obs["exc"] = gone[0] if len(gone) == 1 else MISMATCH
        elif kind == "ovr":
            ov = x["ovr"]
            a = [e for e in ov if e["okc"] == oc and e["om"] == []]
            b = [e for e in ov if e["ik"] == oc and e["im"] == []]
            if len(ov) == 2 and len(a) == 1 and len(b) == 1:
                obs["ovri"] = a[0]["im"][0] if len(a[0]["im"]) == 1 and a[0]["ik"] == oc else (a[0]["ik"] if not a[0]["im"] else MISMATCH)
                obs["ovro"] = b[0]["om"][0] if len(b[0]["om"]) == 1 and b[0]["okc"] == oc else (b[0]["okc"] if not b[0]["om"] else MISMATCH)
            else:
                obs["ovri"] = obs["ovro"] = MISMATCH
        elif kind == "seq":
            ks = x["seq"] if isinstance(x["seq"], list) else []
            obs["seq"] = ks[0]["k"][0] % 1024 if len(ks) == 1 and len(ks[0]["k"]) == 1 else MISMATCH
        elif kind == "chv2":
            ch = x["chv2"]
            rest = [k for k in ch[0]["ks"] if k != oc] if len(ch) == 1 else []
            obs["chv2"] = rest[0] if len(rest) == 1 and len(ch[0]["ks"]) == 2 else MISMATCH
    for part in results:
        for x in part:
            take(x)
    if retry:
        for x in harness_json("c11-parse", retry, wd, "lkpos_retry"):
            take(x)
    # a position the parser does not accept for this name without any deflocalkeys either is a matter of syntax there
    # (a digit is a delay inside a macro, ...): not applicable.  In defseq a modifier key is a prefix, not a key.
    mods = set(g["t"]["modifiers"])
    base = {r["n"]: r for r in rows if r["fam"] == "base"}
    nsyntax = 0
    for r in rows:
        b = base.get(r["n"])
        for p in POSITIONS:
            if r["obs"][p] == REJ and (r is b or (b and b["obs"][p] in (REJ, NA) and b.get("syntax", {}).get(p))):
                r.setdefault("syntax", {})[p] = True
        if r["exp"] in mods:
            r["obs"]["seq"] = NA
    for r in rows:
        for p in r.get("syntax", {}):
            r["obs"][p] = NA
            nsyntax += 1
        for p, v in r["obs"].items():
            if not isinstance(v, int) or isinstance(v, bool):
                r["obs"][p] = MISMATCH      # e.g. an OsCode the dump could not turn back into a number
    return rows, {"blocks": len(fams), "configs_parsed": len(jobs), "rejected_configs": nrej[0], "positions_not_applicable_by_syntax": nsyntax,
                  "by_family": {f: sum(1 for r in rows if r["fam"] == f) for f in sorted({r["fam"] for r in rows})}}


MC_T = r"""---- MODULE MC_C11T ----
EXTENDS KeyTables
KcEnumDef == %(kc)s
OscEnumDef == %(osc)s
FromFnDef == %(fromfn)s
NoneCountDef == %(none)d
ConvFnDef == %(conv)s
NamesDef == %(names)s
NamePosDef == %(pos)s
LkRowsDef == %(lkrows)s
====
"""
CFG_T = """CONSTANT KcEnum <- KcEnumDef
CONSTANT OscEnum <- OscEnumDef
CONSTANT FromFn <- FromFnDef
CONSTANT NoneCount <- NoneCountDef
CONSTANT ConvFn <- ConvFnDef
CONSTANT Names <- NamesDef
CONSTANT NamePos <- NamePosDef
CONSTANT LkRows <- LkRowsDef
INIT TInit
NEXT TNext
INVARIANT GlobalProbe
INVARIANT CodeProbe
CHECK_DEADLOCK FALSE
"""


def check_tables(wd, g, lkrows=()):
    t = g["t"]
    conv = {str(r["c"]): {k: r[k] for k in r if k != "c"} for r in t["conv"]}
    lk = [{"i": i + 1, "n": r["n"], "lk": r["lk"], "obs": [{"p": p, "v": r["obs"][p]} for p in POSITIONS]}
          for i, r in enumerate(lkrows)]
    text = MC_T % dict(kc=tla_val(g["kc"]), osc=tla_val(g["osc"]),
                       fromfn=tla_val({str(c): v for c, v in t["from"]}, "intmap"), none=t["none_count"],
                       conv=tla_val(conv, "intmap"), names=tla_val(t["names"]), pos=tla_val(g["pos"]),
                       lkrows=tla_val(lk) if lk else "<<>>")
    open(os.path.join(wd, "MC_C11T.tla"), "w", encoding="utf-8").write(text)
    open(os.path.join(wd, "MC_C11T.cfg"), "w").write(CFG_T)
    r = run_tlc(wd, "MC_C11T", workers=2, timeout=900, heap="4g")
    tlc_ok(r, "MC_C11T")
    terr, tnote = os.path.join(wd, "c11t.terr.ndjson"), os.path.join(wd, "c11t.tnote.ndjson")
    extract_prints(r["out"], "TERR", terr)
    extract_prints(r["out"], "TNOTE", tnote)
    errs = [json.loads(x) for x in open(terr) if x.strip()]
    notes = [json.loads(x) for x in open(tnote) if x.strip()]
    return r, errs, (notes[0] if notes else {})


# ------------------------------------------------------------------ part I
BTN = [("mlft", "Left"), ("mrgt", "Right"), ("mmid", "Mid"), ("mbck", "Backward"), ("mfwd", "Forward")]
WHEEL = [("mwu", "Up,120"), ("mwd", "Down,120"), ("mwl", "Left,120"), ("mwr", "Right,120")]


def identity_jobs(tier, rng, g):
    t = g["t"]
    code_of = {e["n"]: e["c"] for e in t["names"]}
    osc_by_name = {e["n"]: e["v"] for e in g["osc"]}
    pseudo = [osc_by_name[n] for n in ("KEY_RESERVED", "KEY_UNKNOWN", "KEY_MAX") if n in osc_by_name]
    params = {"btn": [{"c": code_of[n], "b": b} for n, b in BTN], "wheel": [{"c": code_of[n], "s": s} for n, s in WHEEL],
              "pseudo": pseudo}
    keys_in_row = t["keys_in_row"]
    dom = [c for c, _ in t["from"] if c < keys_in_row]          # codes that have a column in the layout
    # one plain name per named code
    by_code = {}
    fromset = {c for c, _ in t["from"]}
    for e in t["names"]:
        qn = quote(e["n"])
        if e["c"] not in fromset:
            continue                # reported by the table part (T_NamesInDomain); the stepper cannot inject the code
        if qn and (e["c"] not in by_code or (len(qn) < len(by_code[e["c"]]) and qn.isascii())):
            by_code[e["c"]] = qn
    named = sorted(by_code)
    src = " ".join(by_code[c] for c in named)

    def press(c):
        # with two OS auto-repeat events while the key is held (the no-op codes must stay silent on this path too)
        return [["d", c], ["t", 2], ["r", c], ["r", c], ["t", 1], ["u", c], ["t", 2]]
    V = [("unmapped", "(defcfg process-unmapped-keys yes)\n(defsrc)\n(deflayer l0)\n", dom),
         ("self", "(defcfg process-unmapped-keys yes)\n(defsrc %s)\n(deflayer l0 %s)\n" % (src, src), dom),
         ("trans", "(defsrc %s)\n(deflayer l0 %s)\n" % (src, " ".join("_" for _ in named)), named),
         ("lmap", "(defsrc)\n(deflayermap (l0) %s)\n" % " ".join("%s %s" % (by_code[c], by_code[c]) for c in named), named)]
    if tier == "thorough":
        V.append(("two_layers", "(defcfg process-unmapped-keys yes)\n(defsrc %s)\n(deflayer l0 %s)\n(deflayer l1 %s)\n" %
                  (src, " ".join("_" for _ in named), src), dom))
        V.append(("lmap_unmapped", "(defcfg process-unmapped-keys yes)\n(defsrc)\n(deflayermap (l0) %s)\n" %
                  " ".join("%s _" % by_code[c] for c in named), dom))
    jobs = []
    for name, cfg, codes in V:
        scripts = [press(c) for c in codes]
        # overlapping presses of random pairs (identity must not depend on what else is held)
        real = [c for c in codes if c not in pseudo]
        for _ in range(150 if tier == "quick" else 1500):
            a, b = rng.sample(real, 2)
            scripts.append([["d", a], ["t", 1], ["d", b], ["t", 1], ["u", a], ["u", b], ["t", 3]])
        jobs.append({"cfg": cfg, "params": params, "tag": name, "scripts": scripts})
    return jobs, params


def consistent_words(keys, maxlen):
    """every physically consistent history of <= maxlen events over `keys` (press / release / OS repeat of a held key)"""
    out = []

    def rec(w, down):
        if w:
            out.append(list(w))
        if len(w) == maxlen:
            return
        for k in keys:
            if k in down:
                rec(w + [["u", k]], down - {k})
                rec(w + [["r", k]], down)
            else:
                rec(w + [["d", k]], down | {k})
    rec([], frozenset())
    return out


def identity_layer_jobs(tier, rng, g, base_params):
    """identity keys (unmapped with process-unmapped-keys / `_` / mapped to themselves on the base layer) under a second
    layer that maps them to other keys, reached by layer-while-held / layer-toggle / layer-switch"""
    t = g["t"]
    fromset = {c for c, _ in t["from"]}
    mods = set(t["modifiers"])
    plain = [(e["n"], e["c"]) for e in t["names"]
             if quote(e["n"]) == e["n"] and e["n"].isascii() and e["n"].isalnum() and 1 < e["c"] < 128 and e["c"] in fromset
             and e["c"] not in mods and not e["n"].isdigit()]
    jobs = []
    # layer-toggle is the documented other spelling of layer-while-held
    acts = [("held", "(layer-while-held nav)", "_"), ("held", "(layer-toggle nav)", "_"), ("flip", "(layer-switch nav)", "(layer-switch l0)")]
    for way in ("unmapped", "trans", "self"):
        for ai, (mode, act, back) in enumerate(acts):
            picks, seen = [], set()
            while len(picks) < 5:
                n, c = rng.choice(plain)
                if c not in seen:
                    seen.add(c)
                    picks.append((n, c))
            (L, Lc), (K1, K1c), (K2, K2c), (O1, O1c), (O2, O2c) = picks
            use_map = way == "unmapped" or (ai + ("trans", "self").index(way)) % 2 == 0 if way != "unmapped" else True
            if way == "unmapped":
                cfg = "(defcfg process-unmapped-keys yes)\n(defsrc %s)\n(deflayer l0 %s)\n" % (L, act)
            else:
                cfg = "(defsrc %s %s %s)\n(deflayer l0 %s %s)\n" % (L, K1, K2, act, "_ _" if way == "trans" else "%s %s" % (K1, K2))
            if use_map:
                cfg += "(deflayermap (nav) %s%s %s %s %s)\n" % ("" if back == "_" else "%s %s " % (L, back), K1, O1, K2, O2)
            else:
                cfg += "(deflayer nav %s %s %s)\n" % (back, O1, O2)
            params = dict(base_params, lay={"k": Lc, "mode": mode, "remap": [{"c": K1c, "o": O1c}, {"c": K2c, "o": O2c}]})
            scripts = []
            for w in consistent_words([K1c, Lc], 5 if tier == "quick" else 7):
                s = []
                for ev in w:
                    s += [ev, ["t", 1]]
                down = {ev[1] for ev in w if ev[0] == "d" and w.count(["d", ev[1]]) > w.count(["u", ev[1]])}
                for k in sorted(down):
                    s += [["u", k], ["t", 1]]
                scripts.append(s + [["t", 2]])
            for _ in range(30 if tier == "quick" else 300):
                scripts.append(rand_history(rng, [K1c, K2c, Lc], rng.randint(4, 24), [0, 1, 1, 2], tail=3, repeat_p=0.3))
            jobs.append({"cfg": cfg, "params": params, "tag": "lay_%s_%d" % (way, ai), "scripts": scripts})
    return jobs


# ------------------------------------------------------------------ part P: no-op codes on every output path
# The configurations send a no-op key down one output path each; P_C11 in "paths" mode (I2 only) judges what the real
# code wrote.  A small subset is also explored exhaustively with L1 (mc.check_instance: TLC over Kanata.tla || P_C11,
# every transition replayed on the code).
PATH_PARAMS = {"paths": 1, "btn": [], "wheel": [], "pseudo": []}
ZIPPY_NOTE = " [zippychord output-character-mappings: the character is mapped to a no-op key]"


def path_family(tier, rng):
    """[{name, cfg, keys (names), T (a timeout of the configuration), files, fk (number of virtual keys), mc}]"""
    off = rng.randrange(10)
    cnt = [0]

    def N():
        cnt[0] += 1
        return "nop%d" % ((off + cnt[0] * 3) % 10)      # 3 is coprime to 10: all ten names are used, 0 and 9 included
    F = []

    def add(name, keys, layer, extra="", T=5, defcfg="", files=None, fk=0, mc=None, src=None):
        cfg = ("(defcfg %s)\n" % defcfg if defcfg else "") + "(defsrc %s)\n(deflayer l0 %s)\n%s" % (src or " ".join(keys), layer, extra)
        F.append({"name": name, "cfg": cfg, "keys": keys, "T": T, "files": files or {}, "fk": fk, "mc": mc})
    n = [N() for _ in range(10)]
    add("key", ["a", "b"], "%s %s" % (n[0], n[9]), mc={"qmax": 2})
    add("macro", ["a", "b", "c"], "(macro %s a %s) (macro-release-cancel %s 4 %s b) (macro-repeat %s 3)" % (N(), N(), N(), N(), N()), T=4)
    add("macro_mc", ["a", "b"], "(macro %s a %s) (multi lsft %s)" % (N(), N(), N()), mc={"qmax": 2})
    add("multi", ["a", "b", "c", "lsft"], "(multi %s a) S-%s (multi lsft %s) lsft" % (N(), N(), N()))
    add("taphold", ["a", "b", "c", "d"], "(tap-hold 5 5 %s %s) (tap-hold-press 5 5 %s %s) (tap-hold-release 5 5 a %s) d" %
        (N(), N(), N(), N(), N()), mc=None)
    add("taphold_mc", ["a", "b"], "(tap-hold 3 3 %s %s) b" % (N(), N()), T=3, mc={"qmax": 2} if tier != "quick" else None)
    add("oneshot", ["a", "b", "c"], "(one-shot 8 %s) (one-shot-release 8 %s) c" % (N(), N()), T=8)
    add("oneshot_mc", ["a", "b"], "(one-shot 4 %s) b" % N(), T=4, mc={"qmax": 2} if tier != "quick" else None)
    add("tapdance", ["a", "b", "c"], "(tap-dance 5 (%s %s a)) (tap-dance-eager 5 (%s %s)) c" % (N(), N(), N(), N()))
    x = N()
    add("fork_switch", ["a", "b", "c", "lsft"],
        "(fork %s %s (lsft)) %s (switch ((key-history %s 1)) %s break (%s) a break () %s break) lsft" % (N(), N(), x, x, N(), x, N()))
    add("chords_v1", ["a", "b", "c"], "(chord g a) (chord g b) c", "(defchords g 5 (a) %s (b) %s (a b) %s)\n" % (N(), N(), N()))
    add("chords_v2", ["a", "b", "c"], "a b c", "(defchordsv2 (a b) %s 5 all-released () (b c) (macro %s a) 5 first-release ())\n" % (N(), N()),
        defcfg="concurrent-tap-hold yes")
    x = N()
    add("overrides", ["a", "b", "c", "lsft"], "a b %s lsft" % x, "(defoverrides (a) (%s) (lsft b) (%s) (%s) (b))\n" % (N(), N(), x))
    for mode, tag in (("hidden-delay-type", "hd"), ("hidden-suppressed", "hs"), ("visible-backspaced", "vb")):
        x, y = N(), N()
        add("seq_" + tag, ["l", "n", "c", "m"], "sldr %s c %s" % (x, y),
            "(defvirtualkeys v1 (macro h %s i))\n(defseq v1 (%s c %s))\n" % (N(), x, y), T=6,
            defcfg="sequence-input-mode %s sequence-timeout 6" % mode)
    x = N()
    add("seq_hd_mc", ["l", "n", "c"], "sldr %s c" % x, "(defvirtualkeys v1 x)\n(defseq v1 (%s c %s))\n" % (x, x), T=3,
        defcfg="sequence-input-mode hidden-delay-type sequence-timeout 3",
        mc={"qmax": 2, "constraint": "SeqBound", "extra_defs": "SeqBound == Len(K.sq.raw) <= 3"})
    x, y = N(), N()
    add("seq_leader_form", ["l", "n", "c", "m"], "(sequence 6 hidden-delay-type) %s c %s" % (x, y),
        "(defvirtualkeys v1 (macro h i))\n(defseq v1 (%s %s c))\n" % (x, y), T=6,
        defcfg="sequence-input-mode visible-backspaced sequence-timeout 30")
    x = N()
    add("seq_always_on", ["n", "c", "m"], "%s c m" % x, "(defvirtualkeys v1 (macro h i))\n(defseq v1 (%s %s c))\n" % (x, x), T=6,
        defcfg="sequence-input-mode hidden-delay-type sequence-timeout 6 sequence-always-on yes")
    add("dynmacro", ["a", "b", "c", "d"], "(dynamic-macro-record 1) dynamic-macro-record-stop (dynamic-macro-play 1) %s" % N(), T=4)
    add("vkeys", ["a", "b", "c", "d"], "(on-press tap-vkey v1) (hold-for-duration 5 v2) (on-release tap-vkey v1) (on-idle 5 tap-vkey v2)",
        "(defvirtualkeys v1 %s v2 (macro %s a))\n" % (N(), N()), fk=2)
    add("repeat", ["a", "b", "c"], "%s rpt rpt-any" % N())
    add("unmod", ["a", "b", "lsft"], "(unmod %s) (unshift %s) lsft" % (N(), N()))
    add("layers", ["a", "b", "c"], "(layer-while-held l1) %s (release-key %s)" % (n[3], n[3]), "(deflayer l1 _ _ %s)\n" % N())
    add("capsword", ["a", "b", "c"], "(caps-word-custom 20 (%s a) (%s)) %s %s" % (n[1], n[2], n[1], n[2]), T=20)
    add("src_nop", [n[4], n[5], "a"], "_ (tap-hold 5 5 %s a) (layer-while-held l1)" % n[4], "(deflayer l1 use-defsrc _ _)\n")
    add("zippy", ["a", "b", "c"], "a b c", "(defzippy dict on-first-press-chord-deadline 20 output-character-mappings (! %s))\n" % N(),
        T=20, files={"dict": "ab\t!x\n"})
    return F


def tap_words(keys, T, maxlen):
    """every word of <= maxlen taps over the keys (short taps, the last one followed by a wait beyond the timeout)"""
    out = []
    for ln in range(1, maxlen + 1):
        for w in itertools.product(keys, repeat=ln):
            s = []
            for k in w:
                s += [["d", k], ["t", 1], ["u", k], ["t", 1]]
            out.append(s + [["t", T + 6]])
    return out


def path_jobs(tier, rng, fam, code_of):
    C = code_of.__getitem__
    jobs = []
    for f in fam:
        keys = [C(k) for k in f["keys"]]
        T = f["T"]
        scripts = tap_words(keys, T, 3 if len(keys) <= 4 else 2)
        # holds across the timeout, overlaps
        for a in keys:
            scripts.append([["d", a], ["t", T + 3], ["u", a], ["t", T + 3]])
            for b in keys:
                if a != b:
                    scripts.append([["d", a], ["t", 1], ["d", b], ["t", 1], ["u", a], ["t", 1], ["u", b], ["t", T + 6]])
                    scripts.append([["d", a], ["t", T + 1], ["d", b], ["t", 1], ["u", b], ["t", 1], ["u", a], ["t", T + 6]])
        for _ in range(25 if tier == "quick" else 400):
            s = rand_history(rng, keys, rng.randint(4, 30 if tier == "quick" else 100),
                             [0, 1, 1, 1, 2, max(T - 1, 0), T, T + 1, 2 * T + 3], tail=T + 12, repeat_p=0.15)
            if f["fk"]:
                for _ in range(rng.randint(1, 4)):
                    s.insert(rng.randrange(len(s) + 1), ["fk", rng.randrange(f["fk"]), rng.choice(["press", "release", "tap", "toggle"])])
            scripts.append(s)
        jobs.append({"cfg": f["cfg"], "params": PATH_PARAMS, "tag": "p:" + f["name"], "scripts": scripts, "files": f["files"]})
    return jobs


def path_instances(res, tier, fam, wd, code_of):
    """binding D + B for the small members of the family; returns the witness jobs (monitor rejections at model level
    and every place where the code leaves the model) to be recorded on the code and judged there"""
    C = code_of.__getitem__
    wjobs = []
    for f in fam:
        if not f["mc"]:
            continue
        inst = dict(f["mc"], name="c11_" + f["name"], kbd=f["cfg"], keys=[C(k) for k in f["keys"]],
                    monitor={"module": "P_C11", "params": PATH_PARAMS})
        r = mc.check_instance(inst, wd, workers=6, timeout=1500)
        res.add_instance(r)
        log("[c11] instance %s: %d states, %d edges replayed, drift %d, monitor errors %d, panics %d, tlc %.0fs" %
            (f["name"], r["states"], r.get("replayed", 0), r.get("drift", 0), r["n_monerr"], r["n_panic"], r["tlc_wall_s"]))
        ws = flow.witness_scripts(r["monerr_file"], 40) + flow.witness_scripts(r["panic_file"], 10)
        scripts = [flow.hist_to_script(w["h"], f["T"] + 8) for w in ws]
        for d in r.get("drift_samples", [])[:300]:
            scripts.append(flow.hist_to_script(d["h"], f["T"] + 8))
        if scripts:
            wjobs.append({"cfg": f["cfg"], "params": PATH_PARAMS, "tag": "w:" + f["name"], "scripts": scripts, "files": f["files"]})
    return wjobs


# ------------------------------------------------------------------ part S
MC_S = r"""---- MODULE MC_C11S ----
EXTENDS Naturals, Sequences, FiniteSets, TLC, Json, IOUtils
P == INSTANCE P_C11
Known == %(known)s
PseudoDef == %(pseudo)s
Rec == ndJsonDeserialize(IOEnv.CASES)
VARIABLES l, ph
ToSet(s) == {s[i] : i \in DOMAIN s}
CheckLine(j) ==
  LET r == Rec[j]
      spec == P!Intercept(r.q, Known) \ PseudoDef
      real == ToSet(r.mapped) \ PseudoDef
  IN IF real = spec THEN TRUE
     ELSE PrintT(<<"VERR", ToJson([line |-> j, missing |-> spec \ real, extra |-> real \ spec])>>)
Init == l = 0 /\ ph = 0
Next == \/ ph = 0 /\ l = 0 /\ \E j \in DOMAIN Rec : l' = j /\ ph' = 0
        \/ ph = 0 /\ l > 0 /\ CheckLine(l) /\ ph' = 1 /\ l' = l
Done == TLCGet("distinct") = 2 * Len(Rec) + 1
====
"""


def intercept_cases(tier, rng, g):
    t = g["t"]
    names = [(quote(e["n"]), e["c"]) for e in t["names"] if quote(e["n"])]
    cases = []
    n = 400 if tier == "quick" else 6000
    for i in range(n):
        pool = list(names)
        rng.shuffle(pool)
        seen, defsrc, lmap, exc = set(), [], [], []
        for qn, c in pool[:rng.choice([0, 1, 3, 10, 40, 120])]:
            if c not in seen:
                seen.add(c)
                defsrc.append((qn, c))
        lseen = set()
        for qn, c in rng.sample(names, rng.choice([0, 0, 1, 4, 12])):
            if c not in lseen:
                lseen.add(c)
                lmap.append((qn, c))
        pu = rng.choice(["absent", "yes", "no", "except", "except"])
        if pu == "except":
            eseen = set()
            for qn, c in rng.sample(names, rng.choice([1, 2, 5, 20])):
                # a listed exception may not be in defsrc (parser error); it may be a deflayermap input
                if c not in seen and c not in eseen:
                    eseen.add(c)
                    exc.append((qn, c))
            if not exc:
                pu = "yes"
        cfg = ""
        if pu == "except":
            cfg += "(defcfg process-unmapped-keys (all-except %s))\n" % " ".join(q for q, _ in exc)
        elif pu != "absent":
            cfg += "(defcfg process-unmapped-keys %s)\n" % pu
        cfg += "(defsrc %s)\n(deflayer l0 %s)\n" % (" ".join(q for q, _ in defsrc), " ".join(q for q, _ in defsrc))
        if lmap:
            cfg += "(deflayermap (l1) %s)\n" % " ".join("%s %s" % (q, rng.choice(["a", "_", "XX", q])) for q, _ in lmap)
        q = {"defsrc": [c for _, c in defsrc], "lmap": [c for _, c in lmap], "pu": pu in ("yes", "except"),
             "exc": [c for _, c in exc]}
        cases.append({"tag": i, "cfg": cfg, "probe": [], "q": q})
    return cases


def check_intercept(wd, cases, g, name="c11s"):
    pr = harness_json("c11-parse", [{"tag": c["tag"], "cfg": c["cfg"], "probe": []} for c in cases], wd, name)
    lines, failed = [], []
    for c, x in zip(cases, pr):
        if not x["ok"]:
            failed.append((c, x["err"]))
            continue
        lines.append({"q": c["q"], "mapped": x["mapped"], "cfg": c["cfg"]})
    if len(failed) > len(cases) // 10:
        raise ToolError("intercept generator: %d of %d configurations rejected, e.g. %s" %
                        (len(failed), len(cases), failed[0][1][:300]))
    f = os.path.join(wd, name + ".cases.ndjson")
    with open(f, "w") as fh:
        for ln in lines:
            fh.write(json.dumps({"q": ln["q"], "mapped": ln["mapped"]}) + "\n")
    osc_by_name = {e["n"]: e["v"] for e in g["osc"]}
    pseudo = {osc_by_name[n] for n in ("KEY_RESERVED", "KEY_UNKNOWN", "KEY_MAX") if n in osc_by_name}
    known = {c for c, _ in g["t"]["from"]} - pseudo
    mod = "MC_C11S"
    open(os.path.join(wd, mod + ".tla"), "w").write(MC_S % dict(known=tla_val(known), pseudo=tla_val(pseudo)))
    open(os.path.join(wd, mod + ".cfg"), "w").write("INIT Init\nNEXT Next\nCHECK_DEADLOCK FALSE\nPOSTCONDITION Done\n")
    r = run_tlc(wd, mod, workers=min(NCPU, 8), timeout=900, heap="4g", env_extra={"CASES": os.path.abspath(f)})
    tlc_ok(r, mod)
    ve = os.path.join(wd, name + ".verr.ndjson")
    extract_prints(r["out"], "VERR", ve)
    errs = [json.loads(x) for x in open(ve) if x.strip()]
    for e in errs:
        e["case"] = lines[e["line"] - 1]
    return r, errs, lines, failed


# ------------------------------------------------------------------ part R: the intercept set across live reloads
MC_R = r"""---- MODULE MC_C11R ----
EXTENDS Naturals, Sequences, FiniteSets, TLC, Json, IOUtils
P == INSTANCE P_C11
Known == %(known)s
PseudoDef == %(pseudo)s
Rec == ndJsonDeserialize(IOEnv.CASES)
VARIABLES l, ph
CheckLine(j) ==
  LET r == Rec[j]
      bad == P!ReloadBad(r.qs, Known, PseudoDef, r.start, r.obs)
  IN IF bad = <<>> THEN TRUE ELSE PrintT(<<"VERR", ToJson([line |-> j, bad |-> bad[1]])>>)
Init == l = 0 /\ ph = 0
Next == \/ ph = 0 /\ l = 0 /\ \E j \in DOMAIN Rec : l' = j /\ ph' = 0
        \/ ph = 0 /\ l > 0 /\ CheckLine(l) /\ ph' = 1 /\ l' = l
Done == TLCGet("distinct") = 2 * Len(Rec) + 1
====
"""
RL_KEY = "pause"          # the key every valid content maps to lrld


def reload_content(rng, names, rcode, x11=False):
    """one valid file content with a random intercept set and the reload key; returns (text, q)"""
    pool = [(qn, c) for qn, c in names if c != rcode]
    seen, defsrc, lmap, exc = {rcode}, [], [], []
    for qn, c in rng.sample(pool, rng.choice([1, 2, 4, 10, 30])):
        if c not in seen:
            seen.add(c)
            defsrc.append((qn, c))
    lseen = set()
    for qn, c in rng.sample(pool, rng.choice([0, 0, 1, 3, 8])):
        if c not in lseen:
            lseen.add(c)
            lmap.append((qn, c))
    pu = rng.choice(["absent", "absent", "no", "yes", "except"])
    if pu == "except":
        eseen = set()
        for qn, c in rng.sample(pool, rng.choice([1, 3, 10])):
            if c not in seen and c not in eseen:
                eseen.add(c)
                exc.append((qn, c))
        if not exc:
            pu = "yes"
    opts = []
    if pu == "except":
        opts.append("process-unmapped-keys (all-except %s)" % " ".join(q for q, _ in exc))
    elif pu != "absent":
        opts.append("process-unmapped-keys %s" % pu)
    if x11:
        opts.append("linux-x11-repeat-delay-rate 400,50")
    cfg = "(defcfg %s)\n" % " ".join(opts) if opts else ""
    cfg += "(defsrc %s %s)\n(deflayer l0 lrld %s)\n" % (RL_KEY, " ".join(q for q, _ in defsrc), " ".join(q for q, _ in defsrc))
    if lmap:
        cfg += "(deflayermap (l1) %s)\n" % " ".join("%s %s" % (q, rng.choice(["a", "_", "XX"])) for q, _ in lmap)
    q = {"defsrc": [rcode] + [c for _, c in defsrc], "lmap": [c for _, c in lmap], "pu": pu in ("yes", "except"),
         "exc": [c for _, c in exc]}
    return cfg, q


def reload_cases(tier, rng, g):
    t = g["t"]
    fromset = {c for c, _ in t["from"]}
    names = [(quote(e["n"]), e["c"]) for e in t["names"] if quote(e["n"]) and e["c"] in fromset]
    rcode = {e["n"]: e["c"] for e in t["names"]}[RL_KEY]
    kinds = ["N", "X", "S", "R", "missing", "O"]
    cases = []
    ngroups = 5 if tier == "quick" else 40
    for gi in range(ngroups):
        texts, qs = {}, {}
        for k in ("O", "N", "X"):
            texts[k], qs[k] = reload_content(rng, names, rcode, x11=(k == "X"))
        texts["S"] = texts["N"].rstrip()[:-1] + "\n"                                   # unbalanced parenthesis
        texts["R"] = texts["N"].replace("(deflayer l0 lrld", "(deflayer l0 nosuchkey", 1)   # parses as s-expressions, refused
        words = [w for ln in (1, 2, 3) for w in itertools.product(kinds, repeat=ln)]
        if tier == "quick" and gi >= 2:
            words = [w for w in words if len(w) <= 2] + rng.sample([w for w in words if len(w) == 3], 40)
        for w in words:
            script = []
            for k in w:
                script += [["w", k], ["d", rcode], ["t", 2], ["u", rcode], ["t", 3]]
            cases.append({"tag": len(cases), "texts": texts, "start": "O", "script": script, "qs": qs, "word": list(w)})
    return cases


def reload_desc(e):
    b = e["bad"]
    return ("C11 R: after step %s of a reload script the intercepted set is not that of the configuration in force (%s; file content "
            "%s, layout replaced at this step: %s): missing %s extra %s" %
            (b["i"], b["inforce"], b["file"], b["repl"], sorted(b["missing"])[:10], sorted(b["extra"])[:10]))


def check_reload(wd, cases, g, name="c11r"):
    build_harness()
    fi, fo = os.path.join(wd, name + ".in.json"), os.path.join(wd, name + ".out.ndjson")
    nsh = min(6, max(1, len(cases) // 100))
    procs = []
    for i in range(nsh):
        part = cases[i::nsh]
        json.dump([{k: c[k] for k in ("tag", "texts", "start", "script")} for c in part], open(fi + str(i), "w"))
        procs.append(subprocess.Popen([HARNESS, "c11-reload", fi + str(i), fo + str(i), wd], stdout=subprocess.PIPE,
                                      stderr=subprocess.STDOUT, text=True))
    by_tag = {}
    for i, p in enumerate(procs):
        so, _ = p.communicate(timeout=1200)
        if p.returncode != 0:
            raise ToolError("c11-reload failed: %s" % (so or "")[-1500:])
        for line in open(fo + str(i)):
            d = json.loads(line)
            by_tag[d["tag"]] = d
    lines, failed = [], []
    for c in cases:
        d = by_tag.get(c["tag"])
        if d is None or "obs" not in d:
            failed.append((c, (d or {}).get("err") or (d or {}).get("panic") or "no output"))
            continue
        # an observation equal to the previous one (same set, no replacement) gets the same verdict: dropped
        obs, prev = [], None
        for o in d["obs"]:
            if prev is None or o["repl"] or o["mk"] != prev:
                obs.append(o)
            prev = o["mk"]
        lines.append({"case": c, "rec": {"qs": c["qs"], "start": c["start"], "obs": obs},
                      "reloads": sum(1 for o in d["obs"] if o["repl"])})
    if len(failed) > len(cases) // 10:
        raise ToolError("reload cases: %d of %d could not be run, e.g. %s" % (len(failed), len(cases), str(failed[0][1])[:300]))
    f = os.path.join(wd, name + ".cases.ndjson")
    with open(f, "w") as fh:
        for ln in lines:
            fh.write(json.dumps(ln["rec"]) + "\n")
    osc_by_name = {e["n"]: e["v"] for e in g["osc"]}
    pseudo = {osc_by_name[n] for n in ("KEY_RESERVED", "KEY_UNKNOWN", "KEY_MAX") if n in osc_by_name}
    known = {c for c, _ in g["t"]["from"]} - pseudo
    mod = "MC_C11R"
    open(os.path.join(wd, mod + ".tla"), "w").write(MC_R % dict(known=tla_val(known), pseudo=tla_val(pseudo)))
    open(os.path.join(wd, mod + ".cfg"), "w").write("INIT Init\nNEXT Next\nCHECK_DEADLOCK FALSE\nPOSTCONDITION Done\n")
    r = run_tlc(wd, mod, workers=6, timeout=900, heap="4g", env_extra={"CASES": os.path.abspath(f)})
    tlc_ok(r, mod)
    ve = os.path.join(wd, name + ".verr.ndjson")
    extract_prints(r["out"], "VERR", ve)
    errs = [json.loads(x) for x in open(ve) if x.strip()]
    for e in errs:
        e["case"] = lines[e["line"] - 1]["case"]
    return r, errs, lines, failed


def replay(r, path, wd):
    g = gather_tables(wd)
    if r["kind"] == "c11tables":
        rows = []
        if "lk" in r:
            lk = [(e["n"], e["c"]) for e in r["lk"]]
            rows, _ = gather_lk_rows(wd, g, "quick", random.Random(1), [("base", [], [r["n"]]), ("replay", lk, [r["n"]])])
            for row in rows:
                print("%s under %s: %s" % (row["n"], lk_text([(e["n"], e["c"]) for e in row["lk"]]).strip() or "(no deflocalkeys)",
                                           {p: v for p, v in row["obs"].items() if v != NA}))
        _, errs, note = check_tables(wd, g, rows)
        for e in errs:
            print("REJECTED: %s" % json.dumps(e)[:400])
        if errs:
            print("VIOLATION property=%s replay=%s" % (r["property"], path))
            return 1
        print("accepted by KeyTables")
        return 0
    if "reload" in r:
        c = dict(r["reload"], tag=0)
        _, errs, lines, failed = check_reload(wd, [c], g, "c11r_replay")
        if failed:
            print("the case could not be run: %s" % failed[0][1])
            return 0
        for k in sorted(c["texts"]):
            print("---- content %s\n%s" % (k, c["texts"][k].rstrip()))
        print("start with O; per step: write the content, tap the lrld key: %s" % c["word"])
        for o in lines[0]["rec"]["obs"]:
            print("after step %d (file=%s, layout replaced=%s): %d keys intercepted" % (o["i"], o["file"], o["repl"], len(o["mk"])))
        for e in errs:
            print("REJECTED: %s" % reload_desc(e))
        if errs:
            print("VIOLATION property=%s replay=%s" % (r["property"], path))
            return 1
        print("accepted by P_C11.ReloadBad")
        return 0
    _, errs, lines, failed = check_intercept(wd, [{"tag": 0, "cfg": r["cfg"], "probe": [], "q": r["q"]}], g, "c11s_replay")
    if failed:
        print("configuration rejected by the parser: %s" % failed[0][1])
        return 0
    print(r["cfg"])
    print("mapped_keys: %s" % lines[0]["mapped"])
    for e in errs:
        print("REJECTED: intercept set differs from the statement: missing %s extra %s" % (e["missing"], e["extra"]))
    if errs:
        print("VIOLATION property=%s replay=%s" % (r["property"], path))
        return 1
    print("accepted by P_C11.Intercept")
    return 0


def run(tier, seed):
    pid = "C11"
    res = flow.Result(pid, tier, seed)
    rng = random.Random(seed)
    wd = workdir("c11")
    # ---- part T
    g = gather_tables(wd)
    lkrows, lkstats = gather_lk_rows(wd, g, tier, random.Random(seed + 11))
    r, terrs, note = check_tables(wd, g, lkrows)
    res.states += r["distinct"] or 0
    res.transitions += r["generated"] or 0
    nlk, per_fam = 0, {}
    for e in sorted(terrs, key=lambda e: e.get("row", 0)):
        if "row" in e:
            # at most two replays per family of blocks: the same slip shows in hundreds of rows
            row = lkrows[e["row"] - 1]
            nlk += 1
            per_fam[row["fam"]] = per_fam.get(row["fam"], 0) + 1
            if per_fam[row["fam"]] > 2:
                continue
            desc = "C11 T: %s: %s under %s denotes %s, but %s" % (
                e["req"], row["n"], lk_text([(x["n"], x["c"]) for x in row["lk"]]).strip() or "(no deflocalkeys)", e["denotes"],
                ", ".join("%s holds %s" % (d["p"], {REJ: "a rejection", MISMATCH: "something else"}.get(d["v"], d["v"]))
                          for d in sorted(e["differs"], key=lambda d: d["p"])))
            flow.classify(res, pid, e["req"], desc,
                          {"property": pid, "kind": "c11tables", "n": row["n"], "lk": row["lk"], "cfgs": row["cfgs"], "err": desc},
                          "lk_%d" % len(res.violations))
        elif len(res.violations) < 16:
            flow.classify(res, pid, e["req"], "C11 T: " + json.dumps(e)[:600],
                          {"property": pid, "kind": "c11tables", "err": e}, "tables_%d" % len(res.violations))
    log("[c11] names under deflocalkeys: %d rows (%s), %d configurations parsed, %d rows differ" %
        (len(lkrows), lkstats["by_family"], lkstats["configs_parsed"], nlk))
    t = g["t"]
    tables_cov = {"u16_values_checked": 65536, "from_u16_some": len(t["from"]), "from_u16_none": t["none_count"],
                  "keycode_variants": len(g["kc"]), "oscode_variants": len(g["osc"]),
                  "candidate_names": len(t["names"]) + len(t["rejected"]), "accepted_names": len(t["names"]),
                  "name_positions_observed": sum(1 for p in g["pos"] for k in ("src", "act", "lmap", "exc", "ovr") if p[k] >= 0),
                  "name_position_parse_failures": g["parse_failures"],
                  "enum_values_unreachable_by_from_u16": note.get("unreachable", []),
                  "pseudo_codes": note.get("pseudo", []), "requirement_failures": len(terrs),
                  "deflocalkeys": dict(lkstats, rows=len(lkrows), positions=POSITIONS, rows_differ=nlk,
                                       positions_observed=sum(1 for r_ in lkrows for v in r_["obs"].values() if v >= 0))}
    log("[c11] tables: %d states, %d requirement failures, %d names, unreachable %s" %
        (r["distinct"], len(terrs), len(t["names"]), note.get("unreachable")))
    if g.get("ovr_failed"):
        res.notes.append("defoverrides position of the base name table not observed (ovr-eval: %s)" % g["ovr_failed"])
    if note.get("unreachable"):
        res.notes.append("soft probe: OsCode variants %s have no from_u16 entry (from_u16 is not onto the enum); "
                         "they cannot enter or leave kanata, nothing observable depends on them" % note["unreachable"])
    res.samples.append({"name_positions": g["pos"][0], "conv": t["conv"][30]})
    for fam in ("single", "documented"):
        ex = [r_ for r_ in lkrows if r_["fam"] == fam]
        if ex:
            res.samples.append({"deflocalkeys_row": {k: ex[0][k] for k in ("n", "fam", "lk", "exp", "obs")}})
    box = {"lines": [], "failed": []}

    def guarded(label, fn):
        """a later part that cannot run on this tree does not hide what the table part already reported"""
        try:
            fn()
        except ToolError as e:
            if not res.violations:
                raise
            res.notes.append("part %s could not be run on this tree (%s); the violations above stand" % (label, str(e)[:300]))
            log("[c11] part %s skipped: %s" % (label, str(e)[:200]))

    def part_I():
        jobs, params = identity_jobs(tier, rng, g)
        ljobs = identity_layer_jobs(tier, random.Random(seed + 37), g, params)
        res.extra["identity_under_remapping_layer"] = {"configurations": len(ljobs), "scripts": sum(len(j["scripts"]) for j in ljobs)}
        res.samples.append({"identity_layer_cfg": ljobs[0]["cfg"], "lay": ljobs[0]["params"]["lay"], "script": ljobs[0]["scripts"][40]})
        jobs = shard_local_index(jobs + ljobs)
        errs = par_validate(res, "P_C11", jobs, wd, "c11_id", 6 if tier == "quick" else 10)
        for e in sorted(errs, key=lambda e: e["job"])[:20]:
            j, s = script_of(jobs, e["job"], 0)
            flow.classify(res, pid, e["err"], e["err"] + " script=" + json.dumps(s) + " cfg=" + j["cfg"][:200],
                          {"property": pid, "cfg": j["cfg"], "params": j["params"], "script": s, "err": e["err"],
                           "monitor": "P_C11"}, "id_%d" % len(res.violations))
        res.samples.append({"identity_script": jobs[30]["scripts"][0], "cfg": jobs[30]["cfg"][:200]})
        log("[c11] identity: %d scripts, %d rejected" % (len(jobs), len(errs)))

    def part_P():
        code_of = {e["n"]: e["c"] for e in t["names"]}
        fam = path_family(tier, random.Random(seed + 23))
        wjobs = path_instances(res, tier, fam, wd, code_of)
        pjobs = shard_local_index(wjobs + path_jobs(tier, random.Random(seed + 29), fam, code_of))
        perrs = par_validate(res, "P_C11", pjobs, wd, "c11_paths", 6 if tier == "quick" else 10)
        rejected_cfgs = sorted({e["job"].split("#")[0] for e in perrs if e["err"].startswith("error from the code under test")})
        if len(rejected_cfgs) > len(fam) // 3:
            raise ToolError("output-path family: configurations not accepted: %s" % rejected_cfgs)
        if rejected_cfgs:
            res.notes.append("output-path configurations not accepted by this tree (skipped): %s" % rejected_cfgs)
        perrs = [e for e in perrs if not e["err"].startswith("error from the code under test")]
        seen_cfg = {}
        for e in sorted(perrs, key=lambda e: len(script_of(pjobs, e["job"], 0)[1])):
            j, sc = script_of(pjobs, e["job"], 0)
            name = e["job"].split("#")[0][2:]
            seen_cfg[name] = seen_cfg.get(name, 0) + 1
            if seen_cfg[name] > 2:
                continue
            tag = ZIPPY_NOTE if name == "zippy" else ""
            flow.classify(res, pid, e["err"], e["err"] + tag + " path=" + name + " script=" + json.dumps(sc) + " cfg=" + j["cfg"],
                          {"property": pid, "cfg": j["cfg"], "params": j["params"], "script": sc, "err": e["err"], "files": j.get("files", {}),
                           "monitor": "P_C11"}, "path_%d" % len(res.violations))
        res.samples.append({"output_path": fam[1]["name"], "cfg": fam[1]["cfg"], "script": pjobs[-1]["scripts"][0][:20]})
        res.extra["output_paths"] = {"configurations": [f["name"] for f in fam], "explored_with_L1": [f["name"] for f in fam if f["mc"]],
                                     "scripts": len(pjobs), "rejected": len(perrs),
                                     "rejected_by_path": seen_cfg}
        log("[c11] output paths: %d configurations, %d scripts, %d rejected %s" % (len(fam), len(pjobs), len(perrs), seen_cfg or ""))

    def part_S():
        cases = intercept_cases(tier, rng, g)
        rs, serrs, lines, failed = check_intercept(wd, cases, g)
        box["lines"], box["failed"] = lines, failed
        res.states += rs["distinct"] or 0
        res.transitions += rs["generated"] or 0
        res.traces_validated += len(lines)
        for e in serrs[:10]:
            desc = "C11 S: intercept set differs from the statement: missing %s extra %s" % (e["missing"][:10], e["extra"][:10])
            flow.classify(res, pid, desc, desc + " cfg=" + e["case"]["cfg"][:300],
                          {"property": pid, "kind": "c11intercept", "cfg": e["case"]["cfg"], "q": e["case"]["q"], "err": desc},
                          "intercept_%d" % len(res.violations))
        if lines:
            res.samples.append({"intercept_cfg": lines[0]["cfg"][:300], "q": {k: (v[:8] if isinstance(v, list) else v)
                                                                              for k, v in lines[0]["q"].items()},
                                "mapped_keys_size": len(lines[0]["mapped"])})
        log("[c11] intercept: %d configurations compared, %d differ, %d rejected by the parser" %
            (len(lines), len(serrs), len(failed)))

    guarded("I", part_I)
    guarded("P", part_P)
    guarded("S", part_S)

    def part_R():
        cases = reload_cases(tier, random.Random(seed + 31), g)
        rr, rerrs, rlines, rfailed = check_reload(wd, cases, g)
        res.states += rr["distinct"] or 0
        res.transitions += rr["generated"] or 0
        res.traces_validated += len(rlines)
        seen_w = {}
        for e in sorted(rerrs, key=lambda e: len(e["case"]["word"])):
            c = e["case"]
            key = tuple(c["word"][-1:])
            seen_w[key] = seen_w.get(key, 0) + 1
            if seen_w[key] > 2:
                continue
            desc = reload_desc(e)
            flow.classify(res, pid, desc, desc + " word=%s" % c["word"],
                          {"property": pid, "kind": "c11intercept", "err": desc,
                           "reload": {k: c[k] for k in ("texts", "start", "script", "qs", "word")}}, "reload_%d" % len(res.violations))
        nrel = sum(ln["reloads"] for ln in rlines)
        if rlines:
            res.samples.append({"reload_word": rlines[-1]["case"]["word"], "contents": {k: v[:160] for k, v in rlines[-1]["case"]["texts"].items()},
                                "observations": [{"i": o["i"], "file": o["file"], "repl": o["repl"], "intercepted": len(o["mk"])}
                                                 for o in rlines[-1]["rec"]["obs"]]})
        res.extra["intercept_after_reload"] = {"scripts": len(rlines), "successful_reloads_observed": nrel, "differ": len(rerrs),
                                               "not_run": len(rfailed)}
        if rlines and nrel == 0:
            raise ToolError("reload cases: no reload ever replaced the layout (the stepper does not reach do_live_reload)")
        log("[c11] intercept set across reloads: %d scripts, %d successful reloads observed, %d differ, %d not run" %
            (len(rlines), nrel, len(rerrs), len(rfailed)))
    guarded("R", part_R)
    lines, failed = box["lines"], box["failed"]
    return flow.finish(
        res, "model_checking",
        "TLC checks spec/KeyTables.tla over constants generated from the working tree: one state per u16 value "
        "(as_u16(from_u16(c)) = c, every KeyCode/OsCode/integer conversion keeps the value), equal discriminant sets of the "
        "two enums (parsed from the source text), every key name of str_to_oscode denotes one code in defsrc / action / "
        "deflayermap / exception list / defoverrides, nop0..9 = 0x2a4..0x2ad; with and without deflocalkeys-linux blocks (every "
        "built-in name redefined, the documented blocks, random blocks) the code a name holds in 18 configuration positions "
        "is a function of (name, block) only (T_LkPositions); one press/release of every code that has a "
        "layout column through the real stepper under unmapped / self / transparent / deflayermap configurations plus random "
        "overlapping pairs, and identity keys (unmapped / `_` / self on the base layer) under a second layer that remaps them, "
        "reached by layer-while-held / layer-toggle / layer-switch (every consistent history of <= 5 press / release / OS-repeat "
        "events of the key and the layer key, random histories): a key pressed on the base layer comes out as itself for "
        "every event while it is held (I5 sharp), traces validated by TLC against P_C11; one configuration per output path with a no-op key as the "
        "emitted key (tap words <= 3, holds, overlaps, random histories; small members explored with L1 || P_C11 and replayed), "
        "judged by P_C11 I2; Cfg.mapped_keys of random defsrc / deflayermap / "
        "process-unmapped-keys configurations compared by TLC with P_C11.Intercept; after start-up and after every step of "
        "reload scripts (all words of <= 3 file contents over {valid, valid whose reload fails late (xset), syntax error, refused, "
        "missing, original}, each followed by a tap of the lrld key) the intercepted set read from the running code equals "
        "P_C11.Intercept of the configuration in force (P_C11.ReloadBad).  distinct_nontrivial = distinct TLC states.",
        assumptions=["linux code mapping (target_os = linux build of the parser)",
                     "pseudo codes KEY_RESERVED(0), KEY_UNKNOWN(240), KEY_MAX(767) are not keys: excluded from the identity "
                     "and intercept-set requirements",
                     "undefined behaviour of the transmutes is not observable; only its precondition (equal discriminant "
                     "sets) is checked",
                     "names are taken from the string literals of str_to_oscode and its default mapping table",
                     "key-name positions not observed: zippychord dictionary / defzippy key lists, cmd-output-keys, "
                     "tap-hold-release-keys style key lists (closures), linux-unicode-u-code",
                     "names that are action keywords in a layer (mlft, mwu, ...) are not key names in action positions",
                     "(arbitrary-code n) writes the number the user gave (event kind `code`); it is not a key of kanata's code "
                     "space and I2 does not apply to it",
                     "intercept set across reloads: MAPPED_KEYS is read through the hook Kanata::verif_mapped_keys (cfg kanata_verif); "
                     "`xset` is made unavailable through PATH so that a new configuration with linux-x11-repeat-delay-rate fails in a "
                     "late step of the reload; the configuration in force is decided by ground truth (layout object replaced); "
                     "reloads are requested with the lrld action only (lrld-next / lrld-num / TCP go through the same do_live_reload)",
                     "deterministic stepper; dev-profile build of the working tree"],
        extra_cov={"tables": tables_cov, "exhaustive": True,
                   "intercept_configs": len(lines), "intercept_generator_rejected": len(failed)})
