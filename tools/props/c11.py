"""C11 - key identity: every key name and code survives the trip from config to OS output.

Part T (tables, exhaustive): the discriminant sets of KeyCode / OsCode are parsed from the source text of the
  working tree, from_u16 / as_u16 / the From conversions are called for all 65536 u16 values, every key name
  found in the source of str_to_oscode is resolved by the real function and observed in every configuration
  position through the real parser; TLC checks spec/KeyTables.tla over these generated constants.
Part I (identity pipeline): one press/release of every code through the real stepper under configurations that
  leave keys to themselves; traces validated by TLC against the P_C11 monitor.
Part S (intercept set): random defsrc / deflayermap / process-unmapped-keys lists; Cfg.mapped_keys of the real
  parser is compared by TLC with P_C11.Intercept computed from the text-level description.
"""
import re
from props.common import *
from props.c13 import par_validate, tlc_ok


# ------------------------------------------------------------------ source text
def parse_enum(path, name):
    s = open(os.path.join(REPO, path), encoding="utf-8").read()
    a = s.index("pub enum %s {" % name)
    b = s.index("\n}", a)
    out, prev = [], -1
    for line in s[a:b].splitlines()[1:]:
        line = line.split("//")[0].strip()
        if not line or line.startswith("#"):
            continue
        m = re.match(r"^(\w+)\s*(?:=\s*(0x[0-9a-fA-F]+|\d+))?\s*,?$", line)
        if not m:
            raise ToolError("cannot parse enum line in %s: %r" % (path, line))
        v = int(m.group(2), 0) if m.group(2) else prev + 1
        out.append({"n": m.group(1), "v": v})
        prev = v
    return out


def candidate_names():
    """every string literal in the default mapping table and the match arms of str_to_oscode"""
    s = open(os.path.join(REPO, "parser/src/keys/mod.rs"), encoding="utf-8").read()
    a = s.index("fn add_default_str_osc_mappings")
    b = s.index("pub enum OsCode")
    names = []
    for l in re.findall(r'"((?:[^"\\]|\\.)*)"', s[a:b]):
        n = l.replace("\\\\", "\\").replace('\\"', '"')
        if n not in names:
            names.append(n)
    return names


def quote(n):
    if re.fullmatch(r'[^\s()"]+', n) and not n.startswith(";;") and not n.startswith("#|"):
        return n
    if '"' in n:
        return None
    return '"%s"' % n


def harness_json(cmd, inp, wd, name):
    build_harness()
    fi, fo = os.path.join(wd, name + ".in.json"), os.path.join(wd, name + ".out.json")
    json.dump(inp, open(fi, "w"))
    p = sh([HARNESS, cmd, fi, fo], check=False, timeout=900)
    if p.returncode != 0:
        raise ToolError("%s failed: %s" % (cmd, (p.stdout or "")[-2000:]))
    return json.load(open(fo))


# ------------------------------------------------------------------ part T
def gather_tables(wd):
    kc = parse_enum("keyberon/src/key_code.rs", "KeyCode")
    osc = parse_enum("parser/src/keys/mod.rs", "OsCode")
    t = harness_json("c11-tables", candidate_names(), wd, "tables")
    names = t["names"]
    # the code each name denotes in every position, through the real parser
    jobs = [{"tag": ["pu", "", 0], "cfg": "(defcfg process-unmapped-keys yes)\n(defsrc)\n(deflayer l0)\n", "probe": []}]
    ovr_lines = []
    mods = set(t["modifiers"])
    A, B = 30, 48
    for e in names:
        n, c = e["n"], e["c"]
        qn = quote(n)
        if qn is None:
            continue
        jobs.append({"tag": ["src", n, c], "cfg": "(defsrc %s)\n(deflayer l0 %s)\n" % (qn, qn), "probe": [c]})
        jobs.append({"tag": ["lmap", n, c], "cfg": "(defsrc)\n(deflayermap (l0) %s %s)\n" % (qn, "b" if c != B else "a"),
                     "probe": [c]})
        jobs.append({"tag": ["exc", n, c], "cfg": "(defcfg process-unmapped-keys (all-except %s))\n(defsrc)\n(deflayer l0)\n" % qn,
                     "probe": []})
        out = "b" if c != B else "a"
        outc = B if c != B else A
        if c in mods:
            ovr_lines.append({"ovs": [], "tag": [n, c, outc], "lists": [[c, A]],
                              "cfg": "(defsrc a)\n(deflayer l0 a)\n(defoverrides (%s a) (b))\n" % qn})
        else:
            ovr_lines.append({"ovs": [], "tag": [n, c, outc], "lists": [[c]],
                              "cfg": "(defsrc a)\n(deflayer l0 a)\n(defoverrides (%s) (%s))\n" % (qn, out)})
    pr = harness_json("c11-parse", jobs, wd, "namepos")
    pos = {e["n"]: {"n": e["n"], "c": e["c"], "src": -1, "act": -1, "lmap": -1, "exc": -1, "ovr": -1} for e in names}
    pu_all = None
    nfail = 0
    for x in pr:
        kind, n, c = x["tag"]
        if not x["ok"]:
            nfail += 1
            continue
        if kind == "pu":
            pu_all = set(x["mapped"])
        elif kind in ("src", "lmap"):
            pos[n][kind] = x["mapped"][0] if len(x["mapped"]) == 1 else -2
            if kind == "src":
                a = x["l0"][str(c)]
                a = x["acts"][a] if isinstance(a, int) else a
                pos[n]["act"] = a["kc"] if a.get("t") == "key" else -2
        elif kind == "exc":
            gone = sorted(pu_all - set(x["mapped"]))
            pos[n]["exc"] = gone[0] if len(gone) == 1 else (-1 if c not in pu_all and not gone else -2)
    # defoverrides position, observed through the real override function
    inp = os.path.join(wd, "nameovr.in.ndjson")
    with open(inp, "w") as f:
        for ln in ovr_lines:
            f.write(json.dumps(ln) + "\n")
    outp = os.path.join(wd, "nameovr.out.ndjson")
    p = sh([HARNESS, "ovr-eval", inp, outp], check=False, timeout=600)
    if p.returncode != 0:
        raise ToolError("ovr-eval failed: " + (p.stdout or ""))
    for line in open(outp):
        d = json.loads(line)
        n, c, outc = d["tag"]
        if "err" in d:
            nfail += 1
            continue
        pos[n]["ovr"] = c if d["real"] == [[outc]] else -2
    return {"kc": kc, "osc": osc, "t": t, "pos": list(pos.values()), "pu_all": sorted(pu_all), "parse_failures": nfail}


MC_T = r"""---- MODULE MC_C11T ----
EXTENDS KeyTables
KcEnumDef == %(kc)s
OscEnumDef == %(osc)s
FromFnDef == %(fromfn)s
NoneCountDef == %(none)d
ConvFnDef == %(conv)s
NamesDef == %(names)s
NamePosDef == %(pos)s
====
"""
CFG_T = """CONSTANT KcEnum <- KcEnumDef
CONSTANT OscEnum <- OscEnumDef
CONSTANT FromFn <- FromFnDef
CONSTANT NoneCount <- NoneCountDef
CONSTANT ConvFn <- ConvFnDef
CONSTANT Names <- NamesDef
CONSTANT NamePos <- NamePosDef
INIT TInit
NEXT TNext
INVARIANT GlobalProbe
INVARIANT CodeProbe
CHECK_DEADLOCK FALSE
"""


def check_tables(wd, g):
    t = g["t"]
    conv = {str(r["c"]): {k: r[k] for k in r if k != "c"} for r in t["conv"]}
    text = MC_T % dict(kc=tla_val(g["kc"]), osc=tla_val(g["osc"]),
                       fromfn=tla_val({str(c): v for c, v in t["from"]}, "intmap"), none=t["none_count"],
                       conv=tla_val(conv, "intmap"), names=tla_val(t["names"]), pos=tla_val(g["pos"]))
    open(os.path.join(wd, "MC_C11T.tla"), "w", encoding="utf-8").write(text)
    open(os.path.join(wd, "MC_C11T.cfg"), "w").write(CFG_T)
    r = run_tlc(wd, "MC_C11T", workers=2, timeout=900, heap="4g")
    tlc_ok(r, "MC_C11T")
    terr, tnote = os.path.join(wd, "c11t.terr.ndjson"), os.path.join(wd, "c11t.tnote.ndjson")
    extract_prints(r["out"], "TERR", terr)
    extract_prints(r["out"], "TNOTE", tnote)
    errs = [json.loads(x) for x in open(terr) if x.strip()]
    notes = [json.loads(x) for x in open(tnote) if x.strip()]
    return r, errs, (notes[0] if notes else {})


# ------------------------------------------------------------------ part I
BTN = [("mlft", "Left"), ("mrgt", "Right"), ("mmid", "Mid"), ("mbck", "Backward"), ("mfwd", "Forward")]
WHEEL = [("mwu", "Up,120"), ("mwd", "Down,120"), ("mwl", "Left,120"), ("mwr", "Right,120")]


def identity_jobs(tier, rng, g):
    t = g["t"]
    code_of = {e["n"]: e["c"] for e in t["names"]}
    osc_by_name = {e["n"]: e["v"] for e in g["osc"]}
    pseudo = [osc_by_name[n] for n in ("KEY_RESERVED", "KEY_UNKNOWN", "KEY_MAX") if n in osc_by_name]
    params = {"btn": [{"c": code_of[n], "b": b} for n, b in BTN], "wheel": [{"c": code_of[n], "s": s} for n, s in WHEEL],
              "pseudo": pseudo}
    keys_in_row = t["keys_in_row"]
    dom = [c for c, _ in t["from"] if c < keys_in_row]          # codes that have a column in the layout
    # one plain name per named code
    by_code = {}
    for e in t["names"]:
        qn = quote(e["n"])
        if qn and (e["c"] not in by_code or (len(qn) < len(by_code[e["c"]]) and qn.isascii())):
            by_code[e["c"]] = qn
    named = sorted(by_code)
    src = " ".join(by_code[c] for c in named)

    def press(c):
        # with two OS auto-repeat events while the key is held (the no-op codes must stay silent on this path too)
        return [["d", c], ["t", 2], ["r", c], ["r", c], ["t", 1], ["u", c], ["t", 2]]
    V = [("unmapped", "(defcfg process-unmapped-keys yes)\n(defsrc)\n(deflayer l0)\n", dom),
         ("self", "(defcfg process-unmapped-keys yes)\n(defsrc %s)\n(deflayer l0 %s)\n" % (src, src), dom),
         ("trans", "(defsrc %s)\n(deflayer l0 %s)\n" % (src, " ".join("_" for _ in named)), named),
         ("lmap", "(defsrc)\n(deflayermap (l0) %s)\n" % " ".join("%s %s" % (by_code[c], by_code[c]) for c in named), named)]
    if tier == "thorough":
        V.append(("two_layers", "(defcfg process-unmapped-keys yes)\n(defsrc %s)\n(deflayer l0 %s)\n(deflayer l1 %s)\n" %
                  (src, " ".join("_" for _ in named), src), dom))
        V.append(("lmap_unmapped", "(defcfg process-unmapped-keys yes)\n(defsrc)\n(deflayermap (l0) %s)\n" %
                  " ".join("%s _" % by_code[c] for c in named), dom))
    jobs = []
    for name, cfg, codes in V:
        scripts = [press(c) for c in codes]
        # overlapping presses of random pairs (identity must not depend on what else is held)
        real = [c for c in codes if c not in pseudo]
        for _ in range(150 if tier == "quick" else 1500):
            a, b = rng.sample(real, 2)
            scripts.append([["d", a], ["t", 1], ["d", b], ["t", 1], ["u", a], ["u", b], ["t", 3]])
        jobs.append({"cfg": cfg, "params": params, "tag": name, "scripts": scripts})
    return jobs, params


# ------------------------------------------------------------------ part S
MC_S = r"""---- MODULE MC_C11S ----
EXTENDS Naturals, Sequences, FiniteSets, TLC, Json, IOUtils
P == INSTANCE P_C11
Known == %(known)s
PseudoDef == %(pseudo)s
Rec == ndJsonDeserialize(IOEnv.CASES)
VARIABLES l, ph
ToSet(s) == {s[i] : i \in DOMAIN s}
CheckLine(j) ==
  LET r == Rec[j]
      spec == P!Intercept(r.q, Known) \ PseudoDef
      real == ToSet(r.mapped) \ PseudoDef
  IN IF real = spec THEN TRUE
     ELSE PrintT(<<"VERR", ToJson([line |-> j, missing |-> spec \ real, extra |-> real \ spec])>>)
Init == l = 0 /\ ph = 0
Next == \/ ph = 0 /\ l = 0 /\ \E j \in DOMAIN Rec : l' = j /\ ph' = 0
        \/ ph = 0 /\ l > 0 /\ CheckLine(l) /\ ph' = 1 /\ l' = l
Done == TLCGet("distinct") = 2 * Len(Rec) + 1
====
"""


def intercept_cases(tier, rng, g):
    t = g["t"]
    names = [(quote(e["n"]), e["c"]) for e in t["names"] if quote(e["n"])]
    cases = []
    n = 400 if tier == "quick" else 6000
    for i in range(n):
        pool = list(names)
        rng.shuffle(pool)
        seen, defsrc, lmap, exc = set(), [], [], []
        for qn, c in pool[:rng.choice([0, 1, 3, 10, 40, 120])]:
            if c not in seen:
                seen.add(c)
                defsrc.append((qn, c))
        lseen = set()
        for qn, c in rng.sample(names, rng.choice([0, 0, 1, 4, 12])):
            if c not in lseen:
                lseen.add(c)
                lmap.append((qn, c))
        pu = rng.choice(["absent", "yes", "no", "except", "except"])
        if pu == "except":
            eseen = set()
            for qn, c in rng.sample(names, rng.choice([1, 2, 5, 20])):
                # a listed exception may not be in defsrc (parser error); it may be a deflayermap input
                if c not in seen and c not in eseen:
                    eseen.add(c)
                    exc.append((qn, c))
            if not exc:
                pu = "yes"
        cfg = ""
        if pu == "except":
            cfg += "(defcfg process-unmapped-keys (all-except %s))\n" % " ".join(q for q, _ in exc)
        elif pu != "absent":
            cfg += "(defcfg process-unmapped-keys %s)\n" % pu
        cfg += "(defsrc %s)\n(deflayer l0 %s)\n" % (" ".join(q for q, _ in defsrc), " ".join(q for q, _ in defsrc))
        if lmap:
            cfg += "(deflayermap (l1) %s)\n" % " ".join("%s %s" % (q, rng.choice(["a", "_", "XX", q])) for q, _ in lmap)
        q = {"defsrc": [c for _, c in defsrc], "lmap": [c for _, c in lmap], "pu": pu in ("yes", "except"),
             "exc": [c for _, c in exc]}
        cases.append({"tag": i, "cfg": cfg, "probe": [], "q": q})
    return cases


def check_intercept(wd, cases, g, name="c11s"):
    pr = harness_json("c11-parse", [{"tag": c["tag"], "cfg": c["cfg"], "probe": []} for c in cases], wd, name)
    lines, failed = [], []
    for c, x in zip(cases, pr):
        if not x["ok"]:
            failed.append((c, x["err"]))
            continue
        lines.append({"q": c["q"], "mapped": x["mapped"], "cfg": c["cfg"]})
    if len(failed) > len(cases) // 10:
        raise ToolError("intercept generator: %d of %d configurations rejected, e.g. %s" %
                        (len(failed), len(cases), failed[0][1][:300]))
    f = os.path.join(wd, name + ".cases.ndjson")
    with open(f, "w") as fh:
        for ln in lines:
            fh.write(json.dumps({"q": ln["q"], "mapped": ln["mapped"]}) + "\n")
    osc_by_name = {e["n"]: e["v"] for e in g["osc"]}
    pseudo = {osc_by_name[n] for n in ("KEY_RESERVED", "KEY_UNKNOWN", "KEY_MAX") if n in osc_by_name}
    known = {c for c, _ in g["t"]["from"]} - pseudo
    mod = "MC_C11S"
    open(os.path.join(wd, mod + ".tla"), "w").write(MC_S % dict(known=tla_val(known), pseudo=tla_val(pseudo)))
    open(os.path.join(wd, mod + ".cfg"), "w").write("INIT Init\nNEXT Next\nCHECK_DEADLOCK FALSE\nPOSTCONDITION Done\n")
    r = run_tlc(wd, mod, workers=min(NCPU, 8), timeout=900, heap="4g", env_extra={"CASES": os.path.abspath(f)})
    tlc_ok(r, mod)
    ve = os.path.join(wd, name + ".verr.ndjson")
    extract_prints(r["out"], "VERR", ve)
    errs = [json.loads(x) for x in open(ve) if x.strip()]
    for e in errs:
        e["case"] = lines[e["line"] - 1]
    return r, errs, lines, failed


def replay(r, path, wd):
    g = gather_tables(wd)
    if r["kind"] == "c11tables":
        _, errs, note = check_tables(wd, g)
        for e in errs:
            print("REJECTED: %s" % json.dumps(e)[:400])
        if errs:
            print("VIOLATION property=%s replay=%s" % (r["property"], path))
            return 1
        print("accepted by KeyTables")
        return 0
    _, errs, lines, failed = check_intercept(wd, [{"tag": 0, "cfg": r["cfg"], "probe": [], "q": r["q"]}], g, "c11s_replay")
    if failed:
        print("configuration rejected by the parser: %s" % failed[0][1])
        return 0
    print(r["cfg"])
    print("mapped_keys: %s" % lines[0]["mapped"])
    for e in errs:
        print("REJECTED: intercept set differs from the statement: missing %s extra %s" % (e["missing"], e["extra"]))
    if errs:
        print("VIOLATION property=%s replay=%s" % (r["property"], path))
        return 1
    print("accepted by P_C11.Intercept")
    return 0


def run(tier, seed):
    pid = "C11"
    res = flow.Result(pid, tier, seed)
    rng = random.Random(seed)
    wd = workdir("c11")
    # ---- part T
    g = gather_tables(wd)
    r, terrs, note = check_tables(wd, g)
    res.states += r["distinct"] or 0
    res.transitions += r["generated"] or 0
    for e in terrs[:10]:
        flow.classify(res, pid, e["req"], "C11 T: " + json.dumps(e)[:600],
                      {"property": pid, "kind": "c11tables", "err": e}, "tables_%d" % len(res.violations))
    t = g["t"]
    tables_cov = {"u16_values_checked": 65536, "from_u16_some": len(t["from"]), "from_u16_none": t["none_count"],
                  "keycode_variants": len(g["kc"]), "oscode_variants": len(g["osc"]),
                  "candidate_names": len(t["names"]) + len(t["rejected"]), "accepted_names": len(t["names"]),
                  "name_positions_observed": sum(1 for p in g["pos"] for k in ("src", "act", "lmap", "exc", "ovr") if p[k] >= 0),
                  "name_position_parse_failures": g["parse_failures"],
                  "enum_values_unreachable_by_from_u16": note.get("unreachable", []),
                  "pseudo_codes": note.get("pseudo", []), "requirement_failures": len(terrs)}
    log("[c11] tables: %d states, %d requirement failures, %d names, unreachable %s" %
        (r["distinct"], len(terrs), len(t["names"]), note.get("unreachable")))
    if note.get("unreachable"):
        res.notes.append("soft probe: OsCode variants %s have no from_u16 entry (from_u16 is not onto the enum); "
                         "they cannot enter or leave kanata, nothing observable depends on them" % note["unreachable"])
    res.samples.append({"name_positions": g["pos"][0], "conv": t["conv"][30]})
    # ---- part I
    jobs, params = identity_jobs(tier, rng, g)
    jobs = shard_local_index(jobs)
    errs = par_validate(res, "P_C11", jobs, wd, "c11_id", 6 if tier == "quick" else 10)
    for e in sorted(errs, key=lambda e: e["job"])[:20]:
        j, s = script_of(jobs, e["job"], 0)
        flow.classify(res, pid, e["err"], e["err"] + " script=" + json.dumps(s) + " cfg=" + j["cfg"][:200],
                      {"property": pid, "cfg": j["cfg"], "params": j["params"], "script": s, "err": e["err"],
                       "monitor": "P_C11"}, "id_%d" % len(res.violations))
    res.samples.append({"identity_script": jobs[30]["scripts"][0], "cfg": jobs[30]["cfg"][:200]})
    log("[c11] identity: %d scripts, %d rejected" % (len(jobs), len(errs)))
    # ---- part S
    cases = intercept_cases(tier, rng, g)
    rs, serrs, lines, failed = check_intercept(wd, cases, g)
    res.states += rs["distinct"] or 0
    res.transitions += rs["generated"] or 0
    res.traces_validated += len(lines)
    for e in serrs[:10]:
        desc = "C11 S: intercept set differs from the statement: missing %s extra %s" % (e["missing"][:10], e["extra"][:10])
        flow.classify(res, pid, desc, desc + " cfg=" + e["case"]["cfg"][:300],
                      {"property": pid, "kind": "c11intercept", "cfg": e["case"]["cfg"], "q": e["case"]["q"], "err": desc},
                      "intercept_%d" % len(res.violations))
    if lines:
        res.samples.append({"intercept_cfg": lines[0]["cfg"][:300], "q": {k: (v[:8] if isinstance(v, list) else v)
                                                                          for k, v in lines[0]["q"].items()},
                            "mapped_keys_size": len(lines[0]["mapped"])})
    log("[c11] intercept: %d configurations compared, %d differ, %d rejected by the parser" %
        (len(lines), len(serrs), len(failed)))
    return flow.finish(
        res, "model_checking",
        "TLC checks spec/KeyTables.tla over constants generated from the working tree: one state per u16 value "
        "(as_u16(from_u16(c)) = c, every KeyCode/OsCode/integer conversion keeps the value), equal discriminant sets of the "
        "two enums (parsed from the source text), every key name of str_to_oscode denotes one code in defsrc / action / "
        "deflayermap / exception list / defoverrides, nop0..9 = 0x2a4..0x2ad; one press/release of every code that has a "
        "layout column through the real stepper under unmapped / self / transparent / deflayermap configurations plus random "
        "overlapping pairs, traces validated by TLC against P_C11; Cfg.mapped_keys of random defsrc / deflayermap / "
        "process-unmapped-keys configurations compared by TLC with P_C11.Intercept.  distinct_nontrivial = distinct TLC states.",
        assumptions=["linux code mapping (target_os = linux build of the parser)",
                     "pseudo codes KEY_RESERVED(0), KEY_UNKNOWN(240), KEY_MAX(767) are not keys: excluded from the identity "
                     "and intercept-set requirements",
                     "undefined behaviour of the transmutes is not observable; only its precondition (equal discriminant "
                     "sets) is checked",
                     "names are taken from the string literals of str_to_oscode and its default mapping table",
                     "deterministic stepper; dev-profile build of the working tree"],
        extra_cov={"tables": tables_cov, "exhaustive": True,
                   "intercept_configs": len(lines), "intercept_generator_rejected": len(failed)})
