"""C12 - sequences: accepted defseq tables are unambiguous; a typed sequence fires its key once.

Part 1 (parser, translation validation; spec/SeqTab.tla):
  TLC enumerates defseq tables over a small item alphabet, evaluates the documented meaning
  (StEncode: every permitted way of typing a definition; StAccepts <=> prefix-free + arity rules),
  checks the modelled insertion procedure of parse_sequences against it (StParseCorrect) and prints
  one line per table; `kverif seq-tables` gives the rendered text of every table to the real parser
  and reports accept/reject and the trie contents; every disagreement (and a sample of agreements)
  is judged by TLC with SeqTab!StJudge.  VIOLATION only if the real parser accepts a table that the
  statement forbids (or builds a trie that is not prefix-free).
Part 2 (run time; spec/SeqMode.tla = L1 of src/kanata/sequences.rs, integrated in Kanata.tla behind
  Opts.seqtrie; spec/P_C12.tla = monitor):  see run_time() below.
"""
import itertools, threading
from props.common import *

PID = "C12"
C = cfgdesc.code


# ------------------------------------------------------------------ part 1: tables
def K(n):
    return {"t": "k", "c": C(n)}


def M(mods, ks):
    return {"t": "m", "mods": [C(m) for m in mods], "ks": [C(k) for k in ks]}


def O(ks):
    return {"t": "o", "ks": [C(k) for k in ks]}


INV = None


def kname(c):
    global INV
    if INV is None:
        INV = {}
        for n, cc in cfgdesc.keytable()["names"].items():
            INV.setdefault(cc, n)
    return INV[c]


PFX = {"lsft": "S-", "lctl": "C-", "lalt": "A-", "lmet": "M-", "ralt": "AG-"}


def item_text(it):
    if it["t"] == "k":
        return kname(it["c"])
    if it["t"] == "m":
        p = "".join(PFX[kname(m)] for m in it["mods"])
        ks = [kname(k) for k in it["ks"]]
        return p + (ks[0] if len(ks) == 1 else "(" + " ".join(ks) + ")")
    return "O-(" + " ".join(kname(k) for k in it["ks"]) + ")"


def def_text(d):
    return "(" + " ".join(item_text(i) for i in d) + ")"


TAB_PRE = "(defsrc a)\n(deflayer l0 a)\n(defvirtualkeys v1 x v2 y v3 z)\n"


def table_cfg(defs):
    return TAB_PRE + "".join("(defseq v%d %s)\n" % (i + 1, def_text(d)) for i, d in enumerate(defs))


def alphabet(tier):
    return [K("a"), K("b"), M(["lsft"], ["a"]), M(["lsft"], ["a", "b"]), O(["a", "b"]), O(["a", "b", "c"])]


def all_defs(items, maxlen):
    out = []
    for n in range(1, maxlen + 1):
        for p in itertools.product(items, repeat=n):
            out.append(list(p))
    return out


MC_T = r"""---- MODULE %(mod)s ----
EXTENDS Naturals, Sequences, FiniteSets, TLC, Json
T == INSTANCE SeqTab
DefsDef == %(defs)s
Extra == %(extra)s
VARIABLES t, ph
Tab(tt) == [n \in DOMAIN tt |-> DefsDef[tt[n]]]
Check(tt) ==
  LET table == Tab(tt)
      acc == T!StAccepts(table)
  IN /\ PrintT(<<"CASE", ToJson([t |-> tt, acc |-> acc, keys |-> IF acc THEN T!StKeys(table) ELSE {}])>>)
     /\ (IF T!StParseCorrect(table) THEN TRUE ELSE PrintT(<<"DCEX", ToJson([t |-> tt])>>))
Init == t = <<>> /\ ph = 0
Plans == %(plans)s
Next == \/ /\ ph = 0 /\ t = <<>> /\ ph' = 0
           /\ \/ \E p \in DOMAIN Plans : \E n \in 1..Plans[p].n : \E tt \in [1..n -> Plans[p].idx] : t' = tt
              \/ \E i \in DOMAIN Extra : t' = Extra[i]
        \/ ph = 0 /\ t # <<>> /\ Check(t) /\ ph' = 1 /\ t' = t
====
"""

MC_J = r"""---- MODULE %(mod)s ----
EXTENDS Naturals, Sequences, FiniteSets, TLC, Json, IOUtils
T == INSTANCE SeqTab
Rec == ndJsonDeserialize(IOEnv.CASES)
VARIABLES l, ph
CheckLine(j) == PrintT(<<"JUDGE", ToJson([line |-> j, v |-> T!StJudge(Rec[j].table, Rec[j].real)])>>)
Init == l = 0 /\ ph = 0
Next == \/ ph = 0 /\ l = 0 /\ \E j \in 1..Len(Rec) : l' = j /\ ph' = 0
        \/ ph = 0 /\ l > 0 /\ CheckLine(l) /\ ph' = 1 /\ l' = l
Done == TLCGet("distinct") = 2 * Len(Rec) + 1
====
"""
CFG_T = "INIT Init\nNEXT Next\nCHECK_DEADLOCK FALSE\n"
CFG_J = "INIT Init\nNEXT Next\nCHECK_DEADLOCK FALSE\nPOSTCONDITION Done\n"


def tlc_ok(r, what):
    if r["rc"] == 124:
        raise ToolError("TLC timed out on %s" % what)
    txt = open(r["out"], errors="replace").read()
    if r["rc"] != 0 or "Model checking completed. No error" not in txt:
        raise ToolError("TLC failed on %s: %s (see %s)" % (what, r["error"], r["out"]))


def real_tables(wd, name, defs_text, lines, pre=TAB_PRE):
    """`kverif seq-tables` on table lines ({"t":[..]} | {"cfg":..}); returns the list of result dicts in order."""
    build_harness()
    uni = os.path.join(wd, name + ".uni.json")
    json.dump({"defs": defs_text, "pre": pre}, open(uni, "w"))
    nsh = max(1, min(NCPU, 8, len(lines) // 2000 + 1))
    procs = []
    for i in range(nsh):
        part = os.path.join(wd, "%s.tab%d.ndjson" % (name, i))
        with open(part, "w") as f:
            f.write("\n".join(json.dumps(x) for x in lines[i::nsh]) + "\n")
        procs.append((subprocess.Popen([HARNESS, "seq-tables", uni, part, part + ".res"], stdout=subprocess.PIPE,
                                       stderr=subprocess.STDOUT, text=True), part))
    out = [None] * len(lines)
    for i, (p, part) in enumerate(procs):
        so, _ = p.communicate(timeout=3000)
        if p.returncode != 0:
            raise ToolError("seq-tables failed: " + (so or ""))
        rs = [json.loads(x) for x in open(part + ".res") if x.strip()]
        if len(rs) != len(lines[i::nsh]):
            raise ToolError("seq-tables: %d results for %d tables" % (len(rs), len(lines[i::nsh])))
        out[i::nsh] = rs
        os.remove(part)
        os.remove(part + ".res")
    return out


def judge_tables(wd, name, cases):
    """cases: [{"table": [[item..]..], "real": {"ok", "keys":[{"k","v"}]}}]; TLC evaluates SeqTab!StJudge on each.
    Returns the list of verdict strings in order."""
    if not cases:
        return []
    mod = "MC_C12J_" + name
    with open(os.path.join(wd, mod + ".tla"), "w") as f:
        f.write(MC_J % dict(mod=mod))
    with open(os.path.join(wd, mod + ".cfg"), "w") as f:
        f.write(CFG_J)
    cf = os.path.join(wd, mod + ".cases.ndjson")
    with open(cf, "w") as f:
        for c in cases:
            f.write(json.dumps({"table": c["table"],
                                "real": {"ok": bool(c["real"]["ok"]),
                                         "keys": [{"k": e["k"], "v": e["v"]} for e in c["real"].get("keys", [])]}}) + "\n")
    r = run_tlc(wd, mod, workers=4, timeout=900, heap="4g", env_extra={"CASES": os.path.abspath(cf)})
    tlc_ok(r, mod)
    jf = os.path.join(wd, mod + ".judge.ndjson")
    extract_prints(r["out"], "JUDGE", jf)
    v = {}
    for line in open(jf):
        d = json.loads(line)
        v[d["line"]] = d["v"]
    if len(v) != len(cases):
        raise ToolError("%s: %d verdicts for %d cases" % (mod, len(v), len(cases)))
    return [v[i + 1] for i in range(len(cases))]


def norm_keys(keys):
    return sorted((tuple(e["k"]), e["v"]) for e in keys)


def tables_level(res, wd, name, defs, plans, extra, stats):
    """One TLC enumeration over the definition list `defs`: for every plan (n, idx) all tables of <= n definitions
    taken from defs[idx] (1-based index sets), plus the `extra` index tuples."""
    mod = "MC_C12T_" + name
    with open(os.path.join(wd, mod + ".tla"), "w") as f:
        f.write(MC_T % dict(mod=mod, defs=tla_val(defs), extra=tla_val(extra),
                            plans=tla_val([{"n": n, "idx": set(idx)} for n, idx in plans])))
    with open(os.path.join(wd, mod + ".cfg"), "w") as f:
        f.write(CFG_T)
    r = run_tlc(wd, mod, workers=8, timeout=1700, heap="6g")
    tlc_ok(r, mod)
    cf = os.path.join(wd, mod + ".cases.ndjson")
    extract_prints(r["out"], "CASE", cf)
    ndcex = extract_prints(r["out"], "DCEX", os.path.join(wd, mod + ".dcex.ndjson"))
    os.remove(r["out"])
    exp = [json.loads(x) for x in open(cf)]
    os.remove(cf)
    want = set(tuple(e) for e in extra)
    for n, idx in plans:
        for k in range(1, n + 1):
            want.update(itertools.product(idx, repeat=k))
    if set(tuple(e["t"]) for e in exp) != want:
        raise ToolError("%s: TLC exported %d tables, expected %d" % (mod, len(exp), len(want)))
    res.states += r["distinct"] or 0
    res.transitions += r["generated"] or 0
    if ndcex:
        res.notes.append("design-level: the modelled insertion procedure differs from StAccepts on %d tables of level %s" % (ndcex, name))
    dtext = [def_text(d) for d in defs]
    real = real_tables(wd, "c12_" + name, dtext, [{"t": e["t"]} for e in exp])
    to_judge = []
    for e, rr in zip(exp, real):
        stats["tables"] += 1
        stats["accepted_by_spec"] += 1 if e["acc"] else 0
        stats["accepted_by_parser"] += 1 if rr["ok"] else 0
        agree = (e["acc"] == rr["ok"]) and (not e["acc"] or norm_keys(e["keys"]) == norm_keys(rr["keys"])) \
            and not rr.get("probe_bad") and not rr.get("panic")
        if agree:
            stats["agree"] += 1
            if e["acc"]:
                stats["trie_keys_compared"] += len(e["keys"])
        if not agree or stats["tables"] % 997 == 0:
            to_judge.append({"table": [defs[i - 1] for i in e["t"]], "real": rr, "t": e["t"], "level": name})
    log("[c12] tables level %s: %d tables (%d defs), TLC %.0fs, model-vs-spec cex %d, to judge %d" %
        (name, len(exp), len(defs), r["wall_s"], ndcex, len(to_judge)))
    return to_judge, len(exp), ndcex


def part1(res, tier, rng, wd):
    stats = {"tables": 0, "accepted_by_spec": 0, "accepted_by_parser": 0, "agree": 0, "trie_keys_compared": 0,
             "judged_by_tlc": 0, "rejected_unambiguous": 0, "arity_notes": 0, "trie_drift": 0}
    items = alphabet(tier)
    small = [items[0], items[1], items[2], items[4]]          # a, b, S-a, O-(a b)
    to_judge = []
    levels = []
    d2 = all_defs(items, 2)
    i2 = list(range(1, len(d2) + 1))
    isub = [i + 1 for i, d in enumerate(d2) if all(it in small for it in d)]
    if tier == "quick":
        # every pair of definitions of <= 2 items; every triple over the 4-item sub-alphabet
        plan = [("quick", d2, [(2, i2), (3, isub)], [],
                 "all tables of <=2 definitions of <=2 items over the 6-item alphabet; all tables of <=3 definitions of "
                 "<=2 items over {a, b, S-a, O-(a b)}")]
    else:
        d3 = all_defs(items, 3)
        n3 = len(d3)
        extra = [[rng.randint(1, n3), rng.randint(1, n3), rng.randint(1, n3)] for _ in range(60000)]
        plan = [("l2d3", d2, [(3, i2)], [], "all tables of <=3 definitions of <=2 items over the 6-item alphabet"),
                ("l3d2", d3, [(2, list(range(1, n3 + 1)))], extra,
                 "all tables of <=2 definitions of <=3 items; 60000 seeded tables of 3 definitions of <=3 items")]
    for name, defs, plans, extra, what in plan:
        tj, n, ndcex = tables_level(res, wd, name, defs, plans, extra, stats)
        to_judge += tj
        levels.append({"name": name, "items": [item_text(i) for i in items], "what": what,
                       "extra_sampled_tables": len(extra), "tables": n, "model_vs_spec_cex": ndcex})
    # arity rules and larger groups: a handful of hand-listed tables, judged the same way
    big = [K(k) for k in "abcdefg"]
    special = [
        [[O(["a"])]], [[O(["a", "b", "c", "d", "e", "f"])]], [[O(["a", "b", "c", "d", "e", "f", "g"])]],
        [[O(["a", "b", "c", "d"]), K("e")], [K("d"), K("c")]],
        [[O(["a", "b", "c", "d"])], [O(["c", "d"]), K("a")]],
        [[O(["a", "b"]), O(["c", "d"])], [O(["b", "a"]), O(["d", "c"]), K("a")]],
        [[O(["a", "b"]), O(["c", "d"])], [O(["b", "a"]), K("c")]],
        [[M(["lctl", "lsft"], ["a"])], [M(["lctl"], ["a"])], [M(["lsft"], ["a"])]],
        [[M(["lctl", "lsft"], ["a"])], [M(["lctl"], ["lsft"])]],
        [[K("lsft"), K("a")], [M(["lsft"], ["a"])]],
        [[O(["a", "a"])]],
    ]
    sp_real = real_tables(wd, "c12_special", [], [{"cfg": table_cfg(t)} for t in special])
    for t, rr in zip(special, sp_real):
        stats["tables"] += 1
        stats["accepted_by_parser"] += 1 if rr["ok"] else 0
        to_judge.append({"table": t, "real": rr, "t": None, "level": "special"})
    # TLC judges (bounded chunks)
    nviol = 0
    for ci in range(0, len(to_judge), 1500):
        chunk = to_judge[ci:ci + 1500]
        verdicts = judge_tables(wd, "j%d" % (ci // 1500), chunk)
        for c, v in zip(chunk, verdicts):
            stats["judged_by_tlc"] += 1
            cfg = table_cfg(c["table"])
            if c["real"].get("panic"):
                v = "V:C12: the parser panicked on a defseq table: " + c["real"]["panic"]
            if c["real"].get("probe_bad") and not v.startswith("V:"):
                v = "D:get_or_descendant_exists disagrees with the dumped trie contents"
            if v.startswith("V:"):
                nviol += 1
                if len(res.violations) < 12:
                    flow.classify(res, PID, v[2:], v[2:] + " table=" + " ".join(def_text(d) for d in c["table"]),
                                  {"property": PID, "kind": "c12table", "table": c["table"], "cfg": cfg, "err": v[2:]},
                                  "table_%d" % len(res.violations))
            elif v.startswith("N:"):
                if "rejected" in v:
                    stats["rejected_unambiguous"] += 1
                    if stats["rejected_unambiguous"] <= 3:
                        res.notes.append("note (not forbidden by the statement): the parser rejects the unambiguous table %s: %s" %
                                         (" ".join(def_text(d) for d in c["table"]), (c["real"].get("err") or "")[-160:]))
                else:
                    stats["arity_notes"] += 1
                    res.notes.append("note: %s: %s" % (v[2:], " ".join(def_text(d) for d in c["table"])))
            elif v.startswith("D:"):
                stats["trie_drift"] += 1
                res.drift += 1
                if stats["trie_drift"] <= 3:
                    res.notes.append("model drift (part 1): %s: %s" % (v[2:], " ".join(def_text(d) for d in c["table"])))
    stats["violating_tables"] = nviol
    res.traces_validated += stats["tables"]
    ex = to_judge[0] if to_judge else None
    if ex:
        res.samples.append({"table": " ".join(def_text(d) for d in ex["table"]), "parser_accepts": ex["real"]["ok"],
                            "trie": ex["real"].get("keys", [])[:6]})
    return stats, levels


def replay_table(r, path, wd):
    """./check replay for kind c12table: the table goes through the real parser again and is judged by TLC."""
    print(r["cfg"])
    rr = real_tables(wd, "c12_replay", [], [{"cfg": r["cfg"]}])[0]
    print("parser: %s %s" % ("accepts" if rr["ok"] else "rejects", json.dumps(rr.get("keys") or rr.get("err") or rr.get("panic"))[:600]))
    v = judge_tables(wd, "replay", [{"table": r["table"], "real": rr}])[0]
    if rr.get("panic"):
        v = "V:panic " + rr["panic"]
    if v.startswith("V:"):
        print("REJECTED: %s" % v[2:])
        print("VIOLATION property=%s replay=%s" % (r["property"], path))
        return 1
    print("accepted by SeqTab!StJudge (%s)" % (v or "agrees with the specification"))
    return 0


# ------------------------------------------------------------------ part 2: run time
VK_OUT = ["x", "y", "z"]


def seq_instance(name, defs, mode, T=3, always=False, leader=True, keys=("a", "b"), modcancel=True, qmax=2, bound=None):
    """defs: list of item lists (definition i -> virtual key v<i+1> -> output key VK_OUT[i])."""
    ks = (["l"] if leader else []) + list(keys)
    layer = {k: {"t": "key", "k": k} for k in keys}
    if leader:
        layer["l"] = {"t": "raw", "text": "sldr"}
    dc = {"sequence-timeout": T, "sequence-input-mode": mode}
    if always:
        dc["sequence-always-on"] = "yes"
    if not modcancel:
        dc["sequence-backtrack-modcancel"] = "no"
    extra = ["(defvirtualkeys " + " ".join("v%d %s" % (i + 1, VK_OUT[i]) for i in range(len(defs))) + ")",
             "(defseq " + " ".join("v%d %s" % (i + 1, def_text(d)) for i, d in enumerate(defs)) + ")"]
    desc = {"keys": ks, "layers": [layer], "defcfg": dc, "extra": extra}
    kbd = cfgdesc.render_kbd(desc)
    params = {"ldr": C("l") if leader else 0, "T": T, "mode": mode, "always": bool(always),
              "defs": [{"items": d, "out": C(VK_OUT[i])} for i, d in enumerate(defs)],
              "keys": [C(k) for k in keys]}
    maxlen = max(sum(1 if it["t"] == "k" else len(it["ks"]) + len(it.get("mods", [])) for it in d) for d in defs)
    b = bound if bound is not None else maxlen + 1
    inst = {"name": "c12_" + name, "kbd": kbd, "keys": [C(k) for k in ks], "qmax": qmax,
            "monitor": {"module": "P_C12", "params": params},
            "constraint": "SeqBound", "extra_defs": "SeqBound == Len(K.sq.raw) <= %d" % b}
    return inst, params, kbd


A, B, Cc = "a", "b", "c"


def family(tier):
    ab = [K("a"), K("b")]
    oab = [O(["a", "b"])]
    fam = [
        ("hs_ab_oab", [ab, oab], "hidden-suppressed", {}),
        ("hd_ab_ba", [ab, [K("b"), K("a")]], "hidden-delay-type", {}),
        ("vb_ab_oab", [ab, oab], "visible-backspaced", {}),
        ("hd_on_ab_bba", [ab, [K("b"), K("b"), K("a")]], "hidden-delay-type", {"always": True, "leader": False}),
        ("vb_sa", [[M(["lsft"], ["a"])], [K("a"), K("lsft")]], "visible-backspaced", {"keys": ("lsft", "a")}),
    ]
    if tier != "quick":
        fam += [
            ("hs_oab_c", [[O(["a", "b"]), K("c")], [K("c"), K("a")]], "hidden-suppressed", {"keys": ("a", "b", "c")}),
            ("vb_on_ab", [ab, [K("b"), K("b")]], "visible-backspaced", {"always": True, "leader": False}),
            ("hs_on_ab", [ab, [K("b"), K("b")]], "hidden-suppressed", {"always": True, "leader": False}),
            ("hd_sab", [[M(["lsft"], ["a", "b"])], [K("lsft"), K("b")]], "hidden-delay-type",
             {"keys": ("lsft", "a", "b"), "modcancel": False}),
            ("hs_T1", [ab], "hidden-suppressed", {"T": 1}),
            ("hd_T2", [ab, oab], "hidden-delay-type", {"T": 2}),
            ("vb_abc", [[K("a"), K("b"), K("c")], [K("b"), K("c")]], "visible-backspaced", {"keys": ("a", "b", "c")}),
        ]
    out = []
    for name, defs, mode, kw in fam:
        out.append((name,) + seq_instance(name, defs, mode, **kw))
    return out


def run_time(res, tier, rng, wd):
    jobs_random, witness_jobs = [], []
    for name, inst, params, kbd in family(tier):
        r = mc.check_instance(inst, wd, workers=8, timeout=1500)
        res.add_instance(r)
        log("[c12] instance %s: %d states, %d edges replayed, drift %d, monitor errors %d, panics %d, tlc %.0fs" %
            (name, r["states"], r.get("replayed", 0), r.get("drift", 0), r["n_monerr"], r["n_panic"], r["tlc_wall_s"]))
        if len(res.samples) < 4:
            res.samples.append({"instance": name, "kbd": kbd, "states": r["states"], "edges": r.get("edges")})
        ws = flow.witness_scripts(r["monerr_file"], 40) + flow.witness_scripts(r["panic_file"], 10)
        scripts = [flow.hist_to_script(w["h"], 12) for w in ws] + \
                  [flow.hist_to_script(d["h"], 12) for d in r.get("drift_samples", [])]
        if scripts:
            witness_jobs.append({"cfg": kbd, "params": params, "tag": "w:" + name, "scripts": scripts})
        T = params["T"]
        n = 40 if tier == "quick" else 300
        keys = inst["keys"]
        scripts = [rand_history(rng, keys, rng.randint(4, 30 if tier == "quick" else 120),
                                [0, 1, 1, 1, 2, max(T - 1, 0), T, T + 1, 2 * T + 3], tail=T + 12) for _ in range(n)]
        jobs_random.append({"cfg": kbd, "params": params, "tag": "r:" + name, "scripts": scripts})
    for label, jobs in (("witness", witness_jobs), ("random", jobs_random)):
        if not jobs:
            continue
        jobs = shard_local_index(jobs)
        errs, trace = record_and_validate(res, "P_C12", jobs, wd, "c12_" + label)
        for e in sorted(errs, key=lambda e: len(script_of(jobs, e["job"], 0)[1]))[:20]:
            j, s = script_of(jobs, e["job"], 0)
            flow.classify(res, PID, e["err"], e["err"] + " cfg=" + j["cfg"],
                          {"property": PID, "cfg": j["cfg"], "params": j["params"], "script": s, "err": e["err"],
                           "monitor": "P_C12"},
                          "%s_%d" % (label, len(res.violations)))
        if label == "random":
            res.samples.append({"random_history": jobs[0]["scripts"][0][:30], "cfg": jobs[0]["cfg"]})


def run(tier, seed):
    res = flow.Result(PID, tier, seed)
    rng = random.Random(seed)
    wd = workdir("c12")
    build_harness()
    only = os.environ.get("C12_ONLY", "")
    stats, levels = ({}, [])
    if only != "2":
        stats, levels = part1(res, tier, rng, wd)
        log("[c12] part 1: %s" % json.dumps(stats))
    if only != "1":
        run_time(res, tier, rng, wd)
    return flow.finish(res, "model_checking", "wip", assumptions=[], extra_cov={"part1": stats, "part1_levels": levels})
