"""C12 - sequences: accepted defseq tables are unambiguous; a typed sequence fires its key once.

Part 1 (parser, translation validation; spec/SeqTab.tla):
  TLC enumerates defseq tables over a small item alphabet, evaluates the documented meaning
  (StEncode: every permitted way of typing a definition; StAccepts <=> prefix-free + arity rules),
  checks the modelled insertion procedure of parse_sequences against it (StParseCorrect) and prints
  one line per table; `kverif seq-tables` gives the rendered text of every table to the real parser
  and reports accept/reject and the trie contents; every disagreement (and a sample of agreements)
  is judged by TLC with SeqTab!StJudge.  VIOLATION only if the real parser accepts a table that the
  statement forbids (or builds a trie that is not prefix-free).
Part 2 (run time; spec/SeqMode.tla = L1 of src/kanata/sequences.rs, integrated in Kanata.tla behind
  Opts.seqtrie; spec/P_C12.tla = monitor):  see run_time() below.
"""
import itertools, threading
from props.common import *

PID = "C12"
C = cfgdesc.code


# ------------------------------------------------------------------ part 1: tables
def K(n):
    return {"t": "k", "c": C(n)}


def M(mods, ks, pfx=None):
    """modifier chord; pfx = the prefixes as written (default: the canonical one per modifier), e.g. RA- for ralt"""
    it = {"t": "m", "mods": [C(m) for m in mods], "ks": [C(k) for k in ks]}
    if pfx:
        it["pfx"] = list(pfx)
    return it


def O(ks):
    return {"t": "o", "ks": [C(k) for k in ks]}


INV = None


def kname(c):
    global INV
    if INV is None:
        INV = {}
        for n, cc in cfgdesc.keytable()["names"].items():
            INV.setdefault(cc, n)
    return INV[c]


PFX = {"lsft": "S-", "lctl": "C-", "lalt": "A-", "lmet": "M-", "ralt": "AG-", "rsft": "RS-", "rctl": "RC-", "rmet": "RM-"}


def item_text(it):
    if it["t"] == "k":
        return kname(it["c"])
    if it["t"] == "m":
        p = "".join(it["pfx"]) if it.get("pfx") else "".join(PFX[kname(m)] for m in it["mods"])
        ks = [kname(k) for k in it["ks"]]
        return p + (ks[0] if len(ks) == 1 else "(" + " ".join(ks) + ")")
    return "O-(" + " ".join(kname(k) for k in it["ks"]) + ")"


def def_text(d):
    return "(" + " ".join(item_text(i) for i in d) + ")"


# (prefix as written, the physical modifier key): parser/src/cfg/mod.rs modifier prefix table
MOD_PREFIXES = [("S-", "lsft"), ("RS-", "rsft"), ("C-", "lctl"), ("RC-", "rctl"), ("A-", "lalt"), ("AG-", "ralt"),
                ("RA-", "ralt"), ("M-", "lmet"), ("RM-", "rmet")]
MOD_KEYS = ["lsft", "rsft", "lctl", "rctl", "lalt", "ralt", "lmet", "rmet"]


def modifier_defs():
    """definitions exercising every modifier prefix and every plain modifier key"""
    ds = [[K("a")], [K("a"), K("b")]]
    for pf, k in MOD_PREFIXES:
        ds.append([M([k], ["a"], [pf])])
        ds.append([M([k], ["a", "b"], [pf])])
    for k in MOD_KEYS:
        ds.append([K(k), K("a")])
    return ds


TAB_PRE = "(defsrc a)\n(deflayer l0 a)\n(defvirtualkeys v1 x v2 y v3 z)\n"


def table_cfg(defs):
    return TAB_PRE + "".join("(defseq v%d %s)\n" % (i + 1, def_text(d)) for i, d in enumerate(defs))


def alphabet(tier):
    return [K("a"), K("b"), M(["lsft"], ["a"]), M(["lsft"], ["a", "b"]), O(["a", "b"]), O(["a", "b", "c"])]


def all_defs(items, maxlen):
    out = []
    for n in range(1, maxlen + 1):
        for p in itertools.product(items, repeat=n):
            out.append(list(p))
    return out


MC_T = r"""---- MODULE %(mod)s ----
EXTENDS Naturals, Sequences, FiniteSets, TLC, Json
T == INSTANCE SeqTab
DefsDef == %(defs)s
Extra == %(extra)s
VARIABLES t, ph
Tab(tt) == [n \in DOMAIN tt |-> DefsDef[tt[n]]]
Check(tt) ==
  LET table == Tab(tt)
      acc == T!StAccepts(table)
  IN /\ PrintT(<<"CASE", ToJson([t |-> tt, acc |-> acc, keys |-> IF acc THEN T!StKeys(table) ELSE {}])>>)
     /\ (IF T!StParseCorrect(table) THEN TRUE ELSE PrintT(<<"DCEX", ToJson([t |-> tt])>>))
Init == t = <<>> /\ ph = 0
Plans == %(plans)s
Next == \/ /\ ph = 0 /\ t = <<>> /\ ph' = 0
           /\ \/ \E p \in DOMAIN Plans : \E n \in 1..Plans[p].n : \E tt \in [1..n -> Plans[p].idx] : t' = tt
              \/ \E i \in DOMAIN Extra : t' = Extra[i]
        \/ ph = 0 /\ t # <<>> /\ Check(t) /\ ph' = 1 /\ t' = t
====
"""

MC_J = r"""---- MODULE %(mod)s ----
EXTENDS Naturals, Sequences, FiniteSets, TLC, Json, IOUtils
T == INSTANCE SeqTab
Rec == ndJsonDeserialize(IOEnv.CASES)
VARIABLES l, ph
CheckLine(j) == PrintT(<<"JUDGE", ToJson([line |-> j, v |-> T!StJudge(Rec[j].table, Rec[j].real)])>>)
Init == l = 0 /\ ph = 0
Next == \/ ph = 0 /\ l = 0 /\ \E j \in 1..Len(Rec) : l' = j /\ ph' = 0
        \/ ph = 0 /\ l > 0 /\ CheckLine(l) /\ ph' = 1 /\ l' = l
Done == TLCGet("distinct") = 2 * Len(Rec) + 1
====
"""
CFG_T = "INIT Init\nNEXT Next\nCHECK_DEADLOCK FALSE\n"
CFG_J = "INIT Init\nNEXT Next\nCHECK_DEADLOCK FALSE\nPOSTCONDITION Done\n"


def tlc_ok(r, what):
    if r["rc"] == 124:
        raise ToolError("TLC timed out on %s" % what)
    txt = open(r["out"], errors="replace").read()
    if r["rc"] != 0 or "Model checking completed. No error" not in txt:
        raise ToolError("TLC failed on %s: %s (see %s)" % (what, r["error"], r["out"]))


def real_tables(wd, name, defs_text, lines, pre=TAB_PRE):
    """`kverif seq-tables` on table lines ({"t":[..]} | {"cfg":..}); returns the list of result dicts in order."""
    build_harness()
    uni = os.path.join(wd, name + ".uni.json")
    json.dump({"defs": defs_text, "pre": pre}, open(uni, "w"))
    nsh = max(1, min(NCPU, 8, len(lines) // 2000 + 1))
    procs = []
    for i in range(nsh):
        part = os.path.join(wd, "%s.tab%d.ndjson" % (name, i))
        with open(part, "w") as f:
            f.write("\n".join(json.dumps(x) for x in lines[i::nsh]) + "\n")
        procs.append((subprocess.Popen([HARNESS, "seq-tables", uni, part, part + ".res"], stdout=subprocess.PIPE,
                                       stderr=subprocess.STDOUT, text=True), part))
    out = [None] * len(lines)
    for i, (p, part) in enumerate(procs):
        so, _ = p.communicate(timeout=3000)
        if p.returncode != 0:
            raise ToolError("seq-tables failed: " + (so or ""))
        rs = [json.loads(x) for x in open(part + ".res") if x.strip()]
        if len(rs) != len(lines[i::nsh]):
            raise ToolError("seq-tables: %d results for %d tables" % (len(rs), len(lines[i::nsh])))
        out[i::nsh] = rs
        os.remove(part)
        os.remove(part + ".res")
    return out


def judge_tables(wd, name, cases):
    """cases: [{"table": [[item..]..], "real": {"ok", "keys":[{"k","v"}]}}]; TLC evaluates SeqTab!StJudge on each.
    Returns the list of verdict strings in order."""
    if not cases:
        return []
    mod = "MC_C12J_" + name
    with open(os.path.join(wd, mod + ".tla"), "w") as f:
        f.write(MC_J % dict(mod=mod))
    with open(os.path.join(wd, mod + ".cfg"), "w") as f:
        f.write(CFG_J)
    cf = os.path.join(wd, mod + ".cases.ndjson")
    with open(cf, "w") as f:
        for c in cases:
            f.write(json.dumps({"table": c["table"],
                                "real": {"ok": bool(c["real"]["ok"]),
                                         "keys": [{"k": e["k"], "v": e["v"]} for e in c["real"].get("keys", [])]}}) + "\n")
    r = run_tlc(wd, mod, workers=4, timeout=900, heap="4g", env_extra={"CASES": os.path.abspath(cf)})
    tlc_ok(r, mod)
    jf = os.path.join(wd, mod + ".judge.ndjson")
    extract_prints(r["out"], "JUDGE", jf)
    v = {}
    for line in open(jf):
        d = json.loads(line)
        v[d["line"]] = d["v"]
    if len(v) != len(cases):
        raise ToolError("%s: %d verdicts for %d cases" % (mod, len(v), len(cases)))
    return [v[i + 1] for i in range(len(cases))]


def norm_keys(keys):
    return sorted((tuple(e["k"]), e["v"]) for e in keys)


def tables_level(res, wd, name, defs, plans, extra, stats):
    """One TLC enumeration over the definition list `defs`: for every plan (n, idx) all tables of <= n definitions
    taken from defs[idx] (1-based index sets), plus the `extra` index tuples."""
    mod = "MC_C12T_" + name
    with open(os.path.join(wd, mod + ".tla"), "w") as f:
        f.write(MC_T % dict(mod=mod, defs=tla_val(defs), extra=tla_val(extra),
                            plans=tla_val([{"n": n, "idx": set(idx)} for n, idx in plans])))
    with open(os.path.join(wd, mod + ".cfg"), "w") as f:
        f.write(CFG_T)
    r = run_tlc(wd, mod, workers=6, timeout=1700, heap="6g")
    tlc_ok(r, mod)
    cf = os.path.join(wd, mod + ".cases.ndjson")
    extract_prints(r["out"], "CASE", cf)
    ndcex = extract_prints(r["out"], "DCEX", os.path.join(wd, mod + ".dcex.ndjson"))
    os.remove(r["out"])
    exp = [json.loads(x) for x in open(cf)]
    os.remove(cf)
    want = set(tuple(e) for e in extra)
    for n, idx in plans:
        for k in range(1, n + 1):
            want.update(itertools.product(idx, repeat=k))
    if set(tuple(e["t"]) for e in exp) != want:
        raise ToolError("%s: TLC exported %d tables, expected %d" % (mod, len(exp), len(want)))
    res.states += r["distinct"] or 0
    res.transitions += r["generated"] or 0
    if ndcex:
        res.notes.append("design-level: the modelled insertion procedure differs from StAccepts on %d tables of level %s" % (ndcex, name))
    dtext = [def_text(d) for d in defs]
    real = real_tables(wd, "c12_" + name, dtext, [{"t": e["t"]} for e in exp])
    to_judge = []
    for e, rr in zip(exp, real):
        stats["tables"] += 1
        stats["accepted_by_spec"] += 1 if e["acc"] else 0
        stats["accepted_by_parser"] += 1 if rr["ok"] else 0
        agree = (e["acc"] == rr["ok"]) and (not e["acc"] or norm_keys(e["keys"]) == norm_keys(rr["keys"])) \
            and not rr.get("probe_bad") and not rr.get("panic")
        if agree:
            stats["agree"] += 1
            if e["acc"]:
                stats["trie_keys_compared"] += len(e["keys"])
        if not agree or stats["tables"] % 997 == 0:
            to_judge.append({"table": [defs[i - 1] for i in e["t"]], "real": rr, "t": e["t"], "level": name})
    log("[c12] tables level %s: %d tables (%d defs), TLC %.0fs, model-vs-spec cex %d, to judge %d" %
        (name, len(exp), len(defs), r["wall_s"], ndcex, len(to_judge)))
    return to_judge, len(exp), ndcex


def part1(res, tier, rng, wd):
    stats = {"tables": 0, "accepted_by_spec": 0, "accepted_by_parser": 0, "agree": 0, "trie_keys_compared": 0,
             "judged_by_tlc": 0, "rejected_unambiguous": 0, "arity_notes": 0, "trie_drift": 0}
    items = alphabet(tier)
    small = [items[0], items[1], items[2], items[4]]          # a, b, S-a, O-(a b)
    to_judge = []
    levels = []
    d2 = all_defs(items, 2)
    i2 = list(range(1, len(d2) + 1))
    isub = [i + 1 for i, d in enumerate(d2) if all(it in small for it in d)]
    if tier == "quick":
        # every pair of definitions of <= 2 items; every triple over the 4-item sub-alphabet
        plan = [("quick", d2, [(2, i2), (3, isub)], [],
                 "all tables of <=2 definitions of <=2 items over the 6-item alphabet; all tables of <=3 definitions of "
                 "<=2 items over {a, b, S-a, O-(a b)}")]
    else:
        # definitions of <= 3 items: without O-(a b c) (whose 6 orders per occurrence make pairs of 3-item definitions
        # expensive to decide), and separately over {a, O-(a b), O-(a b c)}
        noabc = items[:5]
        d3 = all_defs(noabc, 3)
        n3 = len(d3)
        extra = [[rng.randint(1, n3), rng.randint(1, n3), rng.randint(1, n3)] for _ in range(20000)]
        d3o = all_defs([items[0], items[4], items[5]], 3)
        plan = [("l2d3", d2, [(3, i2)], [], "all tables of <=3 definitions of <=2 items over the 6-item alphabet"),
                ("l3d2", d3, [(2, list(range(1, n3 + 1)))], extra,
                 "all tables of <=2 definitions of <=3 items over {a, b, S-a, S-(a b), O-(a b)}; 20000 seeded tables of 3 such definitions"),
                ("l3o", d3o, [(2, list(range(1, len(d3o) + 1)))], [],
                 "all tables of <=2 definitions of <=3 items over {a, O-(a b), O-(a b c)}")]
    md = modifier_defs()
    plan.append(("mods", md, [(2, list(range(1, len(md) + 1)))], [],
                 "all tables of <=2 definitions among: X-a, X-(a b) for every modifier prefix S- RS- C- RC- A- AG- RA- M- RM-, "
                 "(k a) for every plain modifier key k, (a), (a b)"))
    for name, defs, plans, extra, what in plan:
        tj, n, ndcex = tables_level(res, wd, name, defs, plans, extra, stats)
        to_judge += tj
        levels.append({"name": name, "items": [item_text(i) for i in items], "what": what,
                       "extra_sampled_tables": len(extra), "tables": n, "model_vs_spec_cex": ndcex})
    # arity rules and larger groups: a handful of hand-listed tables, judged the same way
    big = [K(k) for k in "abcdefg"]
    special = [
        [[O(["a"])]], [[O(["a", "b", "c", "d", "e", "f"])]], [[O(["a", "b", "c", "d", "e", "f", "g"])]],
        [[O(["a", "b", "c", "d"]), K("e")], [K("d"), K("c")]],
        [[O(["a", "b", "c", "d"])], [O(["c", "d"]), K("a")]],
        [[O(["a", "b"]), O(["c", "d"])], [O(["b", "a"]), O(["d", "c"]), K("a")]],
        [[O(["a", "b"]), O(["c", "d"])], [O(["b", "a"]), K("c")]],
        [[M(["lctl", "lsft"], ["a"])], [M(["lctl"], ["a"])], [M(["lsft"], ["a"])]],
        [[M(["lctl", "lsft"], ["a"])], [M(["lctl"], ["lsft"])]],
        [[K("lsft"), K("a")], [M(["lsft"], ["a"])]],
        [[O(["a", "a"])]],
        # right-hand shift / ctrl / meta count as the left-hand keys (fix efb3afa): these two are the same sequence
        [[M(["rsft"], ["a"])], [M(["lsft"], ["a"])]],
        [[K("rctl"), K("a")], [K("lctl"), K("b")]],
        [[M(["rmet"], ["b"])], [K("a")]],
    ]
    sp_real = real_tables(wd, "c12_special", [], [{"cfg": table_cfg(t)} for t in special])
    for t, rr in zip(special, sp_real):
        stats["tables"] += 1
        stats["accepted_by_parser"] += 1 if rr["ok"] else 0
        to_judge.append({"table": t, "real": rr, "t": None, "level": "special"})
    # TLC judges (bounded chunks)
    nviol = 0
    for ci in range(0, len(to_judge), 1500):
        chunk = to_judge[ci:ci + 1500]
        verdicts = judge_tables(wd, "j%d" % (ci // 1500), chunk)
        for c, v in zip(chunk, verdicts):
            stats["judged_by_tlc"] += 1
            cfg = table_cfg(c["table"])
            if c["real"].get("panic"):
                v = "V:C12: the parser panicked on a defseq table: " + c["real"]["panic"]
            if c["real"].get("probe_bad") and not v.startswith("V:"):
                v = "D:get_or_descendant_exists disagrees with the dumped trie contents"
            if v.startswith("V:"):
                nviol += 1
                if len(res.violations) < 12:
                    flow.classify(res, PID, v[2:], v[2:] + " table=" + " ".join(def_text(d) for d in c["table"]),
                                  {"property": PID, "kind": "c12table", "table": c["table"], "cfg": cfg, "err": v[2:]},
                                  "table_%d" % len(res.violations))
            elif v.startswith("N:"):
                if "rejected" in v:
                    stats["rejected_unambiguous"] += 1
                    if stats["rejected_unambiguous"] <= 3:
                        res.notes.append("note (not forbidden by the statement): the parser rejects the unambiguous table %s: %s" %
                                         (" ".join(def_text(d) for d in c["table"]), (c["real"].get("err") or "")[-160:]))
                else:
                    stats["arity_notes"] += 1
                    res.notes.append("note: %s: %s" % (v[2:], " ".join(def_text(d) for d in c["table"])))
            elif v.startswith("D:"):
                stats["trie_drift"] += 1
                res.drift += 1
                if stats["trie_drift"] <= 3:
                    res.notes.append("model drift (part 1): %s: %s" % (v[2:], " ".join(def_text(d) for d in c["table"])))
    stats["violating_tables"] = nviol
    res.traces_validated += stats["tables"]
    ex = to_judge[0] if to_judge else None
    if ex:
        res.samples.append({"table": " ".join(def_text(d) for d in ex["table"]), "parser_accepts": ex["real"]["ok"],
                            "trie": ex["real"].get("keys", [])[:6]})
    return stats, levels


def replay_table(r, path, wd):
    """./check replay for kind c12table: the table goes through the real parser again and is judged by TLC."""
    print(r["cfg"])
    rr = real_tables(wd, "c12_replay", [], [{"cfg": r["cfg"]}])[0]
    print("parser: %s %s" % ("accepts" if rr["ok"] else "rejects", json.dumps(rr.get("keys") or rr.get("err") or rr.get("panic"))[:600]))
    v = judge_tables(wd, "replay", [{"table": r["table"], "real": rr}])[0]
    if rr.get("panic"):
        v = "V:panic " + rr["panic"]
    if v.startswith("V:"):
        print("REJECTED: %s" % v[2:])
        print("VIOLATION property=%s replay=%s" % (r["property"], path))
        return 1
    print("accepted by SeqTab!StJudge (%s)" % (v or "agrees with the specification"))
    return 0


# ------------------------------------------------------------------ part 2: run time
MODES = ["hidden-suppressed", "hidden-delay-type", "visible-backspaced"]
VK_OUT = ["x", "y", "z", "1", "2", "3", "4", "5", "6", "7"]


LEADER_FORMS = ["sldr", "seq", "seqmode"]


def seq_instance(name, defs, mode, T=3, always=False, leader=True, keys=("a", "b"), modcancel=True, qmax=2, bound=None,
                 lform="sldr", leader2=None):
    """defs: list of item lists (definition i -> virtual key v<i+1> -> output key VK_OUT[i]).
    mode / T = the input mode and timeout IN FORCE when the leader is pressed (monitor parameters).  lform = how the
    leader is written: "sldr" (defcfg values), "seq" = (sequence T): timeout override, mode from defcfg,
    "seqmode" = (sequence T mode): both overridden, defcfg names another mode and another timeout."""
    ks = (["l"] if leader else []) + list(keys)
    layer = {k: {"t": "key", "k": k} for k in keys}
    dc = {"sequence-timeout": T, "sequence-input-mode": mode}
    if leader:
        if lform == "sldr":
            layer["l"] = {"t": "raw", "text": "sldr"}
        elif lform == "seq":
            layer["l"] = {"t": "raw", "text": "(sequence %d)" % T}
            dc["sequence-timeout"] = T + 5
        else:
            layer["l"] = {"t": "raw", "text": "(sequence %d %s)" % (T, mode)}
            dc["sequence-timeout"] = T + 5
            dc["sequence-input-mode"] = MODES[(MODES.index(mode) + 1) % 3]
    if leader2:      # (mode2, T2): a second leader key `m`, always written with both overrides
        ks.insert(1, "m")
        layer["m"] = {"t": "raw", "text": "(sequence %d %s)" % (leader2[1], leader2[0])}
    if always:
        dc["sequence-always-on"] = "yes"
    if not modcancel:
        dc["sequence-backtrack-modcancel"] = "no"
    extra = ["(defvirtualkeys " + " ".join("v%d %s" % (i + 1, VK_OUT[i]) for i in range(len(defs))) + ")",
             "(defseq " + " ".join("v%d %s" % (i + 1, def_text(d)) for i, d in enumerate(defs)) + ")"]
    desc = {"keys": ks, "layers": [layer], "defcfg": dc, "extra": extra}
    kbd = cfgdesc.render_kbd(desc)
    params = {"ldr": C("l") if leader else 0, "T": T, "mode": mode, "always": bool(always),
              "defs": [{"items": d, "out": C(VK_OUT[i])} for i, d in enumerate(defs)],
              "keys": [C(k) for k in keys]}
    if leader2:
        params["ldr2"] = {"c": C("m"), "mode": leader2[0], "T": leader2[1]}
    maxlen = max(sum(1 if it["t"] == "k" else len(it["ks"]) + len(it.get("mods", [])) for it in d) for d in defs)
    b = bound if bound is not None else maxlen + 1
    inst = {"name": "c12_" + name, "kbd": kbd, "keys": [C(k) for k in ks], "qmax": qmax,
            "monitor": {"module": "P_C12", "params": dict(params, s2=False)},
            "constraint": "SeqBound", "extra_defs": "SeqBound == Len(K.sq.raw) <= %d" % b}
    return inst, params, kbd


A, B, Cc = "a", "b", "c"


def family(tier):
    ab = [K("a"), K("b")]
    oab = [O(["a", "b"])]
    sa = [M(["lsft"], ["a"])]
    fam = [
        ("hs_ab_oab", [ab, oab], "hidden-suppressed", {}),
        ("hd_ab_ba", [ab, [K("b"), K("a")]], "hidden-delay-type", {"T": 3}),
        ("vb_ab_oab", [ab, oab], "visible-backspaced", {"T": 2, "lform": "seq"}),
        ("hd_on_ab_bba", [ab, [K("b"), K("b"), K("a")]], "hidden-delay-type", {"always": True, "leader": False}),
        ("vb_sa", [sa, [K("a"), K("lsft")]], "visible-backspaced", {"keys": ("lsft", "a"), "T": 2}),
        ("hd_sa", [sa, [K("a"), K("a")]], "hidden-delay-type", {"keys": ("lsft", "a"), "T": 2, "lform": "seqmode"}),
    ]
    if tier != "quick":
        fam += [
            ("hs_oab_c", [[O(["a", "b"]), K("c")], [K("c"), K("a")]], "hidden-suppressed", {"keys": ("a", "b", "c"), "T": 2}),
            ("vb_on_ab", [ab, [K("b"), K("b")]], "visible-backspaced", {"always": True, "leader": False}),
            ("hd_sab", [[M(["lsft"], ["a", "b"])], [K("lsft"), K("b")]], "hidden-delay-type",
             {"keys": ("lsft", "a", "b"), "modcancel": False, "T": 2}),
            ("hs_T1", [ab], "hidden-suppressed", {"T": 1}),
            ("hd_T3", [ab, oab], "hidden-delay-type", {"T": 3, "lform": "seq"}),
            ("hs_hd_2ldr", [ab, [K("b"), K("a")]], "hidden-suppressed", {"T": 3, "leader2": ("hidden-delay-type", 3)}),
            ("hs_seqmode", [ab, [K("b"), K("a")]], "hidden-suppressed", {"T": 2, "lform": "seqmode"}),
            ("vb_aga", [[M(["ralt"], ["a"])], [K("a"), K("ralt")]], "visible-backspaced", {"keys": ("ralt", "a"), "T": 2}),
            ("hd_ca", [[M(["lctl"], ["a"])], [K("lalt"), K("a")]], "hidden-delay-type", {"keys": ("lctl", "lalt", "a"), "T": 2}),
            ("vb_T3", [ab, [K("b"), K("a")]], "visible-backspaced", {"T": 3}),
            ("vb_abc", [[K("a"), K("b"), K("c")], [K("b"), K("c")]], "visible-backspaced", {"keys": ("a", "b", "c"), "T": 2}),
            ("hs_oabc", [[O(["a", "b", "c"])], [K("a"), K("b")]], "hidden-suppressed", {"keys": ("a", "b", "c"), "T": 2}),
        ]
    out = []
    for name, defs, mode, kw in fam:
        out.append((name,) + seq_instance(name, defs, mode, **kw))
    return out


def run_time(res, tier, rng, wd):
    jobs_random, witness_jobs = [], []
    for name, inst, params, kbd in family(tier):
        r = mc.check_instance(inst, wd, workers=6, timeout=1500)
        res.add_instance(r)
        log("[c12] instance %s: %d states, %d edges replayed, drift %d, monitor errors %d, panics %d, tlc %.0fs" %
            (name, r["states"], r.get("replayed", 0), r.get("drift", 0), r["n_monerr"], r["n_panic"], r["tlc_wall_s"]))
        if len(res.samples) < 4:
            res.samples.append({"instance": name, "kbd": kbd, "states": r["states"], "edges": r.get("edges")})
        ws = flow.witness_scripts(r["monerr_file"], 40) + flow.witness_scripts(r["panic_file"], 10)
        scripts = [flow.hist_to_script(w["h"], 12) for w in ws]
        # where the code leaves the model (drift) the behaviours nearby are recorded and judged by the monitor:
        # the drifting history itself and its continuations by one more tap of every key
        for d in r.get("drift_samples", []):
            scripts.append(flow.hist_to_script(d["h"], 12))
            for k in inst["keys"]:
                down = [st[1] for st in d["h"] if st[0] == "d" and d["h"].count(["d", st[1]]) > d["h"].count(["u", st[1]])]
                pre = [["u", k], ["t", 1]] if k in down else []
                scripts.append(flow.hist_to_script(d["h"]) + pre + [["d", k], ["t", 1], ["u", k], ["t", params["T"] + 8]])
        if scripts:
            witness_jobs.append({"cfg": kbd, "params": params, "tag": "w:" + name, "scripts": scripts})
        T = params["T"]
        n = 40 if tier == "quick" else 300
        keys = inst["keys"]
        scripts = [rand_history(rng, keys, rng.randint(4, 30 if tier == "quick" else 120),
                                [0, 1, 1, 1, 2, max(T - 1, 0), T, T + 1, 2 * T + 3], tail=T + 12) for _ in range(n)]
        jobs_random.append({"cfg": kbd, "params": params, "tag": "r:" + name, "scripts": scripts})
    for label, jobs in (("witness", witness_jobs), ("random", jobs_random)):
        if not jobs:
            continue
        jobs = shard_local_index(jobs)
        errs, trace = record_and_validate(res, "P_C12", jobs, wd, "c12_" + label)
        for e in sorted(errs, key=lambda e: len(script_of(jobs, e["job"], 0)[1]))[:20]:
            j, s = script_of(jobs, e["job"], 0)
            flow.classify(res, PID, e["err"], e["err"] + " cfg=" + j["cfg"],
                          {"property": PID, "cfg": j["cfg"], "params": j["params"], "script": s, "err": e["err"],
                           "monitor": "P_C12"},
                          "%s_%d" % (label, len(res.violations)))
        if label == "random":
            res.samples.append({"random_history": jobs[0]["scripts"][0][:30], "cfg": jobs[0]["cfg"]})


# ------------------------------------------------------------------ part 2b: TLC-enumerated typing histories
MC_H = r"""---- MODULE %(mod)s ----
EXTENDS Naturals, Sequences, FiniteSets, TLC, Json
E == INSTANCE SeqEnv
Tables == %(tables)s
VARIABLES t, ph
Check(j) == PrintT(<<"HIST", ToJson([tb |-> j, sc |-> E!SeScripts(Tables[j].tb, Tables[j].lead, Tables[j].re, Tables[j].f,
                                                                Tables[j].waits, Tables[j].tail)])>>)
Init == t = 0 /\ ph = 0
Next == \/ ph = 0 /\ t = 0 /\ \E j \in DOMAIN Tables : t' = j /\ ph' = 0
        \/ ph = 0 /\ t > 0 /\ Check(t) /\ ph' = 1 /\ t' = t
====
"""

# the table of the repository's overlap tests (src/tests/sim_tests/seq_sim_tests.rs OVERLAP_CFG), with and without
# the definition its comment calls a "KNOWN BUGGY CASE"
REPO_OVERLAP = [[O(["a", "b"])], [K("a"), K("b")], [O(["c", "d"]), K("e")], [K("c"), K("d"), K("e")],
                [O(["c", "d"]), O(["f", "g"])], [O(["c", "d"]), K("f"), K("g")], [K("c"), K("d"), O(["f", "g"])]]
REPO_S8 = [K("c"), K("d"), K("f"), K("g")]


def table_codes(defs):
    cs = []
    for d in defs:
        for it in d:
            for c in ([it["c"]] if it["t"] == "k" else it.get("mods", []) + it["ks"]):
                if c not in cs:
                    cs.append(c)
    return cs


MODMASK = {42: 0x8000, 54: 0x8000, 29: 0x4000, 97: 0x4000, 56: 0x2000, 100: 0x1000, 125: 0x0800, 126: 0x0800}


FOLD = {54: 42, 126: 125, 97: 29}


def py_encode(d):
    """the permitted token strings of a definition (same meaning as SeqTab!StEncode; used only to name input classes)"""
    outs = [[]]
    for it in d:
        if it["t"] == "k":
            alts = [[FOLD.get(it["c"], it["c"])]]
        elif it["t"] == "m":
            toks, mask = [], 0
            for m in it["mods"]:
                mask |= MODMASK.get(m, 0)
                toks.append(FOLD.get(m, m) + mask)
            alts = [toks + [FOLD.get(k, k) + mask for k in it["ks"]]]
        else:
            alts = [[FOLD.get(k, k) + 1024 for k in p] + [1024] for p in itertools.permutations(it["ks"])]
        outs = [o + a for o in outs for a in alts]
    return outs


def group_then_more_shadowed(t):
    """Input class of the second known finding: an O-(..) group that is not the end of its sequence, while another
    sequence begins with the same keys written as plain keys."""
    encs = [py_encode(d) for d in t]
    for i, es in enumerate(encs):
        for e in es:
            for p, tok in enumerate(e):
                if tok == 1024 and p < len(e) - 1:
                    plain = [x % 1024 for x in e[:p] if x != 1024]
                    for j, fs in enumerate(encs):
                        if j != i and any(f[:len(plain)] == plain for f in fs):
                            return True
    return False


def history_tables(tier, rng, wd):
    """Tables for the typing histories: fixed ones + a seeded sample of the part-1 universe, filtered by the real parser."""
    items = alphabet(tier) + [K("c")]
    fixed = [REPO_OVERLAP, REPO_OVERLAP + [REPO_S8],
             [[K("a"), K("b")], [O(["a", "b"]), K("c")]],
             [[O(["a", "b"])], [K("a"), K("b"), K("c")]],
             [[M(["lsft"], ["a", "b"])], [M(["lsft"], ["a"]), K("b")]],
             [[K("a"), K("b"), K("c")], [K("b"), K("d")]],
             [[K("lsft"), K("a"), K("b")], [M(["lsft"], ["c", "d"])]],
             # an O-(..) group followed by more keys, next to a sequence that begins with the same keys as plain keys
             [[O(["a", "b"]), K("a")], [K("b"), K("a"), K("c")]],
             [[K("b"), K("a"), O(["a", "b", "c"])], [O(["a", "b"]), M(["lsft"], ["a", "b"]), K("a")]],
             [[K("a"), O(["a", "b", "c"])], [O(["a", "b"]), M(["lsft"], ["a"])]],
             # every modifier prefix / plain modifier key the parser accepts in defseq, typed with its physical key
             ] + [[[M([k], ["a"], [pf])], [K("b"), K("a")]] for pf, k in MOD_PREFIXES] + \
            [[[M([k], ["a", "b"], [pf])], [K("b")]] for pf, k in MOD_PREFIXES[2::2]] + \
            [[[K(k), K("a")], [K("b")]] for k in MOD_KEYS] + [
             # right-hand modifiers named in a definition
             [[M(["rsft"], ["a"])], [K("b"), K("a")]],
             [[K("rctl"), K("a")], [M(["rmet"], ["b"])]]]
    n = 30 if tier == "quick" else 1200
    cand = []
    for _ in range(3 * n):
        nd = rng.choice([1, 2, 2, 3])
        cand.append([[rng.choice(items) for _ in range(rng.choice([1, 2, 2, 3]))] for _ in range(nd)])
    real = real_tables(wd, "c12_hist_tabs", [], [{"cfg": table_cfg(t)} for t in cand])
    acc = [t for t, r in zip(cand, real) if r["ok"]][:n]
    return fixed + acc


def typing_histories(res, tier, rng, wd):
    T = 4
    tabs = history_tables(tier, rng, wd)
    ent, metas = [], []
    for i, t in enumerate(tabs):
        mode = MODES[i % 3] if i >= 2 else "visible-backspaced"      # the repository tests use visible-backspaced
        # sequence-always-on feeds the virtual key's own output back into the mode, so with hidden-suppressed the
        # observation channel (the output key) is itself suppressed: always-on only with the other two modes
        nfixed = 12 + len(MOD_PREFIXES) + len(MOD_PREFIXES[2::2]) + len(MOD_KEYS)
        always = i >= nfixed and i % 4 == 3 and mode != "hidden-suppressed"
        lform = LEADER_FORMS[(i // 3) % 3] if i >= 2 else "sldr"
        codes = table_codes(t)
        names = [kname(c) for c in codes] + ["q"]
        # every second table has a second leader `m` = (sequence T+1 <another mode>); it is pressed in the middle of
        # sequences begun with the first leader and the other way round
        l2 = None
        if not always and i % 2 == 1:
            l2 = (MODES[(MODES.index(mode) + 1 + (i // 2) % 2) % 3], T + 1)
        inst, params, kbd = seq_instance("h%d" % i, t, mode, T=T, always=always, leader=not always, keys=tuple(names),
                                         lform=lform, leader2=l2)
        tap = lambda k: [["d", C(k)], ["t", 1], ["u", C(k)], ["t", 1]]
        lead = [] if always else tap("l")
        base = {"tb": t, "f": C("q"), "waits": {T - 3, T - 2, T - 1}, "tail": T + 6}
        ent.append(dict(base, lead=lead, re=tap("m") if l2 else lead))
        metas.append((kbd, params, t, mode, always))
        if l2:
            ent.append(dict(base, lead=tap("m"), re=tap("l")))
            metas.append((kbd, params, t, mode, always))
    mod = "MC_C12H_%s" % tier
    with open(os.path.join(wd, mod + ".tla"), "w") as f:
        f.write(MC_H % dict(mod=mod, tables=tla_val(ent)))
    with open(os.path.join(wd, mod + ".cfg"), "w") as f:
        f.write(CFG_T)
    r = run_tlc(wd, mod, workers=6, timeout=1700, heap="6g")
    tlc_ok(r, mod)
    hf = os.path.join(wd, mod + ".hist.ndjson")
    n = extract_prints(r["out"], "HIST", hf)
    os.remove(r["out"])
    if n != len(ent):
        raise ToolError("%s: TLC exported histories for %d of %d tables" % (mod, n, len(ent)))
    res.states += r["distinct"] or 0
    res.transitions += r["generated"] or 0
    jobs, nscripts = [], 0
    for line in open(hf):
        d = json.loads(line)
        kbd, params, t, mode, always = metas[d["tb"] - 1]
        scripts = sorted(d["sc"], key=lambda s: (len(s), json.dumps(s)))
        nscripts += len(scripts)
        jobs.append({"cfg": kbd, "params": params, "tag": "h%d" % d["tb"], "scripts": scripts,
                     "table": " ".join(def_text(x) for x in t),
                     "rightmods": bool(set(table_codes(t)) & {C("rsft"), C("rctl"), C("rmet")}),
                     "shadowed": group_then_more_shadowed(t)})
    log("[c12] typing histories: %d tables, %d histories enumerated by TLC in %.0fs" % (len(tabs), nscripts, r["wall_s"]))
    jobs = shard_local_index(jobs)
    errs = par_validate(res, "P_C12", jobs, wd, "c12_hist", 6 if tier == "quick" else 10)
    bytab = {}
    for e in sorted(errs, key=lambda e: len(script_of(jobs, e["job"], 0)[1])):
        j, s = script_of(jobs, e["job"], 0)
        k = (j["table"], e["err"])
        bytab[k] = bytab.get(k, 0) + 1
        if bytab[k] > 1 or len(res.violations) >= 15:
            continue
        tag = " [the definition names a right-hand modifier: rsft / rctl / rmet]" if j["rightmods"] else ""
        if j["shadowed"] and not tag:
            tag = " [an O-(..) group is followed by more keys and another sequence begins with the same keys as plain keys]"
        flow.classify(res, PID, e["err"], e["err"] + tag + " table=" + j["table"] + " mode=" + j["params"]["mode"] + " cfg=" + j["cfg"],
                      {"property": PID, "cfg": j["cfg"], "params": j["params"], "script": s, "err": e["err"],
                       "monitor": "P_C12"}, "hist_%d" % len(res.violations))
    res.extra["typing_histories"] = {"tables": len(tabs), "histories": nscripts, "rejected": len(errs),
                                     "rejected_by_table_and_rule": [{"table": k[0], "err": k[1], "n": v} for k, v in
                                                                    sorted(bytab.items())[:30]]}
    res.samples.append({"typing_history": jobs[0]["scripts"][0][:24], "table": jobs[0]["table"]})


def par_validate(res, monitor, jobs, wd, name, nsplit):
    """record_and_validate over nsplit parallel TLC runs (each with its own work directory)."""
    parts = [p for p in (jobs[i::nsplit] for i in range(nsplit)) if p]
    errs_all, lock, exc = [], threading.Lock(), []

    def work(i, part):
        try:
            sub = flow.Result(res.pid, res.tier, res.seed)
            w = os.path.join(wd, "%s_p%d" % (name, i))
            os.makedirs(w, exist_ok=True)
            errs, _ = record_and_validate(sub, monitor, part, w, name)
            with lock:
                res.traces_validated += sub.traces_validated
                res.trace_lines += sub.trace_lines
                errs_all.extend(errs)
        except Exception as e:     # re-raised in the caller
            exc.append(e)
    th = [threading.Thread(target=work, args=(i, p)) for i, p in enumerate(parts)]
    for t in th:
        t.start()
    for t in th:
        t.join()
    if exc:
        raise exc[0]
    return errs_all


def run(tier, seed):
    res = flow.Result(PID, tier, seed)
    rng = random.Random(seed)
    wd = workdir("c12")
    build_harness()
    cfgdesc.keytable()
    only = os.environ.get("C12_ONLY", "")
    box = {}

    def p1():
        try:
            sub = flow.Result(PID, tier, seed)
            wd1 = os.path.join(wd, "part1")
            os.makedirs(wd1, exist_ok=True)
            box["r"] = (sub,) + part1(sub, tier, random.Random(seed + 1), wd1)
        except Exception as e:      # re-raised below
            box["e"] = e
    th = None
    if only in ("", "1"):
        th = threading.Thread(target=p1)
        th.start()
    if only in ("", "3"):
        typing_histories(res, tier, rng, wd)
    if only in ("", "2"):
        run_time(res, tier, rng, wd)
    stats, levels = {}, []
    if th:
        th.join()
        if "e" in box:
            raise box["e"]
        sub, stats, levels = box["r"]
        res.states += sub.states
        res.transitions += sub.transitions
        res.traces_validated += sub.traces_validated
        res.drift += sub.drift
        res.notes += sub.notes
        res.samples += sub.samples
        res.violations += sub.violations
        res.known += sub.known
        log("[c12] part 1: %s" % json.dumps(stats))
    return flow.finish(
        res, "model_checking",
        "Part 1 (parser): TLC enumerates defseq tables (see part1_levels), decides StAccepts (prefix-freedom over every "
        "permitted ordering + arity) and checks the modelled insertion procedure against it; every table is parsed by the "
        "real parser (accept/reject and trie contents compared); disagreements and a sample are judged by TLC "
        "(SeqTab!StJudge).  Part 2 (run time): (a) TLC explores L1 (Kanata.tla + SeqMode.tla, constants from the parser "
        "dump incl. the trie) || P_C12 for every physically consistent history over the leader and the sequence keys "
        "(<= 2 pending inputs, every gap, typed keys bounded) per instance (three input modes, always-on, O-(..) and S-(..) "
        "definitions, T in 1..3; the leader written as sldr, (sequence T) or (sequence T mode) with defcfg naming other "
        "values - the monitor gets the mode and timeout in force); every model transition is replayed on the real code incl. the SequenceState projection; "
        "model-level counterexamples, continuations of drifting histories and random histories (gaps around T) are "
        "recorded from the code and validated by TLC against P_C12.  (b) For fixed tables (incl. one per modifier prefix S- RS- C- RC- A- AG- RA- M- RM- and "
        "per plain modifier key, typed with the physical key) and seeded accepted tables, leader forms in rotation, TLC "
        "enumerates the typing histories of spec/SeqEnv.tla (every definition in every permitted order, every proper "
        "beginning followed by a foreign key - also inside S-/O- items -, pauses of T-3..T-1 ticks at every item boundary, "
        "the leader again at every boundary); they are run on the real code and the traces validated by TLC against P_C12.",
        assumptions=["deterministic stepper (one queued input processed per tick, in arrival order)",
                     "sequence keys are plain keys mapped to themselves; each virtual key outputs one distinct otherwise-unused key",
                     "P_C12 is sharp from a clean point (idle, nothing held) while what was typed is a defined sequence, a beginning "
                     "of one, or cannot belong to any; situations the documentation does not pin down are soft (S2 only): "
                     "backtracking matches, a sequence that is also the beginning of a longer one, an O-(..) group begun while "
                     "earlier keys are still down, keys consumed by a completed sequence still down when the mode is entered "
                     "again, a virtual key's output arriving while the mode is on again",
                     "sequence-always-on is undocumented: judged with the same rules (the mode is entered by the first key); not "
                     "combined with hidden-suppressed, where the virtual key's own output is fed back into the mode and suppressed"],
        extra_cov={"part1": stats, "part1_levels": levels, "exhaustive": True})
