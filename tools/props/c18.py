"""C18 - virtual keys obey press / release / tap / toggle and their timed forms (hold-for-duration, on-idle);
same effect whether triggered from a key, a macro item or a direct handle_fakekey_action call (TCP path)."""
from props.common import *

OPN = {"press": "press-vkey", "release": "release-vkey", "tap": "tap-vkey", "toggle": "toggle-vkey"}
OPS = ["press", "release", "tap", "toggle"]
SLACK, QCAP = 2, 24


# ---- text-level description of an instance --------------------------------------------------
def op(v, o):
    return {"k": "op", "v": v, "op": o, "d": 0}


def idle(v, o, d):
    return {"k": "idle", "v": v, "op": o, "d": d}


def hfd(v, d):
    return {"k": "hfd", "v": v, "op": "", "d": d}


def cust(onp=(), onr=()):
    return {"t": "cust", "onp": list(onp), "onr": list(onr)}


def macro(*steps):
    """steps: int = delay, ("p", item) = item issued on press, ("r", item) = on-release item"""
    return {"t": "macro", "steps": list(steps)}


def probe():
    return {"t": "probe"}


def sldr():
    return {"t": "sldr"}


def seqkey():
    return {"t": "sk"}


VK_KEY = lambda o: {"kind": "key", "o": o}
VK_LWH = lambda l: {"kind": "lwh", "l": l}
VK_MAC = lambda *outs: {"kind": "macro", "outs": list(outs)}
PROBE_OUT = ["q", "w", "e"]      # output of the probe key on layer 0, 1, 2


def vname(v):
    return "v%d" % v


def r_item_press(it):
    if it["k"] == "op":
        return "(on-press %s %s)" % (OPN[it["op"]], vname(it["v"]))
    if it["k"] == "idle":
        return "(on-idle %d %s %s)" % (it["d"], OPN[it["op"]], vname(it["v"]))
    return "(hold-for-duration %d %s)" % (it["d"], vname(it["v"]))


def r_item_release(it):
    return "(on-release %s %s)" % (OPN[it["op"]], vname(it["v"]))


def r_key(k):
    if k["t"] == "cust":
        parts = [r_item_press(i) for i in k["onp"]] + [r_item_release(i) for i in k["onr"]]
        return parts[0] if len(parts) == 1 else "(multi " + " ".join(parts) + ")"
    if k["t"] == "macro":
        out = []
        for s in k["steps"]:
            out.append(str(s) if isinstance(s, int) else (r_item_press(s[1]) if s[0] == "p" else r_item_release(s[1])))
        return "(macro " + " ".join(out) + ")"
    if k["t"] == "sldr":
        return "sldr"
    if k["t"] == "sk":
        return None     # its own name
    return PROBE_OUT[0]


def r_vk(vk):
    if vk["kind"] == "key":
        return vk["o"]
    if vk["kind"] == "lwh":
        return "(layer-while-held l%d)" % vk["l"]
    return "(macro " + " ".join(vk["outs"]) + ")"


def make(vks, keys, seqs=(), seq_timeout=0):
    """vks: list of virtual key descriptions (v1, v2, ...); keys: ordered {name: key description};
    seqs: [(key names, virtual key)] defseq entries.
    Returns (kbd text, monitor params) - two independent renderings of the same description."""
    names = list(keys)
    nlayers = 1 + max([vk["l"] for vk in vks if vk["kind"] == "lwh"] + [0])
    lines = ["(defsrc " + " ".join(names) + ")",
             "(defvirtualkeys " + " ".join("%s %s" % (vname(i + 1), r_vk(vk)) for i, vk in enumerate(vks)) + ")",
             "(deflayer l0 " + " ".join(r_key(keys[n]) or n for n in names) + ")"]
    if seqs:
        lines.insert(0, "(defcfg sequence-timeout %d)" % seq_timeout)
        lines.append("(defseq " + " ".join("%s (%s)" % (vname(v), " ".join(ks)) for ks, v in seqs) + ")")
    for l in range(1, nlayers):
        lines.append("(deflayer l%d " % l + " ".join(PROBE_OUT[l] if keys[n]["t"] == "probe" else "_" for n in names) + ")")
    kbd = "\n".join(lines) + "\n"
    C = cfgdesc.code
    pvk = [{"kind": vk["kind"], "o": C(vk["o"]) if vk["kind"] == "key" else 0, "l": vk.get("l", 0),
            "outs": [C(o) for o in vk.get("outs", [])]} for vk in vks]
    pkeys = []
    maxd = 0
    for n in names:
        k = keys[n]
        steps = []
        for s in k.get("steps", []):
            if isinstance(s, int):
                steps.append({"k": "delay", "n": s, "onp": [], "onr": []})
            else:
                steps.append({"k": "cu", "n": 0, "onp": [s[1]] if s[0] == "p" else [], "onr": [s[1]] if s[0] == "r" else []})
        for it in k.get("onp", []):
            if it["k"] == "idle":
                maxd = max(maxd, it["d"])
        pkeys.append({"c": C(n), "t": k["t"], "onp": k.get("onp", []), "onr": k.get("onr", []), "steps": steps,
                      "o": [C(o) for o in PROBE_OUT[:nlayers]] if k["t"] == "probe" else []})
    params = {"vk": pvk, "keys": pkeys, "slack": SLACK, "qcap": QCAP, "maxd": maxd,
              "seqs": [{"ks": [C(k) for k in ks], "v": v} for ks, v in seqs], "seqT": seq_timeout}
    return kbd, params


# ---- the instance family -----------------------------------------------------------------------
def family(tier):
    """(name, vks, keys, direct ops [(vkey index0, op)], max layout states, qmax)"""
    F = []
    x, y = VK_KEY("x"), VK_KEY("y")
    pr = cust([op(1, "press")], [op(1, "release")])      # the virtual key follows the physical key
    # the four operators on one key-carrying virtual key, from a key (on-press / on-release) and directly
    F.append(("ops1", [x], {"a": cust([op(1, "toggle")]), "b": pr},
              [(0, o) for o in OPS], 3, 3))
    # hold-for-duration D in {2,3} (+ re-arming, + explicit operations in between)
    F.append(("hfd2", [x], {"a": cust([hfd(1, 2)]), "b": cust([op(1, "toggle")])}, [(0, "tap"), (0, "release")], 3, 3))
    # two hold-for-duration actions with different times on the same virtual key: the time of the MOST RECENT
    # activation counts (4 then 2 while pending => released 2 after the second; 3/2 cannot tell: one tick-end has
    # passed before the second key can be processed)
    F.append(("hfd42", [x], {"a": cust([hfd(1, 4)]), "b": cust([hfd(1, 2)])}, [(0, "press")], 3, 3))
    if tier != "quick":
        F.append(("hfd3", [x], {"a": cust([hfd(1, 3)]), "b": cust([hfd(1, 2)])}, [(0, "press")], 3, 3))
    # on-idle D in {2,3}
    F.append(("idle2", [x], {"a": cust([idle(1, "tap", 2)]), "b": pr}, [(0, "toggle")], 3, 3))
    F.append(("idle3", [x, y], {"a": cust([idle(1, "press", 3)]), "b": cust([idle(2, "tap", 2)], [op(1, "release")])},
              [(1, "tap")] if tier != "quick" else [], 3, 3))
    # two on-idle entries pending at once on the SAME virtual key, different idle times (they fire on different
    # ticks, so the set's iteration order does not matter): each entry fires once, firing one leaves the other armed
    F.append(("idle_tt", [x], {"a": cust([idle(1, "tap", 2), idle(1, "tap", 3)]), "b": pr}, [(0, "toggle")], 3, 3))
    F.append(("idle_pr", [x], {"a": cust([idle(1, "press", 2), idle(1, "release", 4)]), "b": cust([op(1, "toggle")])},
              [(0, "tap")], 3, 3))
    # on-idle counts only real idle time: a pending hold-for-duration (of a virtual key that leaves no pressed key
    # behind: a held layer) is not idle time; the hold outlasts the idle time
    F.append(("idle_hfd_lwh", [VK_LWH(1), y], {"a": cust([hfd(1, 4)]), "b": cust([idle(2, "tap", 2)]), "p": probe()},
              [], 3, 2))
    # layer-while-held virtual key seen through a probe key
    F.append(("lwh", [VK_LWH(1), y], {"a": cust([op(1, "press")], [op(1, "release")]), "p": probe()},
              [(0, "toggle"), (0, "tap"), (1, "toggle")] if tier != "quick" else [(0, "toggle"), (1, "tap")],
              3, 3 if tier != "quick" else 2))
    # macro items as triggers, macro-carrying virtual key
    F.append(("macro", [x, VK_MAC("y")],
              {"a": macro(("p", op(1, "press")), 2, ("p", op(1, "release"))), "b": cust([op(2, "tap")])},
              [(0, "toggle"), (1, "tap")] if tier != "quick" else [(0, "toggle")], 4, 3 if tier != "quick" else 2))
    if tier != "quick":
        F.append(("idle_lwh_pr", [VK_LWH(1), y], {"a": cust([idle(1, "press", 2), idle(1, "release", 3), idle(2, "tap", 4)]),
                                                  "p": probe()}, [(0, "toggle")], 3, 3))
        F.append(("idle_hfd_mac", [VK_MAC("y", "z"), x], {"a": cust([hfd(1, 3), idle(2, "tap", 2)]), "b": cust([idle(2, "press", 3)])},
                  [(1, "release")], 3, 3))
        F.append(("idle_hfd_lwh3", [VK_LWH(1), y], {"a": cust([hfd(1, 4), idle(2, "toggle", 3)]), "p": probe()},
                  [(1, "tap")], 3, 3))
        F.append(("ops2", [x, y], {"a": cust([op(1, "tap"), op(2, "toggle")]), "b": cust([op(2, "press")], [op(1, "toggle")])},
                  [(0, "press"), (0, "release"), (1, "tap")], 4, 3))
        F.append(("three", [x, VK_LWH(1), VK_MAC("y", "z")],
                  {"a": cust([op(1, "toggle"), op(2, "toggle")]), "p": probe()},
                  [(0, "tap"), (1, "release"), (2, "press")], 3, 2))
        F.append(("hfd_idle", [x], {"a": cust([hfd(1, 3)]), "b": cust([idle(1, "toggle", 3)])},
                  [(0, "toggle")], 3, 3))
        F.append(("macro2", [x, y],
                  {"a": macro(("p", op(1, "toggle")), ("p", op(2, "tap")), 1, ("r", op(1, "toggle"))),
                   "b": cust([op(1, "release")], [op(2, "toggle")])},
                  [(0, "press"), (1, "toggle")], 4, 3))
        F.append(("lwh2", [VK_LWH(1), VK_LWH(2)], {"a": cust([op(1, "toggle")]), "b": cust([hfd(2, 3)]), "p": probe()},
                  [(0, "release"), (1, "tap")], 4, 3))
        F.append(("ops1_q4", [x], {"a": cust([op(1, "toggle")]), "b": pr}, [(0, "toggle"), (0, "tap")], 4, 4))
    return F


def mc_instance(name, kbd, params, keys, direct, max_states, qmax):
    fkset = "{" + ", ".join('<<%d, "%s">>' % (i, o) for i, o in direct) + "}"
    return {"name": "c18_" + name, "kbd": kbd, "keys": keys, "qmax": qmax,
            "monitor": {"module": "P_C18", "params": params}, "invariants": [],
            # the direct trigger: the function the TCP server calls after its name lookup (coordinate x = 1)
            "extra_actions":
                "FkSet == %s\n" % fkset +
                "Fk(i, o) == /\\ CanInput\n"
                "            /\\ K' = [K EXCEPT !.L = FakeKeyOp(@, o, 1, i), !.out = <<>>]\n"
                "            /\\ mon' = Mon!MonIn(mon, [e |-> \"fk\", y |-> i, op |-> o])\n"
                "            /\\ UNCHANGED phys\n"
                "            /\\ hist' = Append(hist, <<\"fk\", i, o>>)\n",
            "extra_next": "\\/ (\\E f \\in FkSet : Fk(f[1], f[2]))",
            # pressing a pressed virtual key stacks another state on the same coordinate (up to 64); the
            # exhaustive instances stop at max_states entries (longer pile-ups are driven on the real code)
            "constraint": "VkBound", "extra_defs": "VkBound == Len(K.L.states) <= %d" % max_states}


# ---- random histories beyond the bounds --------------------------------------------------------------
def key_cost(k):
    """(ticks one event of this key may keep virtual key work in flight, may it issue a toggle)"""
    items = list(k.get("onp", [])) + list(k.get("onr", [])) + [s[1] for s in k.get("steps", []) if not isinstance(s, int)]
    cost = 3 + 2 * len(items) + sum(s for s in k.get("steps", []) if isinstance(s, int)) + 2 * len(k.get("steps", []))
    cost += sum(it["d"] + 2 for it in items if it["k"] == "hfd")
    return cost, any(it["op"] == "toggle" for it in items)


def rand_script(rng, kdesc, direct, n_events, gaps, tail, clean=False):
    """Physically consistent key events interleaved with direct operations, at most ~16 events pending.
    clean: a step that may issue a toggle waits until earlier work has drained; otherwise toggles are also issued
    while the key's state is in flight (they must alternate all the same, fix cc71619)."""
    names = list(kdesc)
    down, s, pending = set(), [], 0
    for _ in range(n_events):
        if direct and rng.random() < 0.4:
            i, o = rng.choice(direct)
            step, cost, tog = ["fk", i, o], 2, o == "toggle"
        else:
            n = rng.choice(names)
            cost, tog = key_cost(kdesc[n])
            step = ["u" if n in down else "d", cfgdesc.code(n)]
            down.symmetric_difference_update({n})
        if clean and tog and pending:
            s.append(["t", pending + 1])
            pending = 0
        s.append(step)
        pending += cost
        g = rng.choice(gaps)
        if pending > 14:
            g = max(g, pending)
        if g:
            s.append(["t", g])
            pending = max(0, pending - g)
    for n in sorted(down):
        s += [["t", pending + 1], ["u", cfgdesc.code(n)]]
        pending = key_cost(kdesc[n])[0]
    s.append(["t", tail])
    return s


def finding_scripts(kdesc, direct):
    """Regression scripts for the repaired defect cc71619: a toggle issued while an event of the key is still queued."""
    out = []
    if (0, "toggle") in direct:
        out.append([["fk", 0, "toggle"], ["fk", 0, "toggle"], ["t", 8]])
        out.append([["fk", 0, "press"], ["fk", 0, "toggle"], ["t", 8]])
    for n, k in kdesc.items():
        if k["t"] == "cust" and any(it["op"] == "toggle" for it in k["onp"]):
            c = cfgdesc.code(n)
            out.append([["d", c], ["u", c], ["d", c], ["t", 8], ["u", c], ["t", 8]])
    return out


def equiv_instance():
    """The same four operations on one virtual key from three triggers at once: keys (on-press), single-item
    macros, direct calls.  Too many keys for an exhaustive instance: recorded traces only."""
    kdesc = {}
    for n, o in zip("abcd", OPS):
        kdesc[n] = cust([op(1, o)])
    for n, o in zip("efgh", OPS):
        kdesc[n] = macro(("p", op(1, o)))
    return [VK_KEY("x")], kdesc, [(0, o) for o in OPS]


def hfd_real_instance():
    """Realistic durations (recorded traces only): long and short hold-for-duration on the same virtual key."""
    return [VK_KEY("x")], {"a": cust([hfd(1, 100)]), "b": cust([hfd(1, 30)]), "c": cust([op(1, "release")])}


def hfd_real_scripts(rng, n):
    C = cfgdesc.code
    tap = lambda k, g: [["d", C(k)], ["t", g], ["u", C(k)]]
    S = [tap("a", 1) + [["t", 19]] + tap("b", 1) + [["t", 150]],        # 100 then 30 while pending: up 30 after b
         tap("b", 1) + [["t", 9]] + tap("a", 1) + [["t", 150]],         # 30 then 100: extended
         tap("a", 1) + [["t", 98]] + tap("b", 1) + [["t", 150]],        # re-armed on the last tick of the hold
         tap("a", 1) + [["t", 99]] + tap("b", 1) + [["t", 150]],        # one tick too late: released and pressed again
         tap("a", 1) + [["t", 40]] + tap("c", 1) + [["t", 5]] + tap("b", 1) + [["t", 150]]]
    for _ in range(n):
        s = []
        for _ in range(rng.randint(2, 6)):
            s += tap(rng.choice("aabbc"), rng.choice([1, 2])) + [["t", rng.choice([1, 5, 28, 29, 30, 31, 60, 98, 99, 100, 101, 130])]]
        S.append(s + [["t", 140]])
    return S


def idle_hfd_real_instance():
    """Realistic durations (recorded traces only): on-idle armed together with a hold-for-duration of a layer."""
    return [VK_LWH(1), VK_KEY("x")], {"a": cust([hfd(1, 50), idle(2, "tap", 20)]), "b": cust([idle(2, "tap", 20)]),
                                      "p": probe()}


def idle_hfd_real_scripts(rng, n):
    C = cfgdesc.code
    tap = lambda k, g: [["d", C(k)], ["t", g], ["u", C(k)]]
    S = [tap("a", 2) + [["t", 120]],                                   # x is tapped 20 idle ticks after the hold ended
         tap("a", 2) + [["t", 30]] + tap("p", 2) + [["t", 120]],       # probe typed on the held layer; restarts the idle time
         tap("b", 2) + [["t", 10]] + tap("a", 2) + [["t", 120]]]
    for _ in range(n):
        s = []
        for _ in range(rng.randint(2, 5)):
            s += tap(rng.choice("aabp"), rng.choice([1, 2])) + [["t", rng.choice([1, 5, 19, 20, 21, 30, 49, 50, 51, 75])]]
        S.append(s + [["t", 120]])
    return S


def idle_multi_real_instance():
    """Realistic durations (recorded traces only): several on-idle entries pending on the same virtual key."""
    return [VK_KEY("x"), VK_LWH(1)], {"a": cust([idle(1, "tap", 20), idle(1, "tap", 50)]),
                                      "b": cust([idle(2, "press", 25), idle(2, "release", 60)]),      # distinct times: same-tick fires have no order
                                      "c": cust([idle(1, "toggle", 35)]), "p": probe()}


def idle_multi_real_scripts(rng, n):
    C = cfgdesc.code
    tap = lambda k, g: [["d", C(k)], ["t", g], ["u", C(k)]]
    S = [tap("a", 2) + [["t", 160]],                                            # x tapped after 20 idle, again after 50 more
         tap("b", 2) + [["t", 30]] + tap("p", 2) + [["t", 160]],                # layer held from 20 idle on, left after 50 more
         tap("a", 2) + [["t", 10]] + tap("c", 2) + [["t", 200]],
         tap("a", 2) + [["t", 25]] + tap("a", 2) + [["t", 200]]]                # re-armed after the first entry fired
    for _ in range(n):
        s = []
        for _ in range(rng.randint(1, 4)):
            s += tap(rng.choice("aabcp"), rng.choice([1, 2])) + [["t", rng.choice([1, 5, 19, 20, 21, 26, 30, 36, 49, 50, 51, 61, 80])]]
        S.append(s + [["t", 200]])
    return S


def seq_instance():
    """The sequence-termination trigger (defseq): not in the L1 model; covered by recorded traces only."""
    vks = [VK_KEY("x"), VK_KEY("y")]
    kdesc = {"l": sldr(), "a": seqkey(), "b": seqkey(), "c": seqkey()}
    return vks, kdesc, [(["a", "b"], 1), (["b"], 2)], 50


def seq_script(rng, n_segments):
    """Segments of direct operations (drained) alternating with: leader, then keys that end sequence mode
    (a b -> tap v1, b -> tap v2, anything else cancels).  No virtual key event is in flight while the mode is on
    (its output key would be taken as sequence input - C12's subject)."""
    C = cfgdesc.code
    s = []
    for _ in range(n_segments):
        pend = 0
        for _ in range(rng.randint(0, 3)):
            o = rng.choice(["press", "release", "tap"])
            s.append(["fk", rng.choice([0, 1]), o])
            pend += 2
            g = rng.choice([0, 1, 2])
            if g:
                s.append(["t", g])
                pend = max(0, pend - g)
        s.append(["t", pend + 2])
        burst = rng.random() < 0.3
        for k in ["l"] + rng.choice([["a", "b"], ["b"], ["c"], ["a", "c"], ["a", "b"]]):
            s.append(["d", C(k)])
            g = 0 if burst else rng.choice([0, 1, 2])
            if g:
                s.append(["t", g])
            s.append(["u", C(k)])
            g = 0 if burst else rng.choice([0, 1, 3])
            if g:
                s.append(["t", g])
        s.append(["t", 14])
    return s


def run(tier, seed):
    pid = "C18"
    res = flow.Result(pid, tier, seed)
    rng = random.Random(seed)
    wd = workdir("c18")
    jobs_random, witness_jobs = [], []
    for name, vks, kdesc, direct, max_states, qmax in family(tier):
        kbd, params = make(vks, kdesc)
        keys = [cfgdesc.code(k) for k in kdesc]
        inst = mc_instance(name, kbd, params, keys, direct, max_states, qmax)
        r = mc.check_instance(inst, wd, workers=4, timeout=1500)
        res.add_instance(r)
        if len(res.samples) < 4:
            res.samples.append({"instance": name, "kbd": kbd, "direct_ops": direct, "states": r["states"],
                                "edges": r.get("edges")})
        ws = flow.witness_scripts(r["monerr_file"], 25) + flow.witness_scripts(r["panic_file"], 10)
        scripts = [flow.hist_to_script(w["h"], 12) for w in ws] + \
                  [flow.hist_to_script(d["h"], 12) for d in r.get("drift_samples", [])]
        if scripts:
            witness_jobs.append({"cfg": kbd, "params": params, "tag": "w:" + name, "scripts": scripts})
        if name.startswith("ops1"):
            witness_jobs.append({"cfg": kbd, "params": params, "tag": "f:" + name, "scripts": finding_scripts(kdesc, direct)})
        n = 40 if tier == "quick" else 250
        alld = [(i, o) for i in range(len(vks)) for o in OPS]
        D = max([params["maxd"]] + [it["d"] for k in kdesc.values() for it in k.get("onp", [])] + [2])
        scripts = [rand_script(rng, kdesc, alld if j % 2 else direct, rng.randint(4, 30 if tier == "quick" else 120),
                               [0, 0, 1, 1, 2, D - 1, D, D + 1, 2 * D + 2], 30, clean=j % 4 == 0) for j in range(n)]
        jobs_random.append({"cfg": kbd, "params": params, "tag": "r:" + name, "scripts": scripts})
    vks, kdesc, seqs, st = seq_instance()
    kbd, params = make(vks, kdesc, seqs, st)
    jobs_random.append({"cfg": kbd, "params": params, "tag": "s:seq",
                        "scripts": [seq_script(rng, rng.randint(1, 5)) for _ in range(30 if tier == "quick" else 200)]})
    res.samples.append({"instance": "seq (recorded traces only)", "kbd": kbd})
    vks, kdesc = hfd_real_instance()
    kbd, params = make(vks, kdesc)
    jobs_random.append({"cfg": kbd, "params": params, "tag": "h:hfd_real",
                        "scripts": hfd_real_scripts(rng, 20 if tier == "quick" else 200)})
    vks, kdesc = idle_multi_real_instance()
    kbd, params = make(vks, kdesc)
    jobs_random.append({"cfg": kbd, "params": params, "tag": "m:idle_multi_real",
                        "scripts": idle_multi_real_scripts(rng, 20 if tier == "quick" else 200)})
    vks, kdesc = idle_hfd_real_instance()
    kbd, params = make(vks, kdesc)
    jobs_random.append({"cfg": kbd, "params": params, "tag": "i:idle_hfd_real",
                        "scripts": idle_hfd_real_scripts(rng, 20 if tier == "quick" else 200)})
    vks, kdesc, direct = equiv_instance()
    kbd, params = make(vks, kdesc)
    jobs_random.append({"cfg": kbd, "params": params, "tag": "e:equiv",
                        "scripts": [rand_script(rng, kdesc, direct, rng.randint(6, 40), [0, 1, 1, 2, 3, 6], 30, clean=j % 4 == 0)
                                    for j in range(40 if tier == "quick" else 300)]})
    for label, jobs in (("witness", witness_jobs), ("random", jobs_random)):
        if not jobs:
            continue
        jobs = shard_local_index(jobs)
        errs, trace = record_and_validate(res, "P_C18", jobs, wd, "c18_" + label)
        seen = {}
        res.extra["rejected_traces_" + label] = len(errs)
        for e in sorted(errs, key=lambda e: len(script_of(jobs, e["job"], 0)[1])):
            j, s = script_of(jobs, e["job"], 0)
            # at most 3 replay files (the shortest histories) per rejection message and configuration
            k = (e["err"], j["cfg"])
            seen[k] = seen.get(k, 0) + 1
            if seen[k] > 3:
                continue
            flow.classify(res, pid, e["err"], e["err"] + " cfg=" + j["cfg"],
                          {"property": pid, "cfg": j["cfg"], "params": j["params"], "script": s, "err": e["err"],
                           "monitor": "P_C18"},
                          "%s_%d" % (label, len(res.violations)))
        if label == "random":
            res.samples.append({"random_history": jobs[0]["scripts"][0][:30], "cfg": jobs[0]["cfg"]})
    return flow.finish(
        res, "model_checking",
        "TLC explores L1||P_C18 for every interleaving of physically consistent key events (keys carrying on-press / "
        "on-release / on-idle / hold-for-duration / macro-item virtual key operations), direct handle_fakekey_action "
        "calls and ticks (<=3 events pending, D in {2,3}) per instance of 1-3 virtual keys (key / layer-while-held / "
        "macro); every model transition is replayed on the real code; model-level counterexamples and random operation "
        "histories (gaps around D, all four direct operations on every virtual key) are recorded from the code and "
        "validated by TLC against P_C18.",
        assumptions=["deterministic stepper (tick_ms(1) then can_block_update_idle_waiting(1))",
                     "the direct trigger is handle_fakekey_action after the TCP server's name lookup; the socket is not exercised",
                     "kanata's own is_idle() result is taken as the idle signal (with a lower bound from pending virtual key work)",
                     "sequence-termination trigger (defseq) not exercised",
                     "virtual key outputs are distinct otherwise-unused keys; at most one hold-for-duration key pending per instance"])
