"""C04 - layered remapping fidelity.  L2 = P_C04 (abstract layered-keymap model)."""
from props.common import *
import itertools

K = lambda k: {"t": "key", "k": k}
CH = lambda mods, k: {"t": "chord", "mods": mods, "k": k}
MULTI = lambda *a: {"t": "multi", "acs": list(a)}
XX = {"t": "xx"}
TR = {"t": "trans"}
SRC = {"t": "src"}
LWH = lambda l: {"t": "lwh", "l": l}
LSW = lambda l: {"t": "lsw", "l": l}
RELK = lambda k: {"t": "relkey", "k": k}
RELL = lambda l: {"t": "rellayer", "l": l}
ALIAS = lambda n, a: {"t": "alias", "n": n, "a": a}     # written as @n with (defalias n <a>); means <a> (docs: Aliases)


def family(tier, rng):
    keys = ["a", "b", "c"]
    F = []

    def add(name, layers, defcfg=None, ks=None, unmapped=None, syntax=None):
        d = {"keys": ks or keys, "layers": layers, "defcfg": dict(defcfg or {})}
        if unmapped:
            d["unmapped"] = unmapped
        if syntax:
            # which layer is written as deflayer / deflayermap (all keys) / deflayermap without its transparent entries:
            # the description (and so the P_C04 parameters) is the same whichever way a layer is spelled
            d["syntax"] = syntax
        F.append((name, d))

    # two keys holding the same layer: the layer lasts until both are released (each release undoes its own press)
    add("two_holders", [{"a": LWH(1), "b": LWH(1), "c": K("x")},
                        {"a": TR, "b": TR, "c": K("y")}], syntax=["sparse", "layer"])
    # keys outside defsrc: pass through with process-unmapped-keys, no-op on every layer with block-unmapped-keys
    add("unmapped_block", [{"a": LSW(1), "b": LWH(2)}, {"a": LSW(0), "b": TR}, {"a": K("x"), "b": TR}],
        {"process-unmapped-keys": "yes", "block-unmapped-keys": "yes"}, ks=["a", "b"], unmapped=["c"],
        syntax=["map", "map", "map"])
    add("unmapped_pass", [{"a": LSW(1), "b": LWH(2)}, {"a": LSW(0), "b": TR}, {"a": K("x"), "b": TR}],
        {"process-unmapped-keys": "yes"}, ks=["a", "b"], unmapped=["c"])

    add("lwh_basic", [{"a": K("x"), "b": LWH(1), "c": K("c")},
                      {"a": K("1"), "b": TR, "c": MULTI(K("lctl"), K("z"))}])
    add("lwh_stack", [{"a": K("a"), "b": LWH(1), "c": LWH(2)},
                      {"a": K("1"), "b": TR, "c": TR},
                      {"a": TR, "b": K("2"), "c": TR}], syntax=["map", "layer", "layer"])
    # several transparent items in one multi (directly, through aliases = nested multis, and one found through the
    # other): each of them searches below the layer its multi was found on, whatever its siblings found
    add("multi_two_trans", [{"a": K("x"), "b": LWH(1), "c": LWH(2)},
                            {"a": MULTI(TR, K("lalt"), TR), "b": TR, "c": TR},
                            {"a": MULTI(ALIAS("sb", MULTI(K("lsft"), TR)), ALIAS("cb", MULTI(K("lctl"), TR))),
                             "b": TR, "c": TR}], syntax=["layer", "map", "sparse"])
    add("lsw_delegate", [{"a": K("x"), "b": LSW(1), "c": LWH(2)},
                         {"a": TR, "b": LSW(0), "c": TR},
                         {"a": TR, "b": MULTI(TR, K("lsft")), "c": TR}],
        {"delegate-to-first-layer": "yes"}, syntax=["layer", "sparse", "layer"])
    # use-defsrc outputs the defsrc key whatever the layers hold - also with delegate-to-first-layer, where only the
    # transparent search gets the first layer as a further stop (bare, inside a multi, on held and switched-to layers,
    # at positions whose first-layer action is a key, a layer-while-held and a layer-switch)
    add("src_delegate", [{"a": K("x"), "b": LWH(1), "c": LSW(2)},
                         {"a": SRC, "b": TR, "c": MULTI(K("lsft"), SRC)},
                         {"a": MULTI(K("lctl"), SRC), "b": SRC, "c": LSW(0)}],
        {"delegate-to-first-layer": "yes"}, syntax=["layer", "layer", "map"])
    add("chord_multi", [{"a": CH(["lsft"], "x"), "b": MULTI(K("lctl"), K("y")), "c": LWH(1)},
                        {"a": SRC, "b": XX, "c": TR}])
    add("release_ops", [{"a": MULTI(K("x"), LWH(1)), "b": RELK("x"), "c": K("y")},
                        {"a": TR, "b": RELL(1), "c": K("z")}])
    add("v1_compat", [{"a": K("x"), "b": LWH(1), "c": LWH(2)},
                      {"a": K("1"), "b": TR, "c": TR},
                      {"a": TR, "b": K("2"), "c": TR}],
        {"transparent-key-resolution": "to-base-layer", "delegate-to-first-layer": "yes"})
    if tier == "thorough":
        add("lwh_stack_block", [{"a": K("a"), "b": LWH(1), "c": LWH(2)},
                                {"a": K("1"), "b": TR, "c": TR},
                                {"a": TR, "b": K("2"), "c": TR}], {"block-unmapped-keys": "yes"})
        add("four_layers", [{"a": LWH(1), "b": LWH(2), "c": K("z")},
                            {"a": TR, "b": LWH(3), "c": K("1")},
                            {"a": LSW(3), "b": TR, "c": MULTI(TR, K("lalt"))},
                            {"a": LSW(0), "b": TR, "c": TR}], {"delegate-to-first-layer": "yes"})
        add("nested_trans", [{"a": K("x"), "b": LWH(1), "c": LWH(2)},
                             {"a": MULTI(K("lsft"), TR), "b": TR, "c": TR},
                             {"a": MULTI(K("lctl"), TR), "b": K("y"), "c": TR}])
        add("same_key_two_coords", [{"a": K("x"), "b": K("x"), "c": LWH(1)},
                                    {"a": CH(["lsft"], "x"), "b": RELK("x"), "c": TR}])
        for i in range(10):
            F.append(("rand%d" % i, random_desc(rng, keys)))
    return F


def random_action(rng, nlayers, depth=0):
    r = rng.random()
    outs = ["x", "y", "z", "1", "lsft", "lctl"]
    if r < 0.3:
        return K(rng.choice(outs))
    if r < 0.4:
        return CH([rng.choice(["lsft", "lctl"])], rng.choice(["x", "y", "1"]))
    if r < 0.55:
        return TR
    if r < 0.6:
        return XX
    if r < 0.65:
        return SRC
    if r < 0.8 and nlayers > 1:
        return LWH(rng.randrange(nlayers))
    if r < 0.86 and nlayers > 1:
        return LSW(rng.randrange(nlayers))
    if r < 0.9:
        return RELK(rng.choice(outs))
    if r < 0.93 and nlayers > 1:
        return RELL(rng.randrange(nlayers))
    if depth < 1:
        items = [random_action(rng, nlayers, depth + 1) for _ in range(rng.randint(2, 3))]
        if rng.random() < 0.3:      # "modifier + whatever is below" aliases combined in one multi
            items = [ALIAS("m%d" % rng.randrange(10 ** 6), MULTI(K(rng.choice(["lsft", "lctl"])), TR))
                     if rng.random() < 0.6 else x for x in items]
        return MULTI(*items)
    return K(rng.choice(outs))


def random_desc(rng, keys):
    nl = rng.randint(1, 4)
    layers = [{k: random_action(rng, nl) for k in keys} for _ in range(nl)]
    cfg = {}
    if rng.random() < 0.4:
        cfg["delegate-to-first-layer"] = "yes"
    if rng.random() < 0.3:
        cfg["transparent-key-resolution"] = "to-base-layer"
    d = {"keys": keys, "layers": layers, "defcfg": cfg}
    if rng.random() < 0.3:
        cfg["block-unmapped-keys"] = "yes"
    if rng.random() < 0.5:
        cfg["process-unmapped-keys"] = "yes"
        d["unmapped"] = ["q"]
    return d


def run(tier, seed):
    pid = "C04"
    res = flow.Result(pid, tier, seed)
    rng = random.Random(seed)
    wd = workdir("c04")
    fam = family(tier, rng)
    jobs_random = []
    witness_jobs = []
    for name, desc in fam:
        kbd = cfgdesc.render_kbd(desc)
        params = cfgdesc.c04_params(desc)
        keys = [cfgdesc.code(k) for k in list(desc["keys"]) + list(desc.get("unmapped", []))]
        inst = {"name": "c04_" + name, "kbd": kbd, "keys": keys, "qmax": 3,
                "monitor": {"module": "P_C04", "params": params}}
        r = mc.check_instance(inst, wd, workers=4, timeout=900)
        res.add_instance(r)
        if len(res.samples) < 3:
            res.samples.append({"instance": name, "kbd": kbd, "states": r["states"], "edges": r.get("edges")})
        # model-level counterexamples and drifting edges are replayed on the real code and judged there
        ws = flow.witness_scripts(r["monerr_file"], 50) + flow.witness_scripts(r["panic_file"], 20)
        scripts = [flow.hist_to_script(w["h"], 4) for w in ws]
        scripts += [flow.hist_to_script(d["h"], 4) for d in r.get("drift_samples", [])]
        if scripts:
            witness_jobs.append({"cfg": kbd, "params": params, "tag": "w:" + name, "scripts": scripts})
        # binding C(iii): random histories beyond the model's bounds (length, pending events)
        # ... on the same description written in every mix of the two layer syntaxes (each layer as deflayer or as
        # deflayermap, the latter with or without its transparent entries): the parameters of P_C04 come from the
        # description, so a layer table that depends on how / in which order the layers are spelled is rejected
        n = 40 if tier == "quick" else 300
        masks = list(itertools.product(("layer", "map"), repeat=len(desc["layers"])))
        per = max(2, -(-n // len(masks)))
        for mi, mask in enumerate(masks):
            syn = [("sparse" if s == "map" and rng.random() < 0.5 else s) for s in mask]
            kbd_m = cfgdesc.render_kbd(dict(desc, syntax=syn))
            scripts = [rand_history(rng, keys, rng.randint(5, 60 if tier == "quick" else 300), [0, 1, 1, 1, 2, 3], tail=6)
                       for _ in range(per)]
            jobs_random.append({"cfg": kbd_m, "params": params, "tag": "r:%s:%d" % (name, mi), "scripts": scripts})
    if tier == "thorough":
        # random configurations of the fragment with 2-6 mapped keys
        allkeys = ["a", "b", "c", "d", "e", "f"]
        for i in range(150):
            ks = allkeys[:rng.randint(2, 6)]
            desc = random_desc(rng, ks)
            desc["syntax"] = [rng.choice(["layer", "map", "sparse"]) for _ in desc["layers"]]
            kbd = cfgdesc.render_kbd(desc)
            codes = [cfgdesc.code(k) for k in list(ks) + list(desc.get("unmapped", []))]
            scripts = [rand_history(rng, codes, rng.randint(5, 300), [0, 1, 1, 1, 2, 3], tail=6) for _ in range(20)]
            jobs_random.append({"cfg": kbd, "params": cfgdesc.c04_params(desc), "tag": "rc:%d" % i, "scripts": scripts})
    for label, jobs in (("witness", witness_jobs), ("random", jobs_random)):
        if not jobs:
            continue
        jobs = shard_local_index(jobs)
        errs, trace = record_and_validate(res, "P_C04", jobs, wd, "c04_" + label)
        for e in errs:
            j, s = script_of(jobs, e["job"], 0)
            flow.classify(res, pid, e["err"], e["err"] + " cfg=" + j["cfg"],
                          {"property": pid, "cfg": j["cfg"], "params": j["params"], "script": s, "err": e["err"], "monitor": "P_C04"},
                          "%s_%d" % (label, len(res.violations)))
        if label == "random" and jobs:
            res.samples.append({"random_history": jobs[0]["scripts"][0][:30], "cfg": jobs[0]["cfg"]})
    if res.drift:
        res.notes.append("model drift: %d edges differ between L1 and the code; verdict falls back to "
                         "monitor-validated traces for those" % res.drift)
    return flow.finish(
        res, "model_checking",
        "TLC explores L1||P_C04 for every physically consistent history over 3 keys with <=3 pending events "
        "(any length, all tick gaps); every model transition is replayed on the real code from a fresh instance "
        "and compared (outputs, idle flags, projected state); random histories beyond the bounds are recorded from "
        "the real code and validated by TLC against P_C04. distinct_nontrivial = distinct model states.",
        assumptions=["deterministic stepper = handle_input_event*, tick_ms(1), can_block_update_idle_waiting(1)",
                     "P_C04 written from the statement and docs/config.adoc",
                     "dev profile build of /repo working tree"])
