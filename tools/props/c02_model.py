#!/usr/bin/env python3
"""C02, the model-checked parts: capacity sub-model (TLC on L1 with scaled-down capacities and the arbitrary
environment) and the parser / run-time contract table (spec/Contracts.tla)."""
import concurrent.futures, json, os, re, time
from kv import *
import kv, cfgdesc

CAPS = {"queue": 4, "states": 4, "extra": 2, "actionq": 2, "oneshot": 2, "seqs": 2, "stack": 3, "since": 3, "hist": 0}

# model mutant (Bug) -> prefix of the panic sites it brings back
REPAIRED_SITES = {"c02_layer_collect": "heapless:layer_stack", "c02_repeat_reentrant": "stack-overflow:repeat",
                  "c02_wdelay_unchecked": "add-overflow:waiting.delay+ticks"}

MC_ARB = r'''---- MODULE %(mod)s ----
EXTENDS Kanata, Json
%(consts)s

EnvKeys == %(keys)s
Kinds == %(kinds)s

VARIABLES K, hist
vars == <<K, hist>>
Init == K = InitK /\ hist = <<>>
\* breadth-first depth bound (hist is not part of the view: the first visit of a state is a shortest one)
Alive == K.L.panic = "" /\ Len(hist) < %(depth)d
\* the arbitrary environment: any event kind for any key regardless of the physical state, no bound on pending events
In(k, c) == /\ Alive
            /\ K' = HandleInput(K, k, c)
            /\ hist' = Append(hist, <<k, c>>)
Tick == /\ Alive
        /\ K' = StepTick(K).K
        /\ hist' = Append(hist, <<"t">>)
Next == (\E c \in EnvKeys : \E k \in Kinds : In(k, c)) \/ Tick
\* all panicked states of one site that begin with the same event are one state: one witness (the first reached,
\* breadth first) per site and first event
View == IF K.L.panic # "" THEN <<K.L.panic, Head(hist)>> ELSE <<K>>
PanicProbe == K.L.panic = "" \/ PrintT(<<"PANIC", ToJson([h |-> hist, site |-> K.L.panic])>>)
====
'''
MC_ARB_CFG = CONST_CFG + '''INIT Init
NEXT Next
VIEW View
CHECK_DEADLOCK FALSE
INVARIANT PanicProbe
'''


def instances(tier):
    row = "(layer-while-held l1) (layer-while-held l2) (one-shot 2 (layer-while-held l1))"
    I = [
        {"name": "layers", "depth": (6, 8), "keys": ["a", "b", "c"], "qkeys": ["a", "c"], "kinds": ["d", "u", "p"],
         "kbd": "(defsrc a b c)\n(deflayer l0 %s)\n(deflayer l1 %s)\n(deflayer l2 %s)\n" % (row, row, row),
         "caps": {}, "scaled": {"rep": 4}, "bug": "c02_layer_collect"},
        {"name": "index_rpt", "depth": (5, 9), "keys": ["a", "b", "c", "d"], "kinds": ["d", "u"],
         "kbd": "(defsrc a b c d)\n(deflayer l0 (tap-dance 2 ()) (tap-dance-eager 2 ()) (multi rpt-any) (fork rpt-any x (lsft)))\n",
         "alt_kbd": ["(defsrc a b c d)\n(deflayer l0 (tap-dance 2 (x)) (tap-dance-eager 2 (x)) (multi rpt-any) (fork rpt-any x (lsft)))\n"],
         "caps": {}, "bug": "c02_repeat_reentrant"},
        # u16 scaled to 7 and the timeouts to 4, so that only a press held back for a whole timeout (not the one or two
        # ticks every event spends in the queue) overflows `delay + ticks`: the witnesses stay witnesses at the real scale
        {"name": "wdelay", "depth": (11, 11), "keys": ["a", "b"], "qkeys": ["a"], "kinds": ["d", "u"],
         "kbd": "(defcfg rapid-event-delay 4)\n(defsrc a b c)\n(deflayer l0 (tap-hold 0 4 x y) (tap-hold 0 4 z w) (one-shot 4 lsft))\n",
         "caps": {"u16max": 7, "since": 7}, "bug": "c02_wdelay_unchecked",
         "scaled": {"tick": 9363,
                    "kbd": "(defcfg rapid-event-delay 37452)\n(defsrc a b c)\n(deflayer l0 (tap-hold 0 37452 x y) (tap-hold 0 37452 z w) (one-shot 37452 lsft))\n"}},
        {"name": "wrapping", "depth": (5, 7), "keys": ["a", "b", "c"], "kinds": ["d", "u", "p"],
         "kbd": "(defsrc a b c)\n(deflayer l0 (macro x y) (one-shot 2 lsft) (multi lctl lalt))\n", "caps": {}},
    ]
    # chords v2 (spec/ChordsV2.tla, real capacities 16 / 10 / 32): a flood of presses of one key reaches the 16-entry
    # scratch list (with releases in the environment the instance has > 5 M states at this depth: not used)
    I.append({"name": "chv2_flood", "depth": (18, 22), "keys": ["a"], "kinds": ["d"],
              "kbd": "(defcfg concurrent-tap-hold yes)\n(defsrc a b)\n(deflayer l0 a b)\n(defchordsv2 (a b) x 3 all-released ())\n",
              "caps": {"queue": 32}})
    if tier == "quick":
        for i in I:
            i["keys"] = i.get("qkeys", i["keys"])
    if tier != "quick":
        I.append({"name": "chords_td", "depth": (6, 8), "keys": ["a", "b", "c"], "kinds": ["d", "u", "p"],
                  "kbd": "(defsrc a b c)\n(defchords cg 2 (a) x (b) y (a b) z)\n(deflayer l0 (chord cg a) (chord cg b) (tap-dance 2 (x y)))\n",
                  "caps": {"u16max": 3}, "bug": "c02_wdelay_unchecked"})
        I.append({"name": "switch_layers", "depth": (6, 8), "keys": ["a", "b", "c"], "kinds": ["d", "u"],
                  "kbd": "(defsrc a b c)\n(deflayer l0 (layer-while-held l1) (switch (a) x break () (layer-while-held l1) fallthrough) (macro-repeat x))\n"
                         "(deflayer l1 _ _ (layer-while-held l1))\n", "caps": {"hist": 1}, "bug": "c02_layer_collect"})
    # cheapest first: the time budget of the tier is spent in this order
    order = ["chv2_flood", "switch_layers", "chords_td", "wrapping", "index_rpt", "layers", "wdelay"]
    I.sort(key=lambda i: order.index(i["name"]) if i["name"] in order else len(order))
    return I


def check_arb(inst, wd, workers, timeout, depth):
    """TLC on one capacity instance, breadth first up to `depth` events.  A timeout is not an error: the PANIC
    probes printed so far are shortest witnesses of the levels completed (reported as complete = False)."""
    t0 = time.time()
    codes = [cfgdesc.code(k) for k in inst["keys"]]
    # an instance probes a configuration the parser accepts today; once the parser refuses it (the repair of several
    # findings) the instance continues with its next configuration, or is skipped
    dump = None
    for kbd_text in [inst["kbd"]] + inst.get("alt_kbd", []):
        try:
            dump, kbd = dump_cfg(kbd_text, codes, wd, "c02cap_" + inst["name"])
            inst["kbd"] = kbd_text
            break
        except ToolError as e:
            if "parse error" not in str(e):
                raise
    if dump is None:
        return {"name": inst["name"], "states": 0, "generated": 0, "depth": 0, "depth_bound": depth, "complete": True,
                "skipped": "the parser rejects the instance's configuration", "panic_states": 0, "sites": {},
                "wall_s": round(time.time() - t0, 1), "tlc_wall_s": 0, "caps": {}, "kbd": inst["kbd"]}
    caps = dict(CAPS)
    caps.update(inst.get("caps", {}))
    consts, c = gen_constants(dump, None, caps, track_hist=caps.get("hist", 0) > 0)
    # "bug": the instance explores L1 with one repaired defect put back (model mutant behind `Bug`), so that TLC still
    # produces a shortest history to the formerly panicking site; the real code must process it to completion
    consts += "\nBugDef == " + tla_val(inst.get("bug", "none"))
    mod = "MC_c02cap_" + inst["name"]
    text = MC_ARB % dict(mod=mod, consts=consts, keys="{" + ", ".join(str(k) for k in codes) + "}",
                         kinds="{" + ", ".join('"%s"' % k for k in inst["kinds"]) + "}", depth=depth)
    open(os.path.join(wd, mod + ".tla"), "w").write(text)
    open(os.path.join(wd, mod + ".cfg"), "w").write(MC_ARB_CFG)
    r = run_tlc(wd, mod, workers=workers, timeout=timeout, heap="4g")
    timed_out = r["rc"] in (124, 137)
    if not timed_out and r["error"] and not r["violated"]:
        raise ToolError("TLC error on %s: %s (see %s)" % (mod, r["error"], r["out"]))
    if not timed_out and r["distinct"] is None:
        raise ToolError("TLC produced no result on %s (rc=%s, see %s)" % (mod, r["rc"], r["out"]))
    pf = os.path.join(wd, mod + ".panic.ndjson")
    n = extract_prints(r["out"], "PANIC", pf)
    sites = {}          # site -> witnesses (one per first event), shortest first
    for line in open(pf):
        w = json.loads(line)
        ws = sites.setdefault(w["site"], [])
        if w["h"] not in ws:
            ws.append(w["h"])
    for ws in sites.values():
        ws.sort(key=len)
        del ws[6:]
    states, generated = r["distinct"] or 0, r["generated"] or 0
    if timed_out:       # last progress line
        for line in open(r["out"], errors="replace"):
            m = re.match(r"Progress\((\d+)\).*?: ([\d,]+) states generated.*?, ([\d,]+) distinct states found", line)
            if m:
                generated, states = int(m.group(2).replace(",", "")), int(m.group(3).replace(",", ""))
    return {"name": inst["name"], "states": states, "generated": generated, "depth": r["depth"], "depth_bound": depth,
            "complete": not timed_out, "panic_states": n, "sites": sites, "wall_s": round(time.time() - t0, 1),
            "tlc_wall_s": round(r["wall_s"], 1), "caps": caps, "kbd": inst["kbd"]}


def hist_steps(h, rep=1, tick=1):
    """model history -> harness script; rep: every input event repeated (each followed by a tick) to reach the
    real capacity; tick: tick factor to reach the real u16 range"""
    s = []
    for st in h:
        if st[0] == "t":
            s.append(["t", tick])
        else:
            if rep > 1:
                for _ in range(rep):
                    s.append([st[0], st[1]])
                    s.append(["t", 1])
            else:
                s.append([st[0], st[1]])
    s.append(["t", 3 * tick])
    return s


def capacity_submodel(tier, seed, wd, acc, run_all, mkjob, notes):
    t0 = time.time()
    insts = instances(tier)
    out = {"instances": [], "states": 0, "generated": 0, "sites_in_model": {}, "caps": CAPS}
    # one instance at a time with 8 TLC workers (the machine is shared); every instance is depth bounded, and a
    # timeout keeps the witnesses of the completed levels instead of failing the check
    budget = 100 if tier == "quick" else 800
    results = []
    for i in insts:
        left = budget - (time.time() - t0)
        r = check_arb(i, wd, 8, max(20, min(60 if tier == "quick" else 240, int(left))), i["depth"][0 if tier == "quick" else 1])
        results.append(r)
        if r.get("skipped"):
            notes.append("capacity sub-model: instance %s skipped: %s" % (i["name"], r["skipped"]))
        if not r["complete"]:
            notes.append("capacity sub-model: TLC timed out on instance %s at depth bound %d after %d states (machine load?); "
                         "the witnesses of the completed levels are used" % (i["name"], r["depth_bound"], r["states"]))
    jobs = []
    for inst, r in zip(insts, results):
        out["states"] += r["states"]
        out["generated"] += r["generated"]
        out["instances"].append({k: r[k] for k in ("name", "states", "generated", "depth", "depth_bound", "complete", "panic_states", "tlc_wall_s", "wall_s")}
                                | {"sites": sorted(r["sites"])})
        for site, hs in r["sites"].items():
            for wi, h in enumerate(hs):
                scripts = [("model-witness", hist_steps(h))]
                sc = inst.get("scaled")
                cfg2 = None
                if sc:
                    if sc.get("kbd"):
                        cfg2 = (sc["kbd"], hist_steps(h, sc.get("rep", 1), sc.get("tick", 1)))
                    else:
                        scripts.append(("model-witness-scaled", hist_steps(h, sc.get("rep", 1), sc.get("tick", 1))))
                jobs.append((inst["name"], site, h, mkjob("m:%s:%s:%d" % (inst["name"], site, wi), inst["kbd"], scripts, "capacity:" + inst["name"])))
                if cfg2:
                    jobs.append((inst["name"], site, h, mkjob("m:%s:%s:%d:scaled" % (inst["name"], site, wi), cfg2[0],
                                                              [("model-witness-scaled", cfg2[1])], "capacity:" + inst["name"])))
    res = run_all([j[3] for j in jobs], wd, "cap")
    byid = {j[3]["id"]: j[3] for j in jobs}
    acc.add(res, byid)
    rep = {}
    for name, site, h, j in jobs:
        key = "%s/%s" % (name, site)
        e = rep.setdefault(key, {"site": site, "instance": name, "model_history": h, "witnesses": 0, "reproduced": False, "impl": []})
        if not j["id"].endswith(":scaled"):
            e["witnesses"] += 1
        for r in res:
            if r["j"] == j["id"]:
                if len(e["impl"]) < 8:
                    e["impl"].append({"cls": r.get("cls"), "r": r["r"], "loc": (r.get("loc") or "")[-80:]})
                if r["r"] not in ("ok", "reject") and not e["reproduced"]:
                    e["reproduced"] = True
                    e["model_history"] = h
    # sites that exist in L1 only behind the instance's model mutant are repaired defects: their witnesses are
    # regression histories which the real code must process to completion (a crash there is recorded like any other)
    bug_of = {i["name"]: i.get("bug") for i in insts}
    for e in rep.values():
        b = bug_of.get(e["instance"])
        e["repaired_defect"] = b if b and e["site"].startswith(REPAIRED_SITES.get(b, "\0")) else None
    out["sites_in_model"] = rep
    out["sites_found"] = len(rep)
    out["sites_reproduced_on_code"] = sum(1 for e in rep.values() if e["reproduced"])
    out["regression_sites_processed_to_completion"] = sum(1 for e in rep.values() if e["repaired_defect"] and not e["reproduced"])
    for k, e in rep.items():
        if not e["reproduced"] and not e["repaired_defect"]:
            notes.append("capacity sub-model: panic site %s is reachable in the design (instance %s, history %s) but none of its %d "
                         "witnesses, scaled to the real capacities, crashed the real code (model-only, not a violation)"
                         % (e["site"], e["instance"], e["model_history"], e["witnesses"]))
    out["wall_s"] = round(time.time() - t0, 1)
    log("[c02] capacity sub-model: %d states, sites %s (%.1fs)" % (out["states"], sorted(set(e["site"] for e in rep.values())), time.time() - t0))
    return out


NEST_CFG = {
    # the action through an alias as a defchordsv2 action (chord a+b), and directly on key a of a deflayer (control)
    "chv2": "(defcfg process-unmapped-keys yes concurrent-tap-hold yes)\n(defsrc a b c d)\n(defalias t %s)\n"
            "(deflayer l0 a b (multi use-defsrc lsft) d)\n(defchordsv2 (a b) @t 30 all-released ())\n",
    "layer": "(defcfg process-unmapped-keys yes concurrent-tap-hold yes)\n(defsrc a b c d)\n(defalias t %s)\n"
             "(deflayer l0 @t b (multi use-defsrc lsft) d)\n",
}


def nest_family(tier, seed, wd, acc, run_all, mkjob, notes, tlc_out):
    """spec/NestV2.tla (printed in the Contracts TLC run): every action form with sub-actions x every position x
    {_, use-defsrc, rpt-any}, depth 1 exhaustively and depth 2 (quick: a seeded sample), behind an alias as a defchordsv2 action
    and, as the control, directly in a deflayer.  Outcome relation NvOk: rejected by the parser, or every history of the
    stimulation family is processed to completion (a crash is recorded by `acc` like any other: a violation)."""
    import cfggen, random
    t0 = time.time()
    cases, hists = [], []
    for tag, dest in (("NESTCASE", cases), ("NESTHIST", hists)):
        f = os.path.join(wd, "nest.%s.ndjson" % tag.lower())
        extract_prints(tlc_out, tag, f)
        dest += [json.loads(x) for x in open(f) if x.strip()]
    if not cases or not hists:
        raise ToolError("NestV2.tla printed no cases")
    code = {k: cfgdesc.code(k) for k in "abcd"}
    scripts = {}
    for ctx in NEST_CFG:
        scripts[ctx] = []
        for h in sorted(hists, key=lambda h: (h["pre"], h["fin"], h["trig"])):
            st = [[x[0], x[1] if x[0] == "t" else code[x[1]]] for x in h["steps"]
                  if not (ctx == "layer" and x[0] != "t" and x[1] == "b")]
            scripts[ctx].append(("nest-%s:%d:%s:%s" % (ctx, h["pre"], h["fin"], "trig" if h["trig"] else "notrig"), st))
    d1 = [c for c in cases if c["depth"] <= 1]      # the leaf alone (depth 0) and every single position
    d2 = [c for c in cases if c["depth"] == 2]
    d2.sort(key=lambda c: c["text"] + c["leaf"])
    if tier == "quick":
        d2 = random.Random(seed).sample(d2, min(len(d2), 120))
    sel = d1 + d2
    texts, meta = [], []
    for c in sel:
        for ctx in ("chv2", "layer"):
            texts.append(NEST_CFG[ctx] % c["text"])
            meta.append((ctx, c))
    accd, ast = cfggen.accepted(texts, wd, "nestacc", chunk=1500)
    jobs = []
    n_acc = {"chv2": 0, "layer": 0}
    for i, ((ctx, c), t, a) in enumerate(zip(meta, texts, accd)):
        if a is None:
            continue
        n_acc[ctx] += 1
        jobs.append(mkjob("n:%s:%d" % (ctx, i), t, scripts[ctx], "nest-%s:%s" % (ctx, c["text"])))
    res = run_all(jobs, wd, "nest")
    byid = {j["id"]: j for j in jobs}
    acc.add(res, byid)
    bad = sorted(set(byid[r["j"]]["label"] for r in res if r["r"] not in ("ok", "reject")))
    out = {"forms_positions": len(d1) // 3 - 1, "leaves": 3, "cases_depth1": len(d1), "cases_depth2_enumerated": len([c for c in cases if c["depth"] == 2]),
           "cases_depth2_run": len(d2), "histories_per_case": len(hists),
           "chv2": {"texts": len(sel), "accepted": n_acc["chv2"], "rejected": len(sel) - n_acc["chv2"]},
           "layer_control": {"texts": len(sel), "accepted": n_acc["layer"], "rejected": len(sel) - n_acc["layer"]},
           "executions": len(res), "cases_violating_NvOk": bad[:20], "n_cases_violating_NvOk": len(bad), "wall_s": round(time.time() - t0, 1)}
    log("[c02] nest family: %d cases; chv2 accepted %d, control accepted %d, %d executions, violating %d (%.1fs)" %
        (len(sel), n_acc["chv2"], n_acc["layer"], len(res), len(bad), time.time() - t0))
    return out


def reload_family(tier, seed, wd, acc, run_all, mkjob, notes, tlc_out):
    """spec/ReloadIdx.tla (printed in the Contracts TLC run): 1-3 configuration files x two reload-request actions
    (lrld, lrld-next, lrld-prev, (lrld-num N), N in 1 2 3 4 65535) on keys a and b x 7 histories that carry a request up
    to the deferred reload.  Run on the real code one processing-loop iteration per tick (crash worker, mode "loop") with
    the files on disk, because tick_ms alone never performs the reload."""
    import cfggen
    t0 = time.time()
    cases, hists = [], []
    for tag, dest in (("RELOADCASE", cases), ("RELOADHIST", hists)):
        f = os.path.join(wd, "reload.%s.ndjson" % tag.lower())
        extract_prints(tlc_out, tag, f)
        dest += [json.loads(x) for x in open(f) if x.strip()]
    if not cases or not hists:
        raise ToolError("ReloadIdx.tla printed no cases")
    code = {k: cfgdesc.code(k) for k in "abc"}
    scripts = [("reload:" + h["name"], [[x[0], x[1] if x[0] == "t" else code[x[1]]] for x in h["steps"]]) for h in hists]
    texts = ["(defcfg process-unmapped-keys yes)\n(defsrc a b c)\n(deflayer l0 %s %s c)\n" % (c["a"], c["b"]) for c in cases]
    accd, ast = cfggen.accepted(texts, wd, "rldacc", chunk=1000)
    jobs = []
    for i, (c, t, a) in enumerate(zip(cases, texts, accd)):
        if a is None:
            continue
        # every file has the same content, so the request keys survive the reload
        jobs.append(mkjob("l:%d" % i, t, scripts, "reload:%d files:%s:%s" % (c["nf"], c["a"], c["b"]),
                          extra={"files": [t] * c["nf"], "opts": {"mode": "loop"}}))
    res = run_all(jobs, wd, "rld")
    byid = {j["id"]: j for j in jobs}
    acc.add(res, byid)
    bad = sorted(set(byid[r["j"]]["label"] for r in res if r["r"] not in ("ok", "reject")))
    out = {"cases": len(cases), "accepted": len(jobs), "histories_per_case": len(hists), "executions": len(res),
           "contract_checked_by_tlc": "index valid after every request sequence up to length 3, 1-3 files",
           "cases_violating_RiOk": bad[:20], "n_cases_violating_RiOk": len(bad), "wall_s": round(time.time() - t0, 1)}
    log("[c02] reload family: %d cases, %d accepted, %d executions through the processing loop, violating %d (%.1fs)" %
        (len(cases), len(jobs), len(res), len(bad), time.time() - t0))
    return out


def repaired_conformance(tier, wd, notes):
    """binding B for the L1 arm rewritten after fix 5f7376a (Repeat takes rpt_action before the call): TLC explores a
    small instance whose actions contain rpt-any inside the action it repeats (physically consistent environment of
    tools/mc.py) and every edge is replayed on the real code.  Drift is a model problem: noted, never a violation."""
    import mc
    inst = {"name": "c02_repeat", "keys": [cfgdesc.code(k) for k in "abc"], "qmax": 2 if tier == "quick" else 3,
            "kbd": "(defsrc a b c)\n(deflayer l0 (multi rpt-any) x (fork (multi lctl rpt-any) rpt-any (x)))\n"}
    try:
        r = mc.check_instance(inst, wd, workers=8, timeout=240)
    except ToolError as e:
        notes.append("conformance instance c02_repeat not completed: %s" % str(e)[:200])
        return {"name": inst["name"], "completed": False}
    if r.get("drift"):
        notes.append("model drift on instance c02_repeat: %d of %d edges (L1 Repeat arm vs the code)" % (r["drift"], r.get("replayed", 0)))
    return {k: r.get(k) for k in ("name", "states", "generated", "edges", "replayed", "drift", "n_panic", "tlc_wall_s", "wall_s")} | {"completed": True}


# ------------------------------------------------------------------ contract table
K_A = 30


def entry_probe(eid, v):
    """(cfg, steps) exercising entry `eid` with value v; the key under test is `a` (30), b = 48"""
    A, B = 30, 48
    tap = [["d", A], ["t", 3], ["u", A], ["t", 3]]
    hold = [["d", A], ["t", 400], ["u", A], ["t", 50]]
    both = tap + hold + [["d", A], ["d", B], ["t", 30], ["u", B], ["u", A], ["t", 300]]
    L = lambda a, opts="": ("(defcfg process-unmapped-keys yes %s)\n(defsrc a b)\n(deflayer l0 %s b)\n" % (opts, a))
    T = {
        "mwheel.interval": (L("(mwheel-up %d 120)" % v), both),
        "mwheel.distance": (L("(mwheel-left 5 %d)" % v), both),
        "movemouse.interval": (L("(movemouse-up %d 5)" % v), both),
        "movemouse.distance": (L("(movemouse-left 5 %d)" % v), both),
        "movemouse-accel.interval": (L("(movemouse-accel-up %d 50 1 5)" % v), both),
        "movemouse-accel.accel-time": (L("(movemouse-accel-left 1 %d 1 30000)" % v), both),
        "movemouse-accel.min": (L("(movemouse-accel-up 1 5 %d 30000)" % v), both),
        "movemouse-accel.max": (L("(movemouse-accel-up 1 5 1 %d)" % v), both),
        "movemouse-speed.speed": (L("(multi (movemouse-speed %d) (movemouse-up 1 30000))" % v), both),
        "defcfg.sequence-timeout": ("(defcfg sequence-timeout %d)\n(defsrc a b)\n(deflayer l0 sldr b)\n(defvirtualkeys v0 x)\n(defseq v0 (b b))\n" % v,
                                    tap + [["t", 10], ["d", B], ["t", 3], ["u", B], ["t", 70000 if v > 60000 else 300]]),
        "sequence.timeout": ("(defsrc a b)\n(deflayer l0 (sequence %d) b)\n(defvirtualkeys v0 x)\n(defseq v0 (b b))\n" % v,
                             tap + [["t", 10], ["d", B], ["t", 3], ["u", B], ["t", 70000 if v > 60000 else 300]]),
        "sequence-noerase.count": ("(defsrc a b)\n(deflayer l0 (multi sldr (sequence-noerase %d)) b)\n(defvirtualkeys v0 x)\n(defseq v0 (b b))\n" % v,
                                   tap + [["p", B], ["t", 5], ["p", B], ["t", 50]]),
        "sequence-noerase.count#2": ("(defsrc a b)\n(deflayer l0 (multi sldr (sequence-noerase 1) (sequence-noerase %d)) b)\n(defvirtualkeys v0 x)\n(defseq v0 (b b))\n" % v,
                                     tap + [["p", B], ["t", 5], ["p", B], ["t", 50]]),
        "defcfg.rapid-event-delay": (L("(one-shot 50 lsft)", "rapid-event-delay %d" % v), both + [["p", A], ["p", B], ["p", B], ["t", 70000 if v > 60000 else 300]]),
        "tap-hold.hold-timeout": (L("(tap-hold 0 %d x y)" % v), both + [["d", A], ["t", 70000 if v > 60000 else 100], ["u", A], ["t", 10]]),
        "tap-hold.tap-timeout": (L("(tap-hold %d 5 x y)" % v), tap + tap + hold),
        "defchords.timeout": ("(defsrc a b)\n(defchords cg %d (a) x (b) y (a b) z)\n(deflayer l0 (chord cg a) (chord cg b))\n" % v, both),
        "one-shot.timeout": (L("(one-shot %d lsft)" % v), both),
        "tap-dance.timeout": (L("(tap-dance %d (x y))" % v), both),
        "defchordsv2.timeout": ("(defcfg concurrent-tap-hold yes)\n(defsrc a b)\n(deflayer l0 a b)\n(defchordsv2 (a b) x %d all-released ())\n" % v, both),
        "macro.delay": (L("(macro x %d y)" % v), tap + [["t", 70000 if v > 60000 else 100]]),
        "switch.key-history.recency": (L("(switch ((key-history x %d)) x break () y break)" % v), both),
        "switch.input-history.recency": (L("(switch ((input-history real a %d)) x break () y break)" % v), both),
        "switch.key-timing.recency": (L("(switch ((key-timing %d lt 50)) x break () y break)" % v), both),
        "defcfg.chords-v2-min-idle": ("(defcfg concurrent-tap-hold yes chords-v2-min-idle %d)\n(defsrc a b)\n(deflayer l0 a b)\n(defchordsv2 (a b) x 50 all-released ())\n" % v, both),
        "defcfg.dynamic-macro-max-presses": (L("(dynamic-macro-record 1)", "dynamic-macro-max-presses %d" % v),
                                             tap + [["p", B]] * 5 + [["t", 3]] + tap),
        "dynamic-macro-record-stop-truncate.n": (L("(tap-hold 0 50 (dynamic-macro-record 1) (dynamic-macro-record-stop-truncate %d))" % v),
                                                 tap + [["p", B], ["t", 2], ["p", B], ["t", 2]] + hold),
        "caps-word.timeout": (L("(caps-word %d)" % v), both + [["p", B], ["t", 70000 if v > 60000 else 50]]),
        "on-idle.duration": ("(defsrc a b)\n(deflayer l0 (on-idle %d tap-vkey v0) b)\n(defvirtualkeys v0 x)\n" % v, tap + [["t", 70000 if v > 60000 else 50]]),
        "hold-for-duration.duration": ("(defsrc a b)\n(deflayer l0 (hold-for-duration %d v0) b)\n(defvirtualkeys v0 x)\n" % v, tap + tap + [["t", 70000 if v > 60000 else 50]]),
        "one-shot-pause-processing.ticks": (L("(multi (one-shot-pause-processing %d) (one-shot 50 lsft))" % v), both),
        "arbitrary-code.code": (L("(arbitrary-code %d)" % v), both),
        "tap-dance.actions.len": (L("(tap-dance 5 (%s))" % " ".join(["x"] * v)), both),
        "tap-dance-eager.actions.len": (L("(tap-dance-eager 5 (%s))" % " ".join(["x"] * v)), both),
        "switch.bool-depth": (L("(switch (%s) x break)" % _nest(v)), both),
    }
    return T.get(eid)


def _nest(d):
    """a boolean expression whose innermost item is at depth d as the parser counts it (the items of the case's own
    list are at depth 1, every and/or/not list adds one)"""
    e = "a"
    for i in range(max(0, d - 1)):
        e = "(%s %s b)" % ("and" if i % 2 == 0 else "or", e)
    return e


def site_cx_probe(site, p):
    """(cfg, steps) for a counterexample tuple of a multi-parameter site"""
    A, B = 30, 48
    if site == "seq.noerase_count+=":
        cfg = ("(defsrc a b)\n(deflayer l0 (multi sldr (sequence-noerase %d) (sequence-noerase %d)) b)\n(defvirtualkeys v0 x)\n(defseq v0 (b b))\n" % (p[0], p[1]))
        return cfg, [["d", A], ["t", 3], ["u", A], ["t", 3], ["p", B], ["t", 5]]
    if site == "waiting.delay+ticks":
        # p[0] = how long an event is held back (rapid-event-delay pause), p[1] = own hold timeout
        cfg = ("(defcfg rapid-event-delay %d)\n(defsrc a b)\n(deflayer l0 (one-shot 5 lsft) (tap-hold 0 %d x y))\n" % (p[0], max(p[1], 1)))
        st = [["d", A], ["t", 2], ["u", A], ["t", 2], ["p", A], ["t", 1], ["d", B], ["t", 1], ["d", B], ["t", 66000], ["t", 66000], ["u", B], ["t", 10]]
        return cfg, st
    if site == "src_keys[y]":
        return ("(defcfg concurrent-tap-hold yes)\n(defsrc a b)\n(deflayer l0 a b)\n(defchordsv2 (a b) use-defsrc 50 all-released ())\n",
                [["d", A], ["d", B], ["t", 5], ["u", A], ["u", B], ["t", 60]])
    if site == "layers[l][x][y]":
        return ("(defcfg concurrent-tap-hold yes)\n(defsrc a b)\n(defalias tr _)\n(deflayer l0 a b)\n(defchordsv2 (a b) @tr 50 all-released ())\n",
                [["d", A], ["d", B], ["t", 5], ["u", A], ["u", B], ["t", 60]])
    return None


def contracts(tier, seed, wd, acc, run_all, mkjob, notes):
    import cfggen
    t0 = time.time()
    open(os.path.join(wd, "Contracts.cfg"), "w").write("INIT DInit\nNEXT DNext\nVIEW DView\nINVARIANT DynProbe\nCHECK_DEADLOCK FALSE\n")
    r = run_tlc(wd, "Contracts", workers=2, timeout=300, heap="2g")
    if r["rc"] != 0 or r["error"]:
        raise ToolError("TLC failed on Contracts.tla: %s (see %s)" % (r["error"], r["out"]))
    rows, decisions, dyn = [], [], []
    for tag, dest in (("CONTRACT", rows), ("DECISION", decisions), ("PANIC", dyn)):
        f = os.path.join(wd, "contracts.%s.ndjson" % tag.lower())
        extract_prints(r["out"], tag, f)
        dest += [json.loads(x) for x in open(f) if x.strip()]
    if not rows or not decisions:
        raise ToolError("Contracts.tla printed no rows")
    out = {"tlc_out": r["out"], "states": r["distinct"] or 0, "generated": r["generated"] or 0, "sites": len(rows),
           "sites_holding": sum(1 for x in rows if x["holds"]),
           "sites_violated_in_table": {x["site"]: x["cx"][:6] for x in rows if not x["holds"]},
           "tuples_checked": sum(x["tuples"] for x in rows), "entries": len(set(d["id"] for d in decisions)),
           "decisions_checked": len(decisions)}
    # ---- the real parser's decision for every (entry, boundary value)
    probes = []
    for d in decisions:
        pr = entry_probe(d["id"], d["v"])
        if pr is None:
            notes.append("contract entry %s has no probe template" % d["id"])
            continue
        probes.append((d, pr))
    accd, ast = cfggen.accepted([p[1][0] for p in probes], wd, "conacc", chunk=1000)
    drift = []
    jobs = []
    for (d, (cfg, steps)), a in zip(probes, accd):
        real = a is not None
        if real != d["accept"]:
            drift.append({"entry": d["id"], "value": d["v"], "table_says_accept": d["accept"], "parser_accepts": real})
        if real:
            jobs.append(mkjob("k:%s=%d" % (d["id"], d["v"]), cfg, [("contract-boundary", steps)], "contract:%s=%d" % (d["id"], d["v"])))
    # ---- counterexample tuples of violated rows
    for x in rows:
        if x["holds"]:
            continue
        for p in x["cx"][:12]:
            pr = site_cx_probe(x["site"], p)
            if pr:
                jobs.append(mkjob("kx:%s:%s" % (x["site"], p), pr[0], [("contract-counterexample", pr[1])], "contract-cx:%s" % x["site"]))
    # ---- dynamic macro recorder witnesses: a run of record/stop actions becomes one multi on key a
    names = {"record1": "(dynamic-macro-record 1)", "record2": "(dynamic-macro-record 2)", "stop": "dynamic-macro-record-stop"}
    seen = set()
    for w in sorted(dyn, key=lambda w: len(w["h"])):
        site = w["site"].split(" ")[0]
        if site in seen:
            continue
        acts = [names[e] for e in w["h"] if e in names]
        if len(acts) != len(w["h"]):
            continue        # witnesses with physical events in between are covered by the exploration
        seen.add(site)
        cfg = "(defsrc a b)\n(deflayer l0 (multi %s) b)\n" % " ".join(acts)
        jobs.append(mkjob("kd:%s" % site, cfg, [("contract-dynmacro-witness", [["d", 30], ["t", 3], ["u", 30], ["t", 3]])], "contract-dyn:%s" % site))
    res = run_all(jobs, wd, "con")
    byid = {j["id"]: j for j in jobs}
    acc.add(res, byid)
    crashed = [r_["j"] for r_ in res if r_["r"] not in ("ok", "reject")]
    out.update({"parser_decisions_compared": len(probes), "table_drift": drift, "accepted_values_executed": len(jobs),
                "executions_crashed": crashed[:40], "dynmacro_sites_in_model": sorted(set(w["site"] for w in dyn)),
                "wall_s": round(time.time() - t0, 1)})
    if drift:
        notes.append("contract table drift: the real parser's accept/reject decision differs from spec/Contracts.tla for %s" %
                     [(d["entry"], d["value"]) for d in drift[:10]])
    log("[c02] contracts: %d sites (%d hold in the table), %d parser decisions compared, drift %d, %d executions, crashed %s (%.1fs)" %
        (out["sites"], out["sites_holding"], len(probes), len(drift), len(jobs), crashed[:8], time.time() - t0))
    return out
