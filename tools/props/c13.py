"""C13 - global overrides substitute exactly the configured combination, then let go.

Part F (pure key-list transformation):
  D  TLC enumerates override tables x active-key lists and checks L1 (spec/Overrides.tla, the
     transliteration of key_override.rs) against P_C13.Allowed; it exports every case.
  B  the harness calls the real Overrides::override_keys on every exported (table, list) and compares
     with the exported L1 result (drift = difference).
  C  drifting cases, model counterexamples and results recorded from the real code on tables over all 8
     modifiers are judged by TLC with the P_C13 relation (the oracle is always the TLA+ spec).
Part P (pipeline): configurations with defoverrides and plain keys (mapped to themselves, remapped j k -> a b,
  swapped a b -> b a), override-release-on-activation on / off; exhaustive short and random press / release /
  OS-repeat histories through the real stepper - the ticking one and the BLOCKING one (stops ticking once
  can_block_update_idle_waiting returned true, as the processing loop does) - traces validated by TLC against the
  P_C13 monitor (O5: at every may-block point the OS key set is final; R1/R2: repeats).
"""
import itertools, threading
from props.common import *

MODEL_MUTANTS = ("fewest_mods", "partial_removal")
MOD_NAMES = ["lctl", "lsft", "lalt", "lmet", "rctl", "rsft", "ralt", "rmet"]
C = cfgdesc.code


def subsets(s):
    for r in range(len(s) + 1):
        for c in itertools.combinations(s, r):
            yield list(c)


def perms_upto(keys, n):
    out = []
    for r in range(0, n + 1):
        for p in itertools.permutations(keys, r):
            out.append(list(p))
    return out


def with_dups(lists):
    """every list of `lists` with one of its keys held a second time (by a second layout state: two physical keys
    written as the same key, a one-shot or chord modifier next to the physical one), the copy at every position"""
    out, seen = [], set()
    mods = set(allmods())
    for l in lists:
        for k in l:
            # a non-modifier key only next to its first copy: two copies of the key that see different modifier sets
            # (key, modifier, key) may match two different overrides, on which the statement is silent
            for pos in (range(len(l) + 1) if k in mods else [l.index(k) + 1]):
                d = l[:pos] + [k] + l[pos:]
                if tuple(d) not in seen:
                    seen.add(tuple(d))
                    out.append(d)
    return out


# ------------------------------------------------------------------ part F: TLC enumeration
MC_F = r"""---- MODULE %(mod)s ----
EXTENDS Naturals, Sequences, FiniteSets, TLC, Json
L1 == INSTANCE Overrides
P == INSTANCE P_C13
ModsDef == %(mods)s
OvU == %(ovu)s
Lists == %(lists)s
Tables == %(tables)s
BugsDef == %(bugs)s
VARIABLES t, ph
TT(tt) == [n \in DOMAIN tt |-> OvU[tt[n]]]
Check(tt) ==
  LET text == TT(tt)
      ovs == L1!OvrTable(text)
      res == [li \in DOMAIN Lists |-> L1!OvrOverrideKeysSt(ovs, Lists[li], L1!OvrClean, "none").keys]
      \* model mutants (meta-check): seeded errors of L1 must be rejected by the L2 function on some list
      mut(b) == \E li \in DOMAIN Lists :
                  ~P!Accepts(ModsDef, text, Lists[li], L1!OvrOverrideKeysSt(ovs, Lists[li], L1!OvrClean, b).keys)
      chg == {li \in DOMAIN Lists : res[li] # Lists[li]}
      bad == {li \in DOMAIN Lists : ~P!Accepts(ModsDef, text, Lists[li], res[li])}
      shp == Cardinality({li \in DOMAIN Lists : P!Sharp(ModsDef, text, Lists[li])})
  IN /\ L1!OvrTableOk(text)
     /\ PrintT(<<"CASE", ToJson([t |-> tt, r |-> [li \in chg |-> res[li]]])>>)
     /\ PrintT(<<"STAT", ToJson([chg |-> Cardinality(chg), sharp |-> shp])>>)
     /\ (IF bad = {} THEN TRUE ELSE PrintT(<<"DCEX", ToJson([t |-> tt, li |-> bad])>>))
     /\ \A i \in DOMAIN BugsDef :
          IF (tt[1] + Len(tt)) %% 5 = 0 /\ mut(BugsDef[i]) THEN PrintT(<<"MUT", ToJson([bug |-> BugsDef[i]])>>) ELSE TRUE
Init == t = <<>> /\ ph = 0
Next == \/ ph = 0 /\ t = <<>> /\ \E j \in DOMAIN Tables : t' = Tables[j] /\ ph' = 0
        \/ ph = 0 /\ t # <<>> /\ Check(t) /\ ph' = 1 /\ t' = t
====
"""

# TLC judges results recorded from the real code (one line per table, many lists per line)
MC_V = r"""---- MODULE %(mod)s ----
EXTENDS Naturals, Sequences, FiniteSets, TLC, Json, IOUtils
L1 == INSTANCE Overrides
P == INSTANCE P_C13
ModsDef == %(mods)s
Rec == ndJsonDeserialize(IOEnv.CASES)
LS == Rec[1].listsets
VARIABLES l, ph
ListsOf(r) == IF "ls" \in DOMAIN r THEN LS[r.ls] ELSE r.lists
CheckLine(j) ==
  LET r == Rec[j]
      lists == ListsOf(r)
  IN IF "err" \in DOMAIN r
     THEN PrintT(<<"VERR", ToJson([line |-> j, li |-> {}, err |-> "C13: a valid override table was rejected: " \o r.err])>>)
     ELSE LET ovs == L1!OvrTable(r.ovs)
              badP == {li \in DOMAIN lists : ~P!Accepts(ModsDef, r.ovs, lists[li], r.real[li])}
              badL == {li \in DOMAIN lists : r.real[li] # L1!OvrOverrideKeys(ovs, lists[li])}
              shp == Cardinality({li \in DOMAIN lists : P!Sharp(ModsDef, r.ovs, lists[li])})
              chg == Cardinality({li \in DOMAIN lists : r.real[li] # lists[li]})
          IN /\ Len(r.real) = Len(lists)
             /\ PrintT(<<"STAT", ToJson([n |-> Len(lists), chg |-> chg, sharp |-> shp])>>)
             /\ (IF badP = {} THEN TRUE
                 ELSE PrintT(<<"VERR", ToJson([line |-> j, li |-> badP,
                        err |-> "C13 F: result of override_keys is not an allowed substitution"])>>))
             /\ (IF badL = {} THEN TRUE ELSE PrintT(<<"DRIFT", ToJson([line |-> j, li |-> badL])>>))
Init == l = 0 /\ ph = 0
Next == \/ ph = 0 /\ l = 0 /\ \E j \in 2..Len(Rec) : l' = j /\ ph' = 0
        \/ ph = 0 /\ l > 0 /\ CheckLine(l) /\ ph' = 1 /\ l' = l
Done == TLCGet("distinct") = 2 * (Len(Rec) - 1) + 1
====
"""
CFG_F = "INIT Init\nNEXT Next\nCHECK_DEADLOCK FALSE\n"
CFG_V = "INIT Init\nNEXT Next\nCHECK_DEADLOCK FALSE\nPOSTCONDITION Done\n"


def allmods():
    return [C(n) for n in MOD_NAMES]


def tlc_ok(r, what):
    if r["rc"] == 124:
        raise ToolError("TLC timed out on %s" % what)
    txt = open(r["out"], errors="replace").read()
    if r["rc"] != 0 or "Model checking completed. No error" not in txt:
        raise ToolError("TLC failed on %s: %s (see %s)" % (what, r["error"], r["out"]))


def sum_stats(path):
    tot = {}
    for line in open(path):
        if line.strip():
            for k, v in json.loads(line).items():
                tot[k] = tot.get(k, 0) + v
    return tot


def run_level(res, wd, name, ovu, lists, tables, bugs=(), timeout=1500, workers=4):
    """TLC: L1 vs P_C13 on tables x lists; harness: real override_keys vs exported L1 results.
    Returns dict with counts and the list of cases (table, list) to be judged on the real code."""
    mod = "MC_C13F_" + name
    with open(os.path.join(wd, mod + ".tla"), "w") as f:
        f.write(MC_F % dict(mod=mod, mods=tla_val(set(allmods())), ovu=tla_val(ovu), lists=tla_val(lists),
                            tables=tla_val(tables), bugs=tla_val(list(bugs))))
    with open(os.path.join(wd, mod + ".cfg"), "w") as f:
        f.write(CFG_F)
    r = run_tlc(wd, mod, workers=workers, timeout=timeout, heap="6g")
    tlc_ok(r, mod)
    cases = os.path.join(wd, mod + ".cases.ndjson")
    n = extract_prints(r["out"], "CASE", cases)
    if n != len(tables):
        raise ToolError("%s: TLC exported %d of %d tables" % (mod, n, len(tables)))
    dcex_f = os.path.join(wd, mod + ".dcex.ndjson")
    ndcex = extract_prints(r["out"], "DCEX", dcex_f)
    stat_f = os.path.join(wd, mod + ".stat.ndjson")
    extract_prints(r["out"], "STAT", stat_f)
    st = sum_stats(stat_f)
    out = {"name": name, "states": r["distinct"], "generated": r["generated"], "tables": len(tables),
           "lists": len(lists), "cases": len(tables) * len(lists), "model_cex": ndcex,
           "changed_by_model": st.get("chg", 0), "sharp_cases": st.get("sharp", 0),
           "tlc_wall_s": round(r["wall_s"], 1), "judge": []}
    mut_f = os.path.join(wd, mod + ".mut.ndjson")
    extract_prints(r["out"], "MUT", mut_f)
    out["mutants_rejected"] = {}
    for line in open(mut_f):
        b = json.loads(line)["bug"]
        out["mutants_rejected"][b] = out["mutants_rejected"].get(b, 0) + 1
    os.remove(r["out"])
    # model counterexamples are judged on the real code
    for line in open(dcex_f):
        d = json.loads(line)
        out["judge"].append({"ovs": [ovu[i - 1] for i in d["t"]], "lists": [lists[li - 1] for li in d["li"]],
                             "tag": "dcex:" + name})
    # binding B: the real function on every exported case
    uni = os.path.join(wd, mod + ".uni.json")
    json.dump({"ovs": ovu, "lists": lists}, open(uni, "w"))
    build_harness()
    lines = open(cases).read().splitlines()
    nsh = max(1, min(NCPU, 8, len(lines) // 500 + 1))
    procs = []
    for i in range(nsh):
        part = cases + ".part%d" % i
        open(part, "w").write("\n".join(lines[i::nsh]) + "\n")
        procs.append((subprocess.Popen([HARNESS, "ovr-cases", uni, part, part + ".res.json", part + ".mis.ndjson"],
                                       stdout=subprocess.PIPE, stderr=subprocess.STDOUT, text=True), part))
    tot = {"tables": 0, "cases": 0, "mismatches": 0, "build_errors": 0, "changed": 0, "samples": []}
    for p, part in procs:
        so, _ = p.communicate(timeout=1800)
        if p.returncode != 0:
            raise ToolError("ovr-cases failed: " + (so or ""))
        rr = json.load(open(part + ".res.json"))
        for k in ("tables", "cases", "mismatches", "build_errors", "changed"):
            tot[k] += rr[k]
        tot["samples"] += rr["samples"][:3]
        for line in open(part + ".mis.ndjson"):
            if len(out["judge"]) < 300:
                d = json.loads(line)
                d["tag"] = "drift:" + name
                out["judge"].append(d)
        for f in (part, part + ".res.json", part + ".mis.ndjson"):
            os.remove(f)
    os.remove(cases)
    if tot["cases"] != out["cases"]:
        raise ToolError("%s: harness evaluated %d of %d cases" % (mod, tot["cases"], out["cases"]))
    out.update({"replayed": tot["cases"], "drift": tot["mismatches"] + tot["build_errors"],
                "changed_by_code": tot["changed"], "samples": tot["samples"]})
    return out


def eval_real(wd, name, lines, listsets=None):
    """Runs the real override_keys on `lines` ({"ovs", "lists"|"ls", ("cfg"), ("tag")}); returns path of the
    ndjson file with the results (first line = listsets header)."""
    build_harness()
    inp = os.path.join(wd, name + ".in.ndjson")
    with open(inp, "w") as f:
        f.write(json.dumps({"listsets": listsets or {"none": []}}) + "\n")
        for ln in lines:
            f.write(json.dumps(ln) + "\n")
    outp = os.path.join(wd, name + ".real.ndjson")
    p = sh([HARNESS, "ovr-eval", inp, outp + ".tmp"], check=False, timeout=1800)
    if p.returncode != 0:
        raise ToolError("ovr-eval failed: " + (p.stdout or ""))
    with open(outp, "w") as g:
        g.write(json.dumps({"listsets": {"none": []}}) + "\n")
        for line in open(outp + ".tmp"):
            g.write(line)
    os.remove(outp + ".tmp")
    return outp


def judge(wd, name, real_file, timeout=1500):
    """TLC validates recorded results (P_C13 relation + L1 equality).  Returns (stats, verrs, drifts) with
    verrs = [{"line", "li", "err"}], line = 1-based line number in real_file."""
    mod = "MC_C13V_" + name
    with open(os.path.join(wd, mod + ".tla"), "w") as f:
        f.write(MC_V % dict(mod=mod, mods=tla_val(set(allmods()))))
    with open(os.path.join(wd, mod + ".cfg"), "w") as f:
        f.write(CFG_V)
    r = run_tlc(wd, mod, workers=6, timeout=timeout, heap="6g",
                env_extra={"CASES": os.path.abspath(real_file)})
    tlc_ok(r, mod)
    ve, dr, stf = [os.path.join(wd, mod + x) for x in (".verr.ndjson", ".drift.ndjson", ".stat.ndjson")]
    extract_prints(r["out"], "VERR", ve)
    extract_prints(r["out"], "DRIFT", dr)
    extract_prints(r["out"], "STAT", stf)
    st = sum_stats(stf)
    st.update({"states": r["distinct"], "generated": r["generated"], "tlc_wall_s": round(r["wall_s"], 1)})
    return st, [json.loads(x) for x in open(ve) if x.strip()], [json.loads(x) for x in open(dr) if x.strip()]


def names_of():
    kt = cfgdesc.keytable()["names"]
    inv = {}
    for n, c in kt.items():
        inv.setdefault(c, n)
    return inv


def table_text(ovs):
    nm = names_of()
    return "(defoverrides\n" + "\n".join(
        "  (%s) (%s)" % (" ".join(nm[c] for c in o["i"]), " ".join(nm[c] for c in o["o"])) for o in ovs) + ")\n"


# ------------------------------------------------------------------ universes
def universes(tier, rng):
    m3 = [C("lsft"), C("lctl"), C("ralt")]
    A, B, X = C("a"), C("b"), C("x")
    L = []
    full = [{"i": im + [ik], "o": om + [ok]} for ik in (A, B) for im in subsets(m3) for ok in (A, B) for om in subsets(m3)]
    lists5 = perms_upto(m3 + [A, B], 4)
    lists6 = lists5 + [l for l in perms_upto(m3 + [A, B, X], 4) if X in l]
    # active-key lists with a duplicated key code (keyberon returns duplicates): all copies are replaced
    lists6 = lists6 + with_dups(perms_upto(m3 + [A, B], 3))
    lists5 = lists5 + with_dups(perms_upto(m3 + [A, B], 2))
    # level 1: every single override over {a, b} x 3 modifiers, lists also with a foreign key
    L.append(("one", full, lists6, [[i + 1] for i in range(len(full))]))
    ins = [im + [ik] for ik in (A, B) for im in subsets(m3)]
    if tier == "quick":
        o2 = [[A], [m3[0], B], [m3[1], m3[2], A]]
        u2 = [{"i": i, "o": o} for i in ins for o in o2]
        L.append(("two", u2, lists5, [[i + 1, j + 1] for i in range(len(u2)) for j in range(len(u2))]))
        # three overrides: all on the same key, or two on one key and one on the other; the output tells
        # which one fired
        o3 = [[B], [m3[0], B], [m3[1], A]]
        u3 = [{"i": i, "o": o3[p]} for p in range(3) for i in ins]   # index = p*16 + input index
        t3 = []
        for pat in ("aaa", "aba"):
            rngs = [range(0, 8) if ch == "a" else range(8, 16) for ch in pat]
            for i in rngs[0]:
                for j in rngs[1]:
                    for k in rngs[2]:
                        t3.append([i + 1, 16 + j + 1, 32 + k + 1])
        L.append(("three", u3, lists5, t3))
    else:
        L.append(("two", full, lists5, [[i + 1, j + 1] for i in range(len(full)) for j in range(len(full))]))
        o3 = [[B], [m3[0], A]]
        u3 = [{"i": i, "o": o} for i in ins for o in o3]
        n = len(u3)
        L.append(("three", u3, lists5, [[i + 1, j + 1, k + 1] for i in range(n) for j in range(n) for k in range(n)]))
    return L


def rand_table(rng, mods, keys, nmax=3, dup_p=0.0):
    t = []
    for _ in range(rng.randint(1, nmax)):
        im = [m for m in mods if rng.random() < rng.choice([0.15, 0.3, 0.6])]
        om = [m for m in mods if rng.random() < rng.choice([0.1, 0.3])]
        i = im + [rng.choice(keys[:2])]
        o = om + [rng.choice(keys)]
        rng.shuffle(i)      # the key may be written anywhere in the list
        rng.shuffle(o)
        t.append({"i": i, "o": o})
    return t


def lists_for(rng, ovs, mods, others, n):
    """active-key lists aimed at the table: an override's combination (complete, or one modifier short), in
    natural or arbitrary order, with foreign keys and modifiers mixed in; plus unrelated lists."""
    out = []
    for _ in range(n):
        if rng.random() < 0.65:
            base = list(dict.fromkeys(rng.choice(ovs)["i"]))
            if len(base) > 1 and rng.random() < 0.25:
                base.remove(rng.choice([k for k in base if k in mods]))
            base += [k for k in mods + others if k not in base and rng.random() < 0.15]
            if rng.random() < 0.5:
                ms, ks = [k for k in base if k in mods], [k for k in base if k not in mods]
                rng.shuffle(ms)
                rng.shuffle(ks)
                base = ms + ks
            else:
                rng.shuffle(base)
            base = base[:9]
            if base and rng.random() < 0.2:       # a key held by two layout states (a non-modifier: adjacent copies)
                k = rng.choice(base)
                base.insert(rng.randint(0, len(base)) if k in mods else base.index(k) + 1, k)
            out.append(base)
        else:
            pool = [m for m in mods if rng.random() < 0.5] + others
            rng.shuffle(pool)
            out.append(pool[:rng.randint(1, 7)])
    return out


def eight_mod_lines(tier, rng):
    """(table, lists) lines over all 8 modifiers for the real function; judged by TLC."""
    mods = allmods()
    A, B, X = C("a"), C("b"), C("x")
    listsets = {"p10": perms_upto(mods + [A, B], 4 if tier == "thorough" else 2)}
    lines = []
    # every subset of the 8 modifiers as the input modifiers of an override
    subs = list(subsets(mods))
    if tier == "quick":
        subs = rng.sample(subs, 60) + [[], mods]
    for im in subs:
        om = [m for m in mods if rng.random() < 0.25]
        t = [{"i": im + [A], "o": om + [B]}]
        if im and rng.random() < 0.5:     # a shorter override of the same key listed after / before it
            t.insert(rng.randint(0, 1), {"i": [m for m in im if m != rng.choice(im)] + [A], "o": [X]})
        combo = im + [A]
        if len(combo) <= 4:
            ls = [list(p) for p in itertools.permutations(combo)]
        else:
            ls = []
            for _ in range(30):
                q = list(im)
                rng.shuffle(q)
                ls.append(q + [A])            # natural order
                q = list(combo)
                rng.shuffle(q)
                ls.append(q)
        ls += [l + [B] for l in ls[:10]] + [[B] + l for l in ls[:10]]
        ls += [[k for k in l if k != m] for l in ls[:6] for m in im[:3]]          # one modifier short
        ls += [[m] + l for l in ls[:6] for m in mods if m not in im][:24]         # a foreign modifier held
        ls += [l[:p] + [k] + l[p:] for l in ls[:3] for k in l[:3] if k in mods for p in (0, len(l))]   # a modifier held twice
        ls += [l[:l.index(A) + 1] + [A] + l[l.index(A) + 1:] for l in ls[:3]]                         # the key held twice
        lines.append({"ovs": t, "lists": ls, "tag": "single8"})
        if len(im) <= (3 if tier == "thorough" else 1):
            lines.append({"ovs": t, "ls": "p10", "tag": "single8p"})
    # random tables and lists over all 8 modifiers, half of the tables built by the real parser
    ntab = 500 if tier == "quick" else 20000
    for n in range(ntab):
        t = rand_table(rng, mods, [A, B, X])
        ln = {"ovs": t, "lists": lists_for(rng, t, mods, [A, B, X], 30 if tier == "quick" else 60), "tag": "rand8"}
        if n % 2 == 0:
            ln["cfg"] = "(defsrc a)\n(deflayer l0 a)\n" + table_text(t)
        lines.append(ln)
    # an input modifier written more than once (accepted by the parser) is still one modifier
    S, Ct = C("lsft"), C("lctl")
    for k in (2, 3):
        t = [{"i": [S] * k + [A], "o": [X]}, {"i": [S, Ct, A], "o": [B]}]
        for tt in (t, t[::-1]):
            lines.append({"ovs": tt, "lists": [[S, Ct, A], [Ct, S, A], [S, A], [Ct, A]], "tag": "dupmods",
                          "cfg": "(defsrc a)\n(deflayer l0 a)\n" + table_text(tt)})
    return lines, listsets


# ------------------------------------------------------------------ part P: pipeline
# layouts: (physical key name, key written in the layer)
LAYOUTS = {
    "id": [("lsft", "lsft"), ("lctl", "lctl"), ("a", "a"), ("b", "b")],
    "rm": [("lsft", "lsft"), ("lctl", "lctl"), ("j", "a"), ("k", "b")],     # remapped keys
    "sw": [("lsft", "lsft"), ("lctl", "lctl"), ("a", "b"), ("b", "a")],     # swapped: a key named like an override input
    "2s": [("lsft", "lsft"), ("rsft", "lsft"), ("a", "a"), ("b", "b")],     # both shift keys written as lsft: duplicates
}
REPEAT_ENV = r"""
RepKeys == %s
Repeat(c) == /\ Alive /\ c \in phys
             /\ K' = HandleInput(K, "r", c) /\ UNCHANGED phys
             /\ mon' = Mon!MonIn(mon, [e |-> "r", c |-> c, out |-> K'.out])
             /\ hist' = Append(hist, <<"r", c>>)
"""


def pipeline_cfg(ovs, roa, layout="id"):
    lay = LAYOUTS[layout]
    desc = {"keys": [p for p, _ in lay], "layers": [{p: {"t": "key", "k": k} for p, k in lay}],
            "defcfg": {"override-release-on-activation": "yes" if roa else "no"}, "extra": [table_text(ovs)]}
    params = {"mods": allmods(), "table": ovs, "roa": 1 if roa else 0}
    if layout != "id":
        params["map"] = [{"c": C(p), "k": C(k)} for p, k in lay]
    return cfgdesc.render_kbd(desc), params


def toggles(keys, n, gap, rkeys=()):
    """every physically consistent history of n events over keys: press / release toggles and, for rkeys, an OS
    repeat of the key while it is down"""
    out = []
    alpha = [("k", k) for k in keys] + [("r", k) for k in rkeys]
    for seq in itertools.product(alpha, repeat=n):
        down, s, ok = set(), [], True
        for kind, k in seq:
            if kind == "r":
                if k not in down:
                    ok = False
                    break
                s.append(["r", k])
            elif k in down:
                s.append(["u", k])
                down.discard(k)
            else:
                s.append(["d", k])
                down.add(k)
            if gap:
                s.append(["t", gap])
        if not ok or (rkeys and not any(kind == "r" for kind, _ in seq)):
            continue          # with rkeys: only the histories that contain a repeat (the others are run without)
        for k in sorted(down):
            s += [["u", k], ["t", gap or 1]]
        s.append(["t", 4])
        out.append(s)
    return out


def pipeline_jobs(tier, rng):
    S, Ct, A, B = C("lsft"), C("lctl"), C("a"), C("b")
    X, Y, N9, RA = C("x"), C("y"), C("9"), C("ralt")
    quick = tier == "quick"
    tables = [
        ("t1", [{"i": [S, A], "o": [X]}, {"i": [S, Ct, A], "o": [Y]}, {"i": [B], "o": [S, B]}]),
        ("t2", [{"i": [S, A], "o": [S, N9]}, {"i": [Ct, A], "o": [B]}, {"i": [S, Ct, B], "o": [RA, X]}]),
    ]
    if not quick:
        tables.append(("t3", [{"i": [A, S], "o": [Ct, A]}, {"i": [Ct, B], "o": [A]}, {"i": [A], "o": [X]}]))
        for i in range(12):
            tables.append(("r%d" % i, rand_table(rng, [S, Ct], [A, B, X])))
    jobs = []
    insts = []
    gaps = [0, 0, 1, 1, 2, 3]
    for name, ovs in tables:
        rnd = name.startswith("r")
        for roa in (False, True):
            for layout in ("id", "rm", "sw", "2s"):
                lay = LAYOUTS[layout]
                keys = [C(p) for p, _ in lay]
                rkeys = keys[2:]
                kbd, params = pipeline_cfg(ovs, roa, layout)
                tag = "%s_%s_%s" % (name, "roa" if roa else "std", layout)
                # ---- binding D/B: L1 || monitor, every transition replayed.  The remapped layouts get OS repeats of the
                # non-modifier keys as a further environment action.
                if layout == "id" and name in (("t1",) if quick else ("t1", "t2", "t3", "r0")):
                    insts.append({"name": "c13_" + tag, "kbd": kbd, "keys": keys, "qmax": 2 if quick else 3,
                                  "monitor": {"module": "P_C13", "params": params}})
                if layout == "2s" and name in (("t1",) if quick else ("t1", "t2", "t3")) and (not quick or not roa):
                    insts.append({"name": "c13_" + tag, "kbd": kbd, "keys": keys, "qmax": 2,
                                  "monitor": {"module": "P_C13", "params": params}})
                if layout not in ("id", "2s") and (name, layout, roa) in ((("t2", "rm", False), ("t2", "sw", True)) if quick else
                                                              tuple((t, l, r) for t in ("t1", "t2", "t3") for l in ("rm", "sw")
                                                                    for r in (False, True))):
                    insts.append({"name": "c13_" + tag, "kbd": kbd, "keys": keys, "qmax": 1 if quick else 2,
                                  "monitor": {"module": "P_C13", "params": params},
                                  "extra_actions": REPEAT_ENV % tla_val(set(rkeys)),
                                  "extra_next": "\\/ (\\E c \\in RepKeys : Repeat(c))"})
                # ---- binding C: histories through the real ticking stepper ...
                nr = (30 if quick else 300) if layout == "id" else (20 if quick else 200)
                if layout == "id":
                    scripts = toggles(keys, 4 if rnd else (5 if quick else 6), 1)
                    scripts += toggles(keys, 3 if quick else 4, 1, rkeys)
                elif layout == "2s":
                    scripts = toggles(keys, 4 if (rnd or quick) else 5, 1) + toggles(keys, 3, 1, rkeys)
                else:
                    scripts = toggles(keys, 3 if rnd else 4, 1, rkeys)
                scripts += [rand_history(rng, keys, rng.randint(4, 40 if quick else 120), gaps, tail=5,
                                         repeat_p=rng.choice([0.0, 0.3, 0.6])) for _ in range(nr)]
                jobs.append({"cfg": kbd, "params": params, "tag": tag, "scripts": scripts})
                # ---- ... and through the blocking stepper: gaps of 2 ticks, so that a tick the loop would sleep
                # through is really not executed (with a gap of 1 the two steppers coincide)
                if layout == "id":
                    bs = toggles(keys, 3 if rnd else 4, 2) + toggles(keys, 3, 2, rkeys)
                else:
                    bs = toggles(keys, 3, 2, rkeys) if not quick else []
                bs += [rand_history(rng, keys, rng.randint(4, 40 if quick else 120), [0, 1, 2, 2, 3, 5], tail=5,
                                    repeat_p=rng.choice([0.0, 0.3])) for _ in range(nr)]
                jobs.append({"cfg": kbd, "params": params, "tag": tag + "_blk", "scripts": bs, "opts": {"mode": "block"}})
    return jobs, insts


def par_validate(res, monitor, jobs, wd, name, nsplit):
    """record_and_validate over nsplit parallel TLC runs (each with its own work directory)."""
    parts = [jobs[i::nsplit] for i in range(nsplit)]
    parts = [p for p in parts if p]
    errs_all, lock, exc = [], threading.Lock(), []

    def work(i, part):
        try:
            sub = flow.Result(res.pid, res.tier, res.seed)
            w = os.path.join(wd, "%s_p%d" % (name, i))
            os.makedirs(w, exist_ok=True)
            errs, _ = record_and_validate(sub, monitor, part, w, name)
            with lock:
                res.traces_validated += sub.traces_validated
                res.trace_lines += sub.trace_lines
                errs_all.extend(errs)
        except Exception as e:     # re-raised in the caller
            exc.append(e)
    th = [threading.Thread(target=work, args=(i, p)) for i, p in enumerate(parts)]
    for t in th:
        t.start()
    for t in th:
        t.join()
    if exc:
        raise exc[0]
    return errs_all


def replay_fn(r, path, wd):
    """./check replay for kind c13fn: the real function on the recorded (table, list), judged by TLC."""
    ln = {"ovs": r["ovs"], "lists": [r["list"]]}
    if r.get("cfg"):
        ln["cfg"] = r["cfg"]
    real = eval_real(wd, "c13fn", [ln])
    d = json.loads(open(real).read().splitlines()[1])
    print("table %s\nlist  %s\nreal  %s" % (json.dumps(r["ovs"]), r["list"], d.get("real") or d.get("err")))
    st, verrs, drifts = judge(wd, "replay", real)
    for v in verrs:
        print("REJECTED: %s" % v["err"])
    if verrs:
        print("VIOLATION property=%s replay=%s" % (r["property"], path))
        return 1
    print("accepted by P_C13")
    return 0


def run(tier, seed):
    pid = "C13"
    res = flow.Result(pid, tier, seed)
    rng = random.Random(seed)
    wd = workdir("c13")
    build_harness()
    levels = []
    to_judge = []
    mutants = {}
    # ---- part F, bindings D and B
    parts = os.environ.get("C13_PARTS", "FP")     # debugging aid: "P" = pipeline part only
    unis = universes(tier, rng) if "F" in parts else []
    lvs, excs = [None] * len(unis), []

    def level_work(i, u):
        try:
            w = os.path.join(wd, "lv_" + u[0])
            os.makedirs(w, exist_ok=True)
            lvs[i] = run_level(res, w, u[0], u[1], u[2], u[3], bugs=MODEL_MUTANTS if u[0] == "three" else (),
                               workers=4 if tier == "quick" else (3 if u[0] == "one" else 6), timeout=3600)
        except Exception as e:
            excs.append(e)
    lines, listsets = eight_mod_lines(tier, rng)
    jobs, insts = pipeline_jobs(tier, rng)
    # DESIGN 3.4 model mutant of the pipeline monitor: L1 with an is_idle that ignores keys still to be written
    # (Bug = "idle_ignores_owed", the code before fixes 345be8d and d2e57b2) must be rejected by O5a on the roa instance
    meta = dict([i for i in insts if i["name"] == "c13_t1_roa_id"][0])
    meta.update({"name": "c13_meta_idle_owed", "bug": "idle_ignores_owed", "edges": False, "meta": True})
    # ... and one that ignores the keys owed a PRESS after a roa activation (Bug = "idle_ignores_roa_removed", the code
    # before fix d2e57b2) by O5b on the roa instance whose table has an override output that can be held as well
    meta2 = dict([i for i in insts if i["name"] == "c13_t2_roa_sw"][0])
    meta2.update({"name": "c13_meta_idle_roa", "bug": "idle_ignores_roa_removed", "edges": False, "meta": True})
    metas = [(meta, "idle_ignores_owed", "C13 O5a"), (meta2, "idle_ignores_roa_removed", "C13 O5b")]
    rs = [None] * (len(insts) + len(metas))
    exc = []
    sem = threading.Semaphore(5 if tier == "quick" else 3)      # TLC runs of part P at a time (they run next to part F)

    def mc_work(i, inst):
        with sem:
            try:
                w = os.path.join(wd, "mc_" + inst["name"])
                os.makedirs(w, exist_ok=True)
                rs[i] = mc.check_instance(inst, w, workers=2 if tier == "quick" else 4, timeout=1500,
                                          replay=not inst.get("meta"))
            except Exception as e:
                exc.append(e)
    mth = [threading.Thread(target=mc_work, args=x) for x in enumerate(insts + [m[0] for m in metas])] if "P" in parts else []
    th = [threading.Thread(target=level_work, args=(i, u)) for i, u in enumerate(unis)]
    for t in mth + th:
        t.start()
    for t in th:
        t.join()
    if excs:
        raise excs[0]
    for lv in lvs:
        name = lv["name"]
        for b, n in lv.pop("mutants_rejected").items():
            mutants[b] = mutants.get(b, 0) + n
        to_judge += lv.pop("judge")
        res.states += lv["states"] or 0
        res.transitions += lv["generated"] or 0
        res.edges_replayed += lv["replayed"]
        res.drift += lv["drift"]
        for s in lv.pop("samples")[:2]:
            if len(res.samples) < 4:
                res.samples.append(s)
        levels.append(lv)
        log("[c13] level %s: %d tables x %d lists, model cex %d, drift %d, tlc %.0fs" %
            (name, lv["tables"], lv["lists"], lv["model_cex"], lv["drift"], lv["tlc_wall_s"]))
    # ---- model mutants: the L2 function must reject seeded errors of L1 (meta-check, DESIGN 3.4)
    for bug in MODEL_MUTANTS if "F" in parts else ():
        if not mutants.get(bug):
            raise ToolError("model mutant %s is not rejected by P_C13" % bug)
    # ---- part F, binding C: results recorded from the real code judged by TLC
    lines = (to_judge + lines) if "F" in parts else lines[:3]
    real = eval_real(wd, "c13_real", lines, listsets)
    # keep the validation input bounded per TLC run
    recs = open(real).read().splitlines()
    hdr = json.dumps({"listsets": listsets})
    chunk = 600 if tier == "quick" else 2500
    vstats = {"n": 0, "chg": 0, "sharp": 0, "states": 0, "generated": 0}
    nviol = 0
    for ci in range(0, len(recs) - 1, chunk):
        part = os.path.join(wd, "c13_real.part.ndjson")
        body = recs[1 + ci:1 + ci + chunk]
        with open(part, "w") as f:
            f.write(hdr + "\n" + "\n".join(body) + "\n")
        st, verrs, drifts = judge(wd, "real", part)
        for k in vstats:
            vstats[k] += st.get(k, 0) or 0
        res.drift += sum(len(d["li"]) for d in drifts)
        for v in verrs:
            d = json.loads(body[v["line"] - 2])
            lis = v["li"] or [1]
            nviol += len(lis)
            for li in lis[:2]:
                if len(res.violations) >= 12:      # enough replay files; the count is in the evidence
                    break
                ls = d.get("lists") or listsets.get(d.get("ls"), [])
                lst = ls[li - 1] if ls else []
                obj = {"property": pid, "kind": "c13fn", "ovs": d["ovs"], "list": lst,
                       "real": d["real"][li - 1] if d.get("real") else None, "err": v["err"]}
                if d.get("cfg"):
                    obj["cfg"] = d["cfg"]
                rep = any(len(set(o["i"])) < len(o["i"]) for o in d["ovs"])
                flow.classify(res, pid, v["err"], v["err"] + (" [an input modifier is written more than once]" if rep else "")
                              + " table=" + json.dumps(d["ovs"]) + " list=" + json.dumps(lst),
                              obj, "fn_%d" % len(res.violations))
    res.extra["real_results_rejected"] = nviol
    res.states += vstats["states"]
    res.transitions += vstats["generated"]
    res.traces_validated += vstats["n"]
    last = json.loads(recs[-1])
    res.samples.append({"real_result_judged_by_tlc": last["ovs"], "list": (last.get("lists") or [[]])[:1],
                        "real": (last.get("real") or [[]])[:1]})
    log("[c13] judged %d recorded results (%d sharp, %d changed), violations %d" %
        (vstats["n"], vstats["sharp"], vstats["chg"], nviol))
    # ---- part P: pipeline.  D + B: L1 (Kanata.tla with the override step, constants from the parser dump)
    # || P_C13 monitor for every history within the bounds, every model transition replayed on the real code
    witness_jobs = []
    for t in mth:
        t.join()
    if exc:
        raise exc[0]
    for (minst, bug, rule), rm in zip(metas, rs[len(insts):]):
        nrej = sum(1 for w in flow.witness_scripts(rm["monerr_file"], 100000) if w["err"].startswith(rule))
        if not nrej:
            raise ToolError("model mutant %s (the blocked loop still owes a key event) is not rejected by P_%s" %
                            (bug, rule.replace(" ", "_")))
        mutants[bug] = nrej
        res.states += rm["states"] or 0
        res.transitions += rm["generated"] or 0
    rs = rs[:len(insts)]
    for inst, r in zip(insts, rs):
        res.add_instance(r)
        log("[c13] instance %s: %d states, %d edges replayed, drift %d, monitor errors %d, tlc %.0fs" %
            (r["name"], r["states"], r.get("replayed", 0), r.get("drift", 0), r["n_monerr"], r["tlc_wall_s"]))
        # one witness per monitor rule first (shortest), then the shortest overall
        ws_all = flow.witness_scripts(r["monerr_file"], 100000)
        ws, seen = [], {}
        for w in ws_all:
            k = w["err"][:8]
            seen[k] = seen.get(k, 0) + 1
            if seen[k] <= 8:
                ws.append(w)
        ws += flow.witness_scripts(r["panic_file"], 10)
        scripts = [flow.hist_to_script(w["h"], 6) for w in ws] + \
                  [flow.hist_to_script(d["h"], 6) for d in r.get("drift_samples", [])]
        if scripts:
            witness_jobs.append({"cfg": inst["kbd"], "params": inst["monitor"]["params"], "tag": "w:" + inst["name"],
                                 "scripts": scripts})
        if r.get("n_nostutter"):
            w = flow.witness_scripts(r["nostutter_file"], 1)
            res.notes.append("C07-relevant (not judged here): instance %s has %d states where can_block is true but the "
                             "next tick changes the OS key state, e.g. after %s" %
                             (r["name"], r["n_nostutter"], json.dumps(w[0]["h"]) if w else "?"))
    jobs = shard_local_index(witness_jobs + jobs)
    errs = par_validate(res, "P_C13", jobs, wd, "c13_pipe", 6 if tier == "quick" else 10)
    res.extra["pipeline_histories"] = {"ticking": sum(1 for j in jobs if not j.get("opts")),
                                       "blocking_stepper": sum(1 for j in jobs if j.get("opts")),
                                       "with_os_repeats": sum(1 for j in jobs if any(st[0] == "r" for st in j["scripts"][0])),
                                       "rejected": len(errs)}
    # every distinct rule that fired is reported (shortest histories first), so that a recorded finding cannot hide
    # a different rejection
    per_rule = {}
    for e in sorted(errs, key=lambda e: len(script_of(jobs, e["job"], 0)[1])):
        k = e["err"][:8]
        per_rule[k] = per_rule.get(k, 0) + 1
        if per_rule[k] > 6:
            continue
        j, s = script_of(jobs, e["job"], 0)
        flow.classify(res, pid, e["err"], e["err"] + (" roa=%d" % j["params"]["roa"]) + " cfg=" + j["cfg"],
                      {"property": pid, "cfg": j["cfg"], "params": j["params"], "script": s, "err": e["err"],
                       "monitor": "P_C13", "opts": j.get("opts", {})}, "pipe_%d" % len(res.violations))
    res.extra["rejections_by_rule"] = per_rule
    res.samples.append({"pipeline_cfg": jobs[0]["cfg"], "history": jobs[0]["scripts"][0][:16]})
    if res.drift:
        res.notes.append("model drift: %d cases differ between spec/Overrides.tla and override_keys; each was judged "
                         "by P_C13 directly" % res.drift)
    return flow.finish(
        res, "model_checking",
        "TLC enumerates override tables (<=3 overrides over keys a,b; input/output modifiers from 3 of the 8 modifiers; "
        "see levels) x every active-key list up to length 4 in every order and checks L1 (spec/Overrides.tla) against "
        "P_C13.Allowed; the real Overrides::override_keys is called on every exported (table, list) and compared with L1 "
        "(edges_replayed_on_impl); results of the real function on tables over all 8 modifiers (every modifier subset for "
        "single overrides, random tables, half built by the real parser) are judged by TLC with the P_C13 relation; "
        "defoverrides configurations (keys mapped to themselves, remapped j k -> a b, swapped a b -> b a; "
        "override-release-on-activation on and off) are explored by TLC as L1 || P_C13 monitor (remapped layouts with OS "
        "repeat events as an environment action), every model transition replayed on the real code; they are driven "
        "through the real ticking stepper and through the blocking stepper (no tick is executed after a tick whose "
        "can_block_update_idle_waiting was true until the next input, as in the processing loop) with every press / "
        "release / repeat history of n events over the four physical keys plus random histories, and the traces are "
        "validated by TLC against the P_C13 monitor: O1-O4 substitution and release, O5 at every may-block point "
        "(cb = true) the OS key set is already final, R1/R2 an OS repeat is forwarded for the key the OS sees in place of "
        "the held key.  distinct_nontrivial = distinct TLC states.",
        assumptions=["P_C13 written from the statement and docs/config.adoc; ties between equally long overrides and "
                     "lists where the key precedes its modifiers are deliberately soft (either documented reading accepted)",
                     "active-key lists with at most one key held twice in the exhaustive part",
                     "pipeline monitor: plain keys (identity or an injective remap); a substituted key may be dropped by kanata "
                     "afterwards; repeats are judged only when every input is processed and nothing is owed (completeness R2 only "
                     "in the state left by a sharp tick); which of several eligible keys repeats is left to C14",
                     "blocking stepper: a blocked wake-up is `input; tick`",
                     "deterministic stepper; dev-profile build of the working tree"],
        extra_cov={"levels": levels, "exhaustive": True, "model_mutants_rejected": mutants,
                   "real_results_judged": vstats,
                   "bounds": "function part exhaustive within the listed table universes; 8-modifier part sampled except "
                             "single overrides (all 256 input-modifier subsets in the thorough tier)"})
