#!/usr/bin/env python3
"""C02 - an accepted configuration never crashes or hangs event processing.

Level: exploration, with a model-checked capacity sub-model and a model-checked parser/run-time contract table.

  1. targeted reproducers (DESIGN section 6 probed + suspected crashes)
  2. context enumerator: every atom / list action x every context (cfggen.enum_contexts)
  3. random configurations over the whole action grammar x arbitrary / flood / consistent histories over all
     mapped key codes (cfggen.gen_config / gen_history)
  4. capacity sub-model: TLC on L1 (spec/Layout.tla, every panic site an explicit guarded branch) with scaled-down
     capacities and the arbitrary environment; each reachable panic site's shortest history is scaled up to the
     real capacities and replayed on the real code
  5. contract table spec/Contracts.tla: TLC checks "parser guarantee => run-time precondition" over the boundary
     values; the harness checks the real parser's accept/reject decision against the table and runs every
     accepted value through the feature

Violation = panic / abort / stack overflow / watchdog / error returned to the processing loop on an input the
parser accepted.  Signature = the panic site as `file fn name: source text of the panicking line` (no line numbers:
they shift with unrelated edits; dependency panics: crate file@innermost function of the code under test: message),
or "stack-overflow" / "hang".  A signature listed in known_findings.json is reported as KNOWN-FINDING (exit 0) only
for inputs inside that finding's input class (`requires`: regexes on the configuration text, `requires_history`:
ticks>=N / events>=N); the same site reached by another class of input, and any other signature, is a VIOLATION
(exit 1).  A watchdog hit counts only if the pair, run alone with a ten times larger limit, hangs again.

Quick tier (<= 3 min): 9 + 13 targeted, ~3 k context texts, 700 random configurations, 5 depth-bounded capacity
instances of <= ~35 k states each run one after the other with 8 TLC workers (a TLC timeout keeps the witnesses
found so far and is reported in the notes, never a tool error), the contract table.  Thorough: more of everything,
deeper capacity instances, crashes minimised."""
import concurrent.futures, hashlib, json, os, random, re, shutil, subprocess, time
from kv import *
import kv, flow, cfggen, cfgdesc

PID = "C02"
WORKERS = min(NCPU, 10)


# ------------------------------------------------------------------ worker pool
_SRC = {}


def _site(rel, line):
    """(enclosing fn, source text) of a panic location in the tree under test: the signature must survive line shifts"""
    path = os.path.join(kv.REPO, rel)
    if path not in _SRC:
        try:
            _SRC[path] = open(path, encoding="utf-8", errors="replace").read().splitlines()
        except OSError:
            _SRC[path] = []
    lines = _SRC[path]
    if not (1 <= line <= len(lines)):
        return "?", "line %d" % line
    fn = "?"
    for i in range(line - 1, -1, -1):
        m = re.match(r"\s*(?:pub(?:\([a-z]+\))?\s+)?(?:const\s+)?(?:unsafe\s+)?fn\s+([A-Za-z0-9_]+)", lines[i])
        if m:
            fn = m.group(1)
            break
    return fn, re.sub(r"\s+", " ", lines[line - 1].strip())[:100]


def _sig_of(r):
    """signature of a crash result line: the panic site as `file fn name: source text of the panicking line` (no line
    numbers: they shift with unrelated edits); dependency panics: `crate file@innermost function of the code under
    test: message`"""
    k = r["r"]
    if k == "panic":
        loc = r.get("loc") or "unknown"
        caller = ""
        if "@" in loc:
            loc, caller = loc.split("@", 1)
            caller = "@" + re.sub(r"<[^<>]*>", "", caller.split("::")[-1])
        if loc.startswith(kv.REPO + "/"):
            loc = loc[len(kv.REPO) + 1:]
            m = re.match(r"(.*):(\d+)$", loc)
            if m:
                fn, text = _site(m.group(1), int(m.group(2)))
                return "%s fn %s: %s" % (m.group(1), fn, text)
            return loc
        msg = re.sub(r"\d+", "N", r.get("msg") or "")[:60]
        m = re.search(r"/registry/src/[^/]+/(.*?)(?::\d+)?$", loc)
        if m:
            loc = m.group(1)
        m = re.search(r"/rustc/[0-9a-f]+/(.*?)(?::\d+)?$", loc)
        if m:
            loc = "rust:" + m.group(1)
        return "%s%s: %s" % (loc, caller, msg)
    if k == "error":
        return "loop-error:" + re.sub(r"[^A-Za-z ]", "", r.get("msg", ""))[:40].strip()
    return k


_KF = []


def known_for(sig):
    if not _KF:
        _KF.append(known_findings().get("findings", []))
    for f in _KF[0]:
        if f.get("property") == PID and f.get("signature") == sig:
            return f
    return None


def in_known_class(f, cfg, steps):
    """a known finding covers a crash only inside its input class: every `requires` regex matches the configuration
    text and the history has the `requires_history` feature; the same site reached another way is a new violation"""
    for rx in f.get("requires", []):
        if not re.search(rx, cfg):
            return False
    m = re.match(r"(ticks|events)>=(\d+)$", f.get("requires_history") or "")
    if m and m.group(1) == "ticks" and sum(st[1] for st in steps if st[0] == "t") < int(m.group(2)):
        return False
    if m and m.group(1) == "events" and sum(1 for st in steps if st[0] != "t") < int(m.group(2)):
        return False
    return True


def run_batch(batch, wd, name, watchdog_ms, stack_kb):
    """batch: list of {"id","cfg","scripts":[{"id","cls","steps"}]}.  Runs it in worker subprocesses until
    every (config, history) has a result; a worker that dies names its culprit by the last `begin` line."""
    results = []
    todo = batch
    attempt = 0
    while todo:
        jf = os.path.join(wd, "%s.%d.json" % (name, attempt))
        of = os.path.join(wd, "%s.%d.out" % (name, attempt))
        attempt += 1
        json.dump({"watchdog_ms": watchdog_ms, "stack_kb": stack_kb, "jobs": todo}, open(jf, "w"))
        for f in (of, of + ".hang"):
            if os.path.exists(f):
                os.remove(f)
        try:
            p = subprocess.run([kv.HARNESS, "crash", "run", jf, of], stdout=subprocess.PIPE, stderr=subprocess.STDOUT,
                               text=True, errors="replace", timeout=1800)
            rc, so = p.returncode, p.stdout or ""
        except subprocess.TimeoutExpired:
            raise ToolError("crash worker exceeded 1800 s without tripping the per-step watchdog (%s)" % jf)
        begun = None
        ended = False
        if os.path.exists(of):
            for line in open(of, encoding="utf-8", errors="replace"):
                try:
                    r = json.loads(line)
                except ValueError:
                    continue
                if r["e"] == "begin":
                    begun = (r["jx"], r["sx"])
                elif r["e"] == "done":
                    results.append(r)
                    begun = None
                elif r["e"] == "end":
                    ended = True
        os.remove(jf)
        if ended and rc == 0:
            break
        if begun is None:
            if len(todo) == 1 and len(todo[0]["scripts"]) == 1:
                begun = (0, 0)      # fallback: a single pair that kills the worker before its begin line
            elif attempt > 50:
                raise ToolError("crash worker keeps dying without naming a culprit: rc=%s %s" % (rc, so[-500:]))
            else:
                # fallback bisection: split the batch and run the halves separately
                flat = [(j, s) for j in todo for s in j["scripts"]]
                half = len(flat) // 2
                for part, tag in ((flat[:half], "a"), (flat[half:], "b")):
                    jobs = [dict(j, scripts=[s]) for j, s in part]
                    results += run_batch(jobs, wd, name + tag, watchdog_ms, stack_kb)
                break
        jx, sx = begun
        j = todo[jx]
        s = j["scripts"][sx]
        if rc == 86 and os.path.exists(of + ".hang"):
            h = json.load(open(of + ".hang"))
            res = {"r": "hang", "step": h["step"], "msg": "step exceeded the %d ms watchdog (%d ms)" % (watchdog_ms, h["ms"])}
            if watchdog_ms <= 2000:
                # the watchdog is wall clock and the machine is shared: a hang counts only if the pair, run alone with a
                # ten times larger limit, hangs again (a slow step under load, e.g. symbolising a panic backtrace, does not)
                again = run_batch([dict(j, scripts=[s])], wd, name + "_confirm", watchdog_ms * 10, stack_kb)
                res = dict(again[0])
                if res["r"] == "hang":
                    res["msg"] = "step exceeded the %d ms watchdog twice (second run alone: %s)" % (watchdog_ms, res["msg"])
        elif "overflowed its stack" in so:
            res = {"r": "stack-overflow", "msg": "stack overflow on the %d KiB processing thread" % stack_kb}
        else:
            res = {"r": "abort", "msg": "worker died rc=%s: %s" % (rc, so[-300:])}
        res.update({"e": "done", "j": j["id"], "s": s["id"], "cls": s.get("cls")})
        for k in ("nt", "nsteps", "max_us", "outs"):
            res.setdefault(k, 0)
        results.append(res)
        # continue after the culprit
        rest = []
        if j["scripts"][sx + 1:]:
            rest.append(dict(j, scripts=j["scripts"][sx + 1:]))
        rest += todo[jx + 1:]
        todo = rest
    return results


def run_all(jobs, wd, name, watchdog_ms=2000, stack_kb=2048, per_batch=24):
    """jobs -> list of result lines (one per (config, history))."""
    build_harness()
    batches = [jobs[i:i + per_batch] for i in range(0, len(jobs), per_batch)]
    out = []
    with concurrent.futures.ThreadPoolExecutor(max_workers=WORKERS) as ex:
        futs = [ex.submit(run_batch, b, wd, "%s_b%d" % (name, i), watchdog_ms, stack_kb) for i, b in enumerate(batches)]
        for f in futs:
            out += f.result()
    for f in os.listdir(wd):
        if f.startswith(name + "_b") and (f.endswith(".out") or f.endswith(".hang")):
            os.remove(os.path.join(wd, f))
        elif f.startswith(name + "_b") and f.endswith(".files"):
            shutil.rmtree(os.path.join(wd, f), ignore_errors=True)
    return out


def run_one(cfg, steps, wd, name="one", watchdog_ms=2000, stack_kb=2048, extra=None):
    """extra: further job keys ("files": [texts], "opts": {"mode": "loop"})"""
    job = {"id": 0, "cfg": cfg, "scripts": [{"id": 0, "cls": "one", "steps": steps}]}
    job.update(extra or {})
    r = run_batch([job], wd, name, watchdog_ms, stack_kb)
    return r[0]


# ------------------------------------------------------------------ minimisation
def minimise_history(cfg, steps, sig, wd, budget=150, extra=None):
    """greedy delta debugging on the step list, keeping the crash signature"""
    def crashes(st):
        r = run_one(cfg, st, wd, "min", extra=extra)
        return r["r"] not in ("ok", "reject") and _sig_of(r) == sig
    n = [budget]
    cur = list(steps)
    chunk = max(1, len(cur) // 2)
    while chunk >= 1 and n[0] > 0:
        i = 0
        changed = False
        while i < len(cur) and n[0] > 0:
            cand = cur[:i] + cur[i + chunk:]
            n[0] -= 1
            if cand and crashes(cand):
                cur = cand
                changed = True
            else:
                i += chunk
        if chunk == 1 and not changed:
            break
        chunk = max(1, chunk // 2) if not (chunk == 1 and changed) else 1
    # shrink tick counts
    for i, st in enumerate(cur):
        if st[0] == "t" and st[1] > 1 and n[0] > 0:
            for v in (1, 2, 5, st[1] // 2):
                if v < st[1]:
                    cand = cur[:i] + [["t", v]] + cur[i + 1:]
                    n[0] -= 1
                    if crashes(cand):
                        cur = cand
                        break
    return cur


def _parse_sexprs(t):
    """minimal reader for kanata texts produced by cfggen (no comments): nested lists of atoms"""
    toks = re.findall(r'"[^"]*"|[()]|[^\s()]+', t)
    pos = [0]

    def rd():
        out = []
        while pos[0] < len(toks):
            k = toks[pos[0]]
            pos[0] += 1
            if k == "(":
                out.append(rd())
            elif k == ")":
                return out
            else:
                out.append(k)
        return out
    return rd()


def _render(x):
    if isinstance(x, list):
        return "(" + " ".join(_render(y) for y in x) + ")"
    return x


def minimise_config(cfg, steps, sig, wd, budget=200):
    """replace sub-expressions by XX / drop top-level forms while the parser still accepts and the same crash occurs"""
    try:
        tree = _parse_sexprs(cfg)
    except Exception:
        return cfg
    n = [budget]

    def text(tr):
        return "\n".join(_render(x) for x in tr) + "\n"

    def crashes(tr):
        n[0] -= 1
        r = run_one(text(tr), steps, wd, "minc")
        return r["r"] not in ("ok", "reject", "parse-panic") and _sig_of(r) == sig

    # drop optional top-level forms
    i = 0
    while i < len(tree) and n[0] > 0:
        head = tree[i][0] if isinstance(tree[i], list) and tree[i] else ""
        if head not in ("defsrc",) and not (head == "deflayer" and sum(1 for x in tree if isinstance(x, list) and x and x[0] == "deflayer") == 1):
            cand = tree[:i] + tree[i + 1:]
            if crashes(cand):
                tree = cand
                continue
        i += 1
    # replace list actions by XX, innermost last
    changed = True
    while changed and n[0] > 0:
        changed = False
        paths = []

        def walk(x, path):
            if isinstance(x, list):
                for k, y in enumerate(x):
                    if isinstance(y, list) and len(path) >= 1:
                        paths.append(path + [k])
                    walk(y, path + [k])
        walk(tree, [])
        for pth in sorted(paths, key=len):
            if n[0] <= 0:
                break
            cand = json.loads(json.dumps(tree))
            x = cand
            for k in pth[:-1]:
                x = x[k]
            if pth[-1] >= len(x) or not isinstance(x[pth[-1]], list):
                continue
            x[pth[-1]] = "XX"
            if crashes(cand):
                tree = cand
                changed = True
                break
    return text(tree)


# ------------------------------------------------------------------ targeted reproducers (DESIGN section 6)
def _codes(names):
    return [cfgdesc.code(n) for n in names]


def targeted():
    """(name, cfg, steps) - the probed and suspected crashes of DESIGN section 6 and the ones found by this check, as
    explicit minimal (config, history) pairs.  The repaired ones (known_findings.json "fixed": dynrec-*, chv2-use-defsrc,
    chv2-alias-trans, 13-held-layers, multi-rpt-any, tde-empty) stay as regression reproducers: they must now be
    processed to completion or be rejected by the parser; a crash is a violation again."""
    A, B, C, D = _codes(["a", "b", "c", "d"])
    T = []
    T.append(("dynrec-twice", "(defsrc a)\n(deflayer l0 (multi (dynamic-macro-record 1) (dynamic-macro-record 2)))\n",
              [["d", A], ["t", 2]]))
    T.append(("dynrec-stop-empty", "(defsrc a)\n(deflayer l0 (multi (dynamic-macro-record 1) dynamic-macro-record-stop))\n",
              [["d", A], ["t", 2]]))
    T.append(("chv2-use-defsrc", "(defcfg concurrent-tap-hold yes)\n(defsrc a b)\n(deflayer l0 a b)\n"
              "(defchordsv2 (a b) use-defsrc 50 all-released ())\n", [["d", A], ["d", B], ["t", 5]]))
    T.append(("chv2-alias-trans", "(defcfg concurrent-tap-hold yes)\n(defsrc a b)\n(defalias x _)\n(deflayer l0 a b)\n"
              "(defchordsv2 (a b) @x 50 all-released ())\n", [["d", A], ["d", B], ["t", 5]]))
    keys = "a b c d e f g h i j k l m".split()
    row = " ".join("(layer-while-held l%d)" % (i + 1) for i in range(13))
    cfg = "(defsrc %s)\n" % " ".join(keys) + "".join("(deflayer l%d %s)\n" % (i, row) for i in range(14))
    st = []
    for c in _codes(keys):
        st += [["d", c], ["t", 2]]
    T.append(("13-held-layers", cfg, st + [["d", A], ["t", 3]]))
    # suspected: more than 10 active v2 chords
    ks = "a b c d e f g h i j k l m n o p q r s t u v".split()
    ch = " ".join("(%s %s) %s 50 all-released ()" % (ks[2 * i], ks[2 * i + 1], "x") for i in range(11))
    cfg = "(defcfg concurrent-tap-hold yes)\n(defsrc %s)\n(deflayer l0 %s)\n(defchordsv2 %s)\n" % (" ".join(ks), " ".join(ks), ch)
    st = []
    cs = _codes(ks)
    for i in range(11):
        st += [["d", cs[2 * i]], ["d", cs[2 * i + 1]], ["t", 3]]
    T.append(("chv2-11-active-chords", cfg, st + [["t", 10]]))
    # suspected: more than 16 presses in the v2 queue within one tick
    cfg = "(defcfg concurrent-tap-hold yes process-unmapped-keys yes)\n(defsrc a b)\n(deflayer l0 a b)\n(defchordsv2 (a b) x 50 all-released ())\n"
    T.append(("chv2-17-presses-one-tick", cfg, [["d", c] for c in _codes(ks[:17])] + [["t", 3]]))
    # found by this check
    T.append(("multi-rpt-any", "(defsrc a)\n(deflayer l0 (multi rpt-any))\n", [["d", A], ["t", 2], ["u", A], ["t", 2], ["d", A], ["t", 2]]))
    T.append(("tde-empty", "(defsrc a)\n(deflayer l0 (tap-dance-eager 50 ()))\n", [["d", A], ["t", 2]]))
    # floods sized to the fixed-capacity buffers of the layout (keyberon/src/layout.rs:48-86): every push past the
    # capacity must be ignored or wrap
    T.append(("cap-states-64", "(defsrc a)\n(deflayer l0 a)\n", ([["d", A]] * 30 + [["t", 40]]) * 3 + [["u", A], ["t", 5]]))
    T.append(("cap-oneshot-16", "(defsrc a b)\n(deflayer l0 (one-shot 2000 lsft) (one-shot 2000 lctl))\n",
              [["d", A], ["t", 2], ["d", B], ["t", 2]] * 12 + [["u", A], ["u", B], ["t", 3000]]))
    ks10 = "a b c d e f g h i j".split()
    T.append(("cap-extra-waiting-8", "(defcfg concurrent-tap-hold yes)\n(defsrc %s)\n(deflayer l0 %s)\n" % (
        " ".join(ks10), " ".join("(tap-hold 500 500 x y)" for _ in ks10)),
        sum(([["d", c], ["t", 2]] for c in _codes(ks10)), []) + [["t", 600]] + [["u", c] for c in _codes(ks10)] + [["t", 10]]))
    T.append(("cap-action-queue-8", "(defsrc a)\n(deflayer l0 (switch %s))\n" % " ".join("() %s fallthrough" % k for k in ks10),
              [["d", A], ["t", 20], ["u", A], ["t", 20]] * 2))
    T.append(("cap-active-sequences", "(defsrc a b)\n(deflayer l0 (macro x 200 y) (macro-repeat z 100 w))\n",
              [["p", A], ["p", B], ["t", 1]] * 8 + [["d", B], ["t", 1500], ["u", B], ["t", 500]]))
    T.append(("cap-queue-32", "(defsrc a b)\n(deflayer l0 (tap-hold 500 500 x y) b)\n",
              [["d", A]] + [["p", B]] * 40 + [["t", 600], ["u", A], ["t", 100]]))
    # suspected: more than 16 virtual-key events in the chords-v2 queue within one tick
    cfg = ("(defcfg concurrent-tap-hold yes)\n(defsrc a b)\n(deflayer l0 a b)\n(defvirtualkeys v0 x v1 y)\n"
           "(defchordsv2 (a b) x 50 all-released ())\n")
    T.append(("chv2-17-vkey-events-one-tick", cfg, [["fk", i % 2, "tap"] for i in range(9)] + [["t", 3]]))
    # the same from one key press: nine virtual-key taps in one multi
    cfg = ("(defcfg concurrent-tap-hold yes)\n(defsrc a b)\n(deflayer l0 (multi %s) b)\n(defvirtualkeys v0 x v1 y)\n"
           "(defchordsv2 (b c) x 50 all-released ())\n" % " ".join("(on-press tap-vkey v%d)" % (i % 2) for i in range(9)))
    T.append(("chv2-9-vkey-taps-in-one-multi", cfg, [["d", A], ["t", 5], ["u", A], ["t", 5]]))
    # every key code the parser can map (0..766), each with press, repeat, release and tap: plain, with chords v2, and with
    # overrides + one-shot + tap-hold on some keys
    sweep = []
    for c in sorted(int(c) for c in cfgdesc.keytable()["codes"].keys() if int(c) < 767):
        sweep += [["d", c], ["r", c], ["t", 1], ["u", c], ["p", c], ["t", 1]]
    sweep.append(["t", 50])
    T.append(("all-codes-plain", "(defcfg process-unmapped-keys yes)\n(defsrc a)\n(deflayer l0 b)\n", sweep))
    T.append(("all-codes-chv2", "(defcfg process-unmapped-keys yes concurrent-tap-hold yes)\n(defsrc a b)\n(deflayer l0 a b)\n"
              "(defchordsv2 (a b) x 50 all-released () (c d) (one-shot 50 lsft) 50 first-release ())\n", sweep))
    T.append(("all-codes-features", "(defcfg process-unmapped-keys yes block-unmapped-keys yes)\n(defsrc a b c d)\n"
              "(deflayer l0 (one-shot 50 lsft) (tap-hold 20 20 x y) (tap-dance 20 (x y)) (caps-word 100))\n"
              "(defoverrides (lsft a) (b))\n", sweep))
    # reported by an independent reader: rpt-any as a chords-v2 action repeats the last action at the chord's virtual
    # coordinate; after (multi _ lsft) / (multi use-defsrc lsft) that action looks the coordinate up
    for leaf in ("_", "use-defsrc"):
        cfg = ("(defcfg process-unmapped-keys yes concurrent-tap-hold yes)\n(defsrc a b c d)\n(deflayer l0 a b (multi %s lsft) d)\n"
               "(defchordsv2 (a b) rpt-any 30 all-released ())\n" % leaf)
        T.append(("chv2-rpt-any-after-multi-%s" % ("trans" if leaf == "_" else leaf), cfg,
                  [["d", C], ["t", 5], ["u", C], ["t", 20], ["d", A], ["d", B], ["t", 50], ["u", A], ["u", B], ["t", 50]]))
    # (KEY_MAX = 767 as an input coordinate indexes past the 767-wide layer row, but no configuration can map it -
    # process-unmapped-keys maps 0..766 and deflocalkeys refuses 767 - and every OS layer filters on MAPPED_KEYS: outside
    # the interface, see the assumption "input codes restricted to the configuration's mapped keys")
    return T


# ------------------------------------------------------------------ the check
class Acc:
    def __init__(self):
        self.evals = 0
        self.nontrivial = set()
        self.by_class = {}
        self.crashes = {}          # sig -> {"count","first": {...}}
        self.max_step_us = 0
        self.steps = 0
        self.flags_seen = 0
        self.used = set()
        self.configs = set()

    def add(self, results, jobs_by_id):
        for r in results:
            j = jobs_by_id[r["j"]]
            if r["r"] in ("reject", "parse-panic"):
                continue
            self.evals += 1
            cls = r.get("cls") or "?"
            self.by_class[cls] = self.by_class.get(cls, 0) + 1
            self.steps += r.get("nsteps", 0)
            self.max_step_us = max(self.max_step_us, r.get("max_us", 0))
            h = j["hash"]
            self.configs.add(h)
            nt = r.get("nt", 0)
            self.flags_seen |= nt
            if nt & ~1 or (nt and r.get("outs", 0) > 0 and r["r"] != "ok"):
                self.nontrivial.add((h, cls))
            elif nt:
                self.nontrivial.add((h, cls + ":keys-only"))
            if r["r"] != "ok":
                sig = _sig_of(r)
                steps = next(s["steps"] for s in j["scripts"] if s["id"] == r["s"])
                kf = known_for(sig)
                key = (sig, kf is not None and in_known_class(kf, j["cfg"], steps))
                c = self.crashes.setdefault(key, {"count": 0, "first": None, "classes": set()})
                c["count"] += 1
                c["classes"].add(cls)
                cand = {"cfg": j["cfg"], "steps": steps, "res": {k: r.get(k) for k in ("r", "loc", "msg", "step")},
                        "label": j.get("label", ""), "cls": cls, "extra": {k: j[k] for k in ("files", "opts") if k in j}}
                if c["first"] is None or len(cand["cfg"]) + 4 * len(steps) < len(c["first"]["cfg"]) + 4 * len(c["first"]["steps"]):
                    c["first"] = cand


def mkjob(jid, cfg, scripts, label="", extra=None):
    j = {"id": jid, "cfg": cfg, "label": label, "hash": hashlib.md5(cfg.encode()).hexdigest()[:12],
         "scripts": [{"id": i, "cls": cls, "steps": st} for i, (cls, st) in enumerate(scripts)]}
    j.update(extra or {})
    return j


def explore(tier, seed, wd, acc, notes):
    rng = random.Random(seed)
    kt = cfgdesc.keytable()
    all_codes = sorted(int(c) for c in kt["codes"].keys())
    stats = {}
    t0 = time.time()
    # ---- 1. targeted
    jobs = []
    for name, cfg, steps in targeted():
        jobs.append(mkjob("t:" + name, cfg, [("targeted", steps)], name))
    res = run_all(jobs, wd, "tgt")
    byid = {j["id"]: j for j in jobs}
    acc.add(res, byid)
    stats["targeted"] = {r["j"]: (r["r"] if r["r"] == "ok" else _sig_of(r)) for r in res}
    log("[c02] targeted: %s (%.1fs)" % (stats["targeted"], time.time() - t0))
    # ---- 2. contexts
    t1 = time.time()
    nest2 = 400 if tier == "quick" else 6000
    ctx = list(cfggen.enum_contexts(nest=2, sample=nest2, rng=rng))
    texts = [t for _, t in ctx]
    accd, ast = cfggen.accepted(texts, wd, "ctxacc", chunk=1500)
    jobs = []
    cs = cfggen.context_script()
    ctx_codes = sorted(cfggen.CTX_CODES.values())
    for (label, t), a in zip(ctx, accd):
        if a is None:
            continue
        scripts = [("ctx", cs), ("ctx-arbitrary", cfggen.gen_history(rng, ctx_codes, 60, True, numbers=(50,), long_gaps=False, focus=[30, 48, 42]))]
        jobs.append(mkjob("c:" + label, t, scripts, label))
    res = run_all(jobs, wd, "ctx")
    byid = {j["id"]: j for j in jobs}
    acc.add(res, byid)
    stats["contexts"] = {"texts": len(texts), "accepted": ast["accepted"], "rejected": ast["rejected"],
                         "parser_panics": ast["parser_panics"] + ast["parser_aborts"], "contexts": cfggen.CONTEXTS}
    log("[c02] contexts: %d texts, %d accepted, %d executions (%.1fs)" % (len(texts), ast["accepted"], len(res), time.time() - t1))
    # ---- 3. random configurations
    t2 = time.time()
    ncfg = 700 if tier == "quick" else 8000
    texts, metas = [], []
    for i in range(ncfg):
        d = rng.choice([1, 2, 2, 3, 3, 4]) if tier == "quick" else rng.choice([1, 2, 3, 3, 4, 5])
        t, m = cfggen.gen_config(rng, depth=d)
        texts.append(t)
        metas.append(m)
    if metas and metas[0]["unknown_list_actions"]:
        notes.append("list actions in list_actions.rs without an argument shape in cfggen (not generated): %s" % metas[0]["unknown_list_actions"])
    accd, ast = cfggen.accepted(texts, wd, "rndacc", chunk=2000)
    jobs = []
    used = set()
    for i, (t, m, a) in enumerate(zip(texts, metas, accd)):
        if a is None:
            continue
        used |= set(m["used"])
        codes = a["mapped"] or all_codes
        src_codes = [c for c in codes if c in set(cfgdesc.keytable()["names"].get(k, -1) for k in m["src"])] or codes[:4]
        n = rng.choice([20, 60, 150]) if tier == "quick" else rng.choice([20, 60, 150, 400, 1000])
        scripts = [("arbitrary", cfggen.gen_history(rng, codes, n, True, numbers=m["numbers"], focus=src_codes)),
                   ("arbitrary-nogap", cfggen.gen_history(rng, codes, n, True, numbers=m["numbers"], focus=src_codes, long_gaps=False)),
                   ("consistent", cfggen.gen_history(rng, codes, n, False, numbers=m["numbers"], focus=src_codes, long_gaps=False)),
                   ("flood", flood_history(rng, codes, src_codes))]
        jobs.append(mkjob("r:%d" % i, t, scripts, "random#%d" % i))
    res = run_all(jobs, wd, "rnd")
    byid = {j["id"]: j for j in jobs}
    acc.add(res, byid)
    acc.used |= used
    stats["random"] = {"texts": ncfg, "accepted": ast["accepted"], "rejected": ast["rejected"],
                       "acceptance_ratio": round(ast["accepted"] / max(1, ncfg), 3),
                       "parser_panics": ast["parser_panics"] + ast["parser_aborts"],
                       "parser_panic_samples": ast["parser_panic_samples"][:3]}
    log("[c02] random: %d texts, %d accepted, %d executions (%.1fs)" % (ncfg, ast["accepted"], len(res), time.time() - t2))
    return stats


def flood_history(rng, codes, focus):
    """more events than any internal buffer (queue 32, chords-v2 queue 32/16, states 64) without a tick"""
    s = []
    for _ in range(rng.randint(1, 3)):
        m = rng.choice([33, 40, 65, 80])
        kind = rng.choice(["press-distinct", "press-same", "mixed", "taps", "release-only"])
        for i in range(m):
            c = rng.choice(focus) if rng.random() < 0.5 else rng.choice(codes)
            if kind == "press-distinct":
                s.append(["d", codes[i % len(codes)]])
            elif kind == "press-same":
                s.append(["d", focus[0]])
            elif kind == "taps":
                s.append(["p", c])
            elif kind == "release-only":
                s.append(["u", c])
            else:
                s.append([rng.choice(["d", "u", "r", "p"]), c])
        s.append(["t", rng.choice([1, 5, 60, 300])])
    for c in set(x[1] for x in s if x[0] == "d"):
        s.append(["u", c])
    s.append(["t", 300])
    return s


def _slug(sig):
    """file name part for a signature: path, fn and a short hash of the whole signature"""
    m = re.match(r"(\S+) fn (\w+): ", sig)
    head = "%s_%s" % (os.path.splitext(m.group(1))[0], m.group(2)) if m else sig
    return re.sub(r"[^A-Za-z0-9]+", "_", head)[:50].strip("_") + "_" + hashlib.md5(sig.encode()).hexdigest()[:6]


def replay(r, path, wd):
    """./check replay <file>: run the recorded (configuration, history) on the tree under test again"""
    build_harness()
    out = run_one(r["cfg"], r["script"], wd, "replay", r.get("watchdog_ms", 2000), r.get("stack_kb", 2048),
                  extra={k: r[k] for k in ("files", "opts") if k in r})
    print("configuration:\n%s\nhistory: %s" % (r["cfg"].rstrip(), json.dumps(r["script"])[:600]))
    if out["r"] == "reject":
        print("the parser rejects this configuration now: %s" % out.get("msg", ""))
        return 0
    if out["r"] == "ok":
        print("processed to completion (%d steps, slowest step %d us)" % (out.get("nsteps", 0), out.get("max_us", 0)))
        return 0
    sig = _sig_of(out)
    print("CRASH %s: %s %s (step %s)" % (out["r"], out.get("loc") or "", out.get("msg") or "", out.get("step")))
    print("signature now: %s%s" % (sig, "" if sig == r.get("signature") else "   (recorded: %s)" % r.get("signature")))
    print("VIOLATION property=%s replay=%s" % (PID, path))
    return 1


def run(tier, seed):
    res = flow.Result(PID, tier, seed)
    wd = workdir("c02")
    build_harness()
    acc = Acc()
    notes = []
    stats = explore(tier, seed, wd, acc, notes)
    from props import c02_model
    cap = c02_model.capacity_submodel(tier, seed, wd, acc, run_all, mkjob, notes)
    con = c02_model.contracts(tier, seed, wd, acc, run_all, mkjob, notes)
    tlc_out = con.pop("tlc_out")
    nest = c02_model.nest_family(tier, seed, wd, acc, run_all, mkjob, notes, tlc_out)
    rld = c02_model.reload_family(tier, seed, wd, acc, run_all, mkjob, notes, tlc_out)
    conf = c02_model.repaired_conformance(tier, wd, notes)
    res.states = cap.get("states", 0) + con.get("states", 0) + (conf.get("states") or 0)
    res.transitions = cap.get("generated", 0) + con.get("generated", 0) + (conf.get("generated") or 0)
    # ---- verdicts
    crash_report = []
    for (sig, inclass), c in sorted(acc.crashes.items()):
        f = c["first"]
        kf = known_for(sig)
        known = kf is not None and inclass
        cfg, steps = f["cfg"], f["steps"]
        if not known or tier == "thorough":
            # (removing text / events cannot move a crash from outside a known input class into it)
            steps = minimise_history(cfg, steps, sig, wd, 120 if known else 300, extra=f["extra"])
            if not f["extra"]:      # (a configuration that is also one of the files on disk is not rewritten)
                cfg = minimise_config(cfg, steps, sig, wd, 150 if known else 400)
        obj = {"property": PID, "kind": "crash", "signature": sig, "cfg": cfg, "script": steps, "result": f["res"],
               "found_in": f["label"], "history_class": f["cls"], "watchdog_ms": 2000, "stack_kb": 2048}
        obj.update(f["extra"])
        name = _slug(sig) + ("_outside_known_input_class" if kf is not None and not inclass else "")
        if known:
            if sig not in [k["signature"] for k in res.known]:
                res.known.append({"signature": sig, "what": kf.get("what", "")})
            rp = os.path.join(kv.OUT_DIR, "replays", "%s_%s.json" % (PID, name))
            if tier == "thorough" or not os.path.exists(rp):
                write_replay(PID, name, obj)
        else:
            if kf is not None:
                obj["note"] = "the panic site is a known finding, but this input is outside its input class %s %s" % (
                    kf.get("requires", []), kf.get("requires_history", ""))
            res.violations.append({"desc": "sig=" + sig, "replay": write_replay(PID, name, obj)})
        crash_report.append({"signature": sig, "in_known_input_class": inclass, "count": c["count"], "classes": sorted(c["classes"]),
                             "known": known, "result": f["res"], "cfg": cfg if len(cfg) < 1500 else cfg[:1500] + "...",
                             "history": steps[:60]})
    names = [n for n in cfggen.list_action_names() if n not in cfggen.EXCLUDED]
    cov = {
        "evaluations": acc.evals,
        "distinct_nontrivial": len([x for x in acc.nontrivial if not x[1].endswith(":keys-only")]),
        "distinct_keys_only": len([x for x in acc.nontrivial if x[1].endswith(":keys-only")]),
        "distinct_configs_executed": len(acc.configs),
        "executions_by_history_class": acc.by_class,
        "steps_executed": acc.steps,
        "max_step_wall_us": acc.max_step_us,
        "watchdog_ms_per_step": 2000,
        "machinery_flags_seen": acc.flags_seen,
        "rule": "violation = panic / abort / stack overflow / step over the 2 s watchdog / error returned to the processing loop, "
                "on a configuration the real parser accepted; signature = panic site as `file fn name: source text of the panicking line` "
                "(dependency panics: crate file@innermost function of the code under test: message), 'stack-overflow', 'hang'; "
                "a signature listed in known_findings.json is reported as KNOWN-FINDING only for inputs inside that finding's "
                "input class (`requires` regexes on the configuration, `requires_history`)",
        "generator": stats,
        "list_actions_total": len(cfggen.list_action_names()),
        "list_actions_generated": len([n for n in names if n in cfggen.SHAPES]),
        "list_actions_in_accepted_random_configs": len([n for n in names if n in acc.used]),
        "list_actions_excluded": cfggen.EXCLUDED,
        "capacity_submodel": cap,
        "contract_table": con,
        "repeat_arm_conformance": conf,
        "chordsv2_nested_position_family": nest,
        "reload_request_family": rld,
        "crash_signatures": crash_report,
        "samples": ([{"crash": c["signature"], "cfg": c["cfg"][:600], "history": c["history"][:20]} for c in crash_report[:4]] +
                    [{"random_config": True, "note": "see generator stats"}])[:8],
        "states": int(res.states), "transitions": int(res.transitions),
        "known_findings_seen": [k["signature"] for k in res.known],
        "notes": notes,
    }
    for k in res.known:
        print("KNOWN-FINDING: property=%s %s" % (PID, k["what"] or k["signature"]))
    for v in res.violations:
        print("VIOLATION property=%s replay=%s" % (PID, v["replay"]))
    write_evidence(PID, tier, seed, "exploration", cov, time.time() - res.t0, violations=len(res.violations),
                   assumptions=["deterministic stepper (tick_ms(1) + can_block_update_idle_waiting(1) per tick)",
                                "input codes restricted to the configuration's mapped keys (the OS layers filter on MAPPED_KEYS)",
                                "dev profile (overflow checks, debug assertions), event processing on a 2 MiB thread like the real loop",
                                "sleeping delay actions (on-press-delay ...) generated with arguments <= 5 ms: they block the loop by design",
                                "cmd / clipboard / push-msg / lrld-file actions excluded"])
    return 1 if res.violations else 0
