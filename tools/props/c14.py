"""C14 - OS key-repeat is forwarded for, and only for, keys kanata is holding down.
L1: KeyRepeat.tla (KeyOutputs collection, handle_repeat) behind HandleInput(K, "r", c);  L2: P_C14 (monitor)."""
from props.common import *

# ---- text-level action descriptions (own renderer: covers every key-producing form of the statement) -------
K = lambda k: {"t": "key", "k": k}
CH = lambda mods, k: {"t": "chord", "mods": list(mods), "k": k}
MULTI = lambda *a: {"t": "multi", "acs": list(a)}
TH = lambda tap, hold, T=3, to=None, variant="tap-hold", tt=0: \
    {"t": "th", "tap": tap, "hold": hold, "T": T, "to": to, "variant": variant, "tt": tt}
TD = lambda T, *acs: {"t": "td", "T": T, "acs": list(acs), "eager": False}
TDE = lambda T, *acs: {"t": "td", "T": T, "acs": list(acs), "eager": True}
OS = lambda T, a, variant="one-shot": {"t": "os", "T": T, "a": a, "variant": variant}
FORK = lambda left, right, trig: {"t": "fork", "left": left, "right": right, "trig": list(trig)}
SW = lambda *cases: {"t": "switch", "cases": [list(c) for c in cases]}      # (cond text, action, "break"|"fallthrough")
CHV1 = lambda group, key: {"t": "chordv1", "group": group, "key": key}
UNMOD = lambda *ks: {"t": "unmod", "ks": list(ks), "form": "unmod"}
UNSHIFT = lambda *ks: {"t": "unmod", "ks": list(ks), "form": "unshift"}
SRC = {"t": "src"}
TR = {"t": "trans"}
XX = {"t": "xx"}
LWH = lambda l: {"t": "lwh", "l": l}
LSW = lambda l: {"t": "lsw", "l": l}
RELK = lambda k: {"t": "relkey", "k": k}
SLDR = {"t": "sldr"}


def render(a):
    t = a["t"]
    if t == "key":
        return a["k"]
    if t == "chord":
        return "".join(cfgdesc.MOD_PREFIX[m] for m in a["mods"]) + a["k"]
    if t == "multi":
        return "(multi " + " ".join(render(x) for x in a["acs"]) + ")"
    if t == "th":
        v = a["variant"]
        s = "(%s %d %d %s %s" % (v, a["tt"], a["T"], render(a["tap"]), render(a["hold"]))
        if a["to"] is not None:
            s += " " + render(a["to"])
        return s + ")"
    if t == "td":
        return "(%s %d (%s))" % ("tap-dance-eager" if a["eager"] else "tap-dance", a["T"], " ".join(render(x) for x in a["acs"]))
    if t == "os":
        return "(%s %d %s)" % (a["variant"], a["T"], render(a["a"]))
    if t == "fork":
        return "(fork %s %s (%s))" % (render(a["left"]), render(a["right"]), " ".join(a["trig"]))
    if t == "switch":
        return "(switch " + " ".join("%s %s %s" % (c[0], render(c[1]), c[2]) for c in a["cases"]) + ")"
    if t == "chordv1":
        return "(chord %s %s)" % (a["group"], a["key"])
    if t == "unmod":
        return "(%s %s)" % (a["form"], " ".join(a["ks"]))
    if t == "sldr":
        return "sldr"
    return cfgdesc.render_action(a)      # src trans xx lwh lsw relkey


def kcode(name):
    """key code from the key's name; nop0..nop9 are the reserved no-op keys (0x2a4..0x2ad: never written to the OS)"""
    if name.startswith("nop") and name[3:].isdigit():
        return 0x2a4 + int(name[3:])
    return cfgdesc.code(name)


def par(a, desc):
    """the action as the monitor sees it (codes instead of names; nothing from the parser)"""
    c = kcode
    t = a["t"]
    if t == "key":
        return {"t": "key", "k": c(a["k"])}
    if t == "chord":
        return {"t": "chord", "mods": [c(m) for m in a["mods"]], "k": c(a["k"])}
    if t == "multi":
        return {"t": "multi", "acs": [par(x, desc) for x in a["acs"]]}
    if t == "th":
        return {"t": "th", "tap": par(a["tap"], desc), "hold": par(a["hold"], desc),
                "to": par(a["to"] if a["to"] is not None else a["hold"], desc)}
    if t == "td":
        return {"t": "td", "acs": [par(x, desc) for x in a["acs"]]}
    if t == "os":
        return {"t": "os", "a": par(a["a"], desc)}
    if t == "fork":
        return {"t": "fork", "left": par(a["left"], desc), "right": par(a["right"], desc)}
    if t == "switch":
        return {"t": "switch", "acs": [par(x[1], desc) for x in a["cases"]]}
    if t == "chordv1":
        g = desc["chords"][a["group"]]
        mine = [(ks, out) for (ks, out) in g["chords"] if a["key"] in ks]
        # the chord keys are named after the physical keys they sit on
        return {"t": "chordv1", "acs": [par(out, desc) for (ks, out) in mine], "kss": [[c(k) for k in ks] for (ks, out) in mine],
                "others": [par(out, desc) for (ks, out) in g["chords"] if a["key"] not in ks]}
    if t == "unmod":
        return {"t": "unmod", "ks": [c(k) for k in a["ks"]]}
    if t in ("src", "trans"):
        return {"t": t}
    return {"t": "none"}


def render_kbd(desc):
    out = []
    if desc.get("defcfg"):
        out.append("(defcfg " + " ".join("%s %s" % kv for kv in desc["defcfg"].items()) + ")")
    out.append("(defsrc " + " ".join(desc["keys"]) + ")")
    for g, d in desc.get("chords", {}).items():
        out.append("(defchords %s %d %s)" % (g, d["T"], " ".join("(%s) %s" % (" ".join(ks), render(o)) for ks, o in d["chords"])))
    if desc.get("overrides"):
        out.append("(defoverrides " + " ".join("(%s) (%s)" % (" ".join(ins), " ".join(outs)) for (ins, outs) in desc["overrides"]) + ")")
    for x in desc.get("extra", []):
        out.append(x)
    if desc.get("chordsv2"):
        out.append("(defchordsv2 " + " ".join(
            "(%s) %s %d %s (%s)" % (" ".join(ch["ks"]), render(ch["o"]), ch.get("T", 3), ch.get("rel", "all-released"),
                                    " ".join(cfgdesc.lname(l) for l in ch.get("dis", []))) for ch in desc["chordsv2"]) + ")")
    for i, layer in enumerate(desc["layers"]):
        out.append("(deflayer %s %s)" % (cfgdesc.lname(i), " ".join(render(layer.get(k, TR)) for k in desc["keys"])))
    return "\n".join(out) + "\n"


MODS = ("lsft", "rsft", "lctl", "rctl", "lalt", "ralt", "lmet", "rmet")


def params_of(desc):
    c = cfgdesc.code
    layers = []
    for li, layer in enumerate(desc["layers"]):
        row = []
        for k in desc["keys"]:
            a = par(layer.get(k, TR), desc)
            # chords v2 (text level): a key of a v2 chord can, besides its layer action, put the chord's output down
            # (not on a layer the chord is disabled on)
            v2 = [(ch["ks"], ch["o"]) for ch in desc.get("chordsv2", []) if k in ch["ks"] and li not in ch.get("dis", [])]
            if v2:
                a = {"t": "multi", "acs": [a, {"t": "chordv1", "acs": [par(o, desc) for (ks, o) in v2],
                                              "kss": [[c(q) for q in ks] for (ks, o) in v2], "others": []}]}
            row.append({"c": c(k), "a": a})
        layers.append(row)

    def everywhere(k, t):
        """key k is action t(l) on the base layer and transparent on every other layer"""
        a = desc["layers"][0].get(k, TR)
        if a["t"] != t:
            return None
        if any(l.get(k, TR)["t"] != "trans" for l in desc["layers"][1:]):
            return None
        return a["l"]
    lkeys = [{"c": c(k), "l": everywhere(k, "lwh")} for k in desc["keys"] if everywhere(k, "lwh") is not None]
    swkeys = [{"c": c(k), "l": everywhere(k, "lsw")} for k in desc["keys"] if everywhere(k, "lsw") is not None]
    has_sw = any('"lsw"' in json.dumps(l) for l in desc["layers"])
    ovr = []
    for (ins, outs) in desc.get("overrides", []):
        ik = [k for k in ins if k not in MODS]
        ok = [k for k in outs if k not in MODS]
        ovr.append({"ik": c(ik[0]), "ok": c(ok[0]), "im": [c(k) for k in ins if k in MODS]})
    sq = desc.get("seq", {})
    p = {"keys": [c(k) for k in desc["keys"]], "layers": layers, "lkeys": lkeys, "swkeys": swkeys, "ovr": ovr,
         "roa": desc.get("defcfg", {}).get("override-release-on-activation", "no") == "yes",
         "seq": {"leaders": [c(k) for k in sq.get("leaders", [])], "T": sq.get("T", 0), "hidden": bool(sq.get("hidden", False)),
                 "first": [c(k) for k in sq.get("first", [])]}}
    # a layer-switch the monitor cannot follow (nested, or not the same on every layer) makes the base layer uncertain
    p["dl0"] = 0 if (not has_sw or len(swkeys) == sum(1 for k in desc["keys"] if '"lsw"' in json.dumps([l.get(k, TR) for l in desc["layers"]]))) else -1
    return p


# ---- instance family ------------------------------------------------------------------------------------
def family(tier, rng):
    F = []

    def add(name, keys, layers, qmax=3, **kw):
        d = {"keys": list(keys), "layers": layers, "defcfg": dict(kw.pop("defcfg", {}))}
        io = {"qmax": qmax}
        if "track_hist" in kw:      # switch conditions on held keys only: the key history need not be in the model state
            io["track_hist"] = kw.pop("track_hist")
        if "v2_depth" in kw:        # chords v2 in L1 (ChordsV2.tla): bounds as in C09 (schedules of at most `depth` steps)
            dep = kw.pop("v2_depth")
            io["v2"] = True
            io["constraint"] = "V2Bound"
            io["bound_defs"] = "V2Bound == Len(hist) <= %d /\\ Len(K.L.chv2.ach) <= 3\n" % dep
        if "os_bound" in kw:        # re-pressing a one-shot key stacks coordinates (16-entry ring): bounded as in C06
            n = kw.pop("os_bound")
            io["constraint"] = "OsBound"
            io["bound_defs"] = "OsBound == Len(K.L.os.keys) <= %d /\\ Len(K.L.os.other) <= %d /\\ Len(K.L.os.released) <= %d\n" % (n, n, n)
        d.update(kw)
        F.append((name, d, io))

    X, Y, Z, W = K("x"), K("y"), K("z"), K("w")
    SX = CH(["lsft"], "x")
    # plain key / output chord / multi on two layers; the table lookup must use the held layer
    add("layers_chord", "abc", [{"a": X, "b": LWH(1), "c": SX}, {"a": CH(["lctl"], "z"), "b": TR, "c": MULTI(K("lalt"), Y)}], qmax=2)
    # tap-hold whose hold is the shifted tap key (auto-shift style) next to a plain key
    add("th_autoshift", "ab", [{"a": TH(X, SX, 2), "b": Y}], qmax=2)
    add("th_chord_to", "ab", [{"a": TH(CH(["lctl"], "x"), K("lsft"), 2, to=Z, variant="tap-hold-release-timeout"), "b": Y}], qmax=2)
    # fork and switch: the branch taken depends on a held modifier
    add("fork_switch", "abc", [{"a": FORK(X, CH(["lctl"], "y"), ["lsft"]), "b": K("lsft"),
                                "c": SW(("(lsft)", Z, "break"), ("()", W, "break"))}], qmax=2, track_hist=False)
    # tap-dance and one-shot
    add("td_chord", "ab", [{"a": TD(2, X, CH(["lctl"], "y")), "b": Z}], qmax=2)
    add("os_chord", "ab", [{"a": OS(3, CH(["lctl"], "lalt")), "b": X}], qmax=2, os_bound=2)
    if tier == "thorough":
        add("td_os", "ab", [{"a": TD(3, X, CH(["lctl"], "y")), "b": OS(4, K("lsft"))}], qmax=2, os_bound=2)
        add("os_chord_tde", "ab", [{"a": OS(3, CH(["lctl"], "lalt")), "b": TDE(3, X, Y)}], qmax=2, os_bound=2)
    # input chords v1
    add("chordv1", "ab", [{"a": CHV1("g", "a"), "b": CHV1("g", "b")}],
        qmax=2, chords={"g": {"T": 2, "chords": [(["a"], X), (["b"], Y), (["a", "b"], CH(["lsft"], "z"))]}})
    # unmod / unshift, use-defsrc, transparent fall-through (incl. nested)
    add("unmod_src_trans", "abc", [{"a": UNMOD("x"), "b": LWH(1), "c": TR},
                                   {"a": SRC, "b": TR, "c": MULTI(K("lsft"), TR)}], qmax=2)
    # a global override replaces the held key's output (the table lists the override's output as well)
    add("overrides", "abc", [{"a": X, "b": K("lsft"), "c": SX}], qmax=2 if tier == "quick" else 3, overrides=[(["lsft", "x"], ["y"])])
    # two held layers that both map the key: an output put down on the older held layer is still repeated
    # after a newer layer that maps the key differently has been activated
    add("three_layers", "abc", [{"a": X, "b": LWH(1), "c": LWH(2)},
                                {"a": Y, "b": TR, "c": TR},
                                {"a": CH(["lsft"], "z"), "b": TR, "c": TR}], qmax=2 if tier == "quick" else 3)
    # chained overrides: an override's output is another override's input and the action lists both keys (the table must
    # hold the override outputs of a key that is already listed as an override output)
    OVC = [(["lsft", "x"], ["y"]), (["lctl", "y"], ["z"])]
    add("ovr_chain_fork", "abc", [{"a": FORK(X, Y, ["lctl"]), "b": K("lsft"), "c": K("lctl")}], qmax=2, overrides=OVC)
    # unmod / unshift on a layer-while-held layer whose base-layer entry differs: the "is it down" test of the held-layer
    # walk must know unmodded_keys / unshifted_keys too (handle_repeat has three copies of that test)
    add("unmod_held_layer", "abc", [{"a": Z, "b": LWH(1), "c": W}, {"a": UNMOD("x"), "b": TR, "c": UNSHIFT("y")}], qmax=2)
    # the reserved no-op keys (first and last of the range) as outputs: held in the layout, never down at the OS
    add("nop_keys", "ab", [{"a": K("nop9"), "b": MULTI(K("nop0"), X)}], qmax=2)
    # override-release-on-activation: the override lasts one tick and its input keys are released / pressed again around it
    add("overrides_roa", "ab", [{"a": X, "b": K("lctl")}], qmax=2, overrides=[(["lctl", "x"], ["y"])],
        defcfg={"override-release-on-activation": "yes"})
    # chords v2 (in L1): a key in two chords, the earlier-defined one disabled on the layer
    V2A = [{"ks": ["a", "b"], "o": K("1"), "T": 2, "dis": [0]}, {"ks": ["a", "c"], "o": CH(["lsft"], "2"), "T": 2}]
    add("v2_shared_key", "abc", [{"a": X, "b": Y, "c": Z}], qmax=2, v2_depth=11 if tier == "quick" else 16,
        defcfg={"concurrent-tap-hold": "yes"}, chordsv2=V2A)
    if tier == "thorough":
        # the same on a layer reached with layer-switch (default-layer path), and a held layer on top of a switched-to one
        add("unmod_lsw_layer", "abc", [{"a": Z, "b": LSW(1), "c": W}, {"a": UNMOD("x"), "b": TR, "c": UNSHIFT("y")}], qmax=2)
        add("unmod_lwh_over_lsw", "abc", [{"a": Z, "b": LWH(1), "c": LSW(2)}, {"a": UNMOD("x")}, {"a": UNSHIFT("y")}], qmax=2)
        add("v2_shared_key_rev", "abc", [{"a": X, "b": Y, "c": Z}], qmax=2, v2_depth=16,
            defcfg={"concurrent-tap-hold": "yes"}, chordsv2=V2A[::-1])
        add("v2_two_layers", "abcd", [{"a": X, "b": Y, "c": Z, "d": LSW(1)}, {"a": W}], qmax=2, v2_depth=14,
            defcfg={"concurrent-tap-hold": "yes"},
            chordsv2=[{"ks": ["a", "b"], "o": K("1"), "T": 2, "dis": [1]}, {"ks": ["a", "c"], "o": K("2"), "T": 2}])
        for fn, act in (("th", TH(X, Y, 2)), ("td", TD(2, X, Y)), ("multi", MULTI(X, Y)),
                        ("switch", SW(("(lctl)", Y, "break"), ("()", X, "break")))):
            add("ovr_chain_" + fn, "abc", [{"a": act, "b": K("lsft"), "c": K("lctl")}], qmax=2, overrides=OVC,
                track_hist=False)
        add("ovr_chain_rev_th", "abc", [{"a": TH(Y, X, 2), "b": K("lsft"), "c": K("lctl")}], qmax=2, overrides=OVC)
        add("unshift_multi", "abc", [{"a": MULTI(K("lsft"), UNSHIFT("x")), "b": K("lsft"), "c": UNMOD("y", "z")}])
        add("three_layers_trans", "abc", [{"a": X, "b": LWH(1), "c": LWH(2)},
                                          {"a": Y, "b": TR, "c": TR},
                                          {"a": TR, "b": SX, "c": TR}])
        add("lsw_layers", "abc", [{"a": X, "b": LSW(1), "c": LWH(2)},
                                  {"a": Y, "b": LSW(0), "c": TR},
                                  {"a": CH(["lctl"], "z"), "b": TR, "c": TR}])
        add("multi_layer_key", "ab", [{"a": MULTI(LWH(1), X), "b": Y}, {"a": Z, "b": SX}])
        add("th_nested_trans", "abc", [{"a": X, "b": LWH(1), "c": Y},
                                       {"a": TH(TR, K("lsft"), 2), "b": TR, "c": MULTI(K("lctl"), SRC)}], qmax=2)
        add("relkey_os", "abc", [{"a": SX, "b": RELK("x"), "c": OS(3, K("lctl"), "one-shot-release")}], qmax=2, os_bound=2)
        # every outer form x every leaf, on the base layer and on a held layer
        leaves = {"key": X, "chord": SX, "unmod": UNMOD("x"), "src": SRC, "trans": TR}
        outers = {
            "multi": lambda i: MULTI(K("lalt"), i),
            "th": lambda i: TH(i, K("lctl"), 2),
            "thh": lambda i: TH(Z, i, 2),
            "td": lambda i: TD(2, i, Z),
            "os": lambda i: OS(3, i),
            "fork": lambda i: FORK(Z, i, ["lsft"]),
            "switch": lambda i: SW(("(lsft)", i, "break"), ("()", Z, "break")),
        }
        for on, of in outers.items():
            for ln, leaf in leaves.items():
                if on == "os" and ln not in ("key", "chord"):     # the parser allows only keys / chords / layer-while-held
                    continue
                act = of(leaf)
                kw = {"os_bound": 2} if on == "os" else {}
                add("n_%s_%s_l0" % (on, ln), "abc", [{"a": act, "b": K("lsft"), "c": LWH(1)}, {"a": W, "b": TR, "c": TR}], qmax=2, track_hist=False, **kw)
                add("n_%s_%s_l1" % (on, ln), "abc", [{"a": W, "b": K("lsft"), "c": LWH(1)}, {"a": act, "b": TR, "c": TR}], qmax=2, track_hist=False, **kw)
                if ln in ("key", "chord", "unmod") and on != "td":      # (the tap-dance graphs are the largest; td is on l0 / l1)
                    add("n_%s_%s_sw" % (on, ln), "abc", [{"a": W, "b": K("lsft"), "c": LSW(1)}, {"a": act, "b": TR, "c": TR}], qmax=2, track_hist=False, **kw)
    return F


REPEAT_ENV = r'''
\* the OS auto-repeat of a held physical key (DESIGN 5 C14: a repeat is just another environment action)
Repeat(c) == /\ Alive /\ c \in phys
             /\ K' = HandleInput(K, "r", c) /\ UNCHANGED phys
             /\ mon' = Mon!MonIn(mon, [e |-> "r", c |-> c, out |-> K'.out])
             /\ hist' = Append(hist, <<"r", c>>)
'''
# K.out is cleared at the start of every step, so it cannot influence the future: hiding it makes an accepted
# repeat a self-loop of the state graph (its edge is still printed and replayed on the code)
VIEW = "<<[K EXCEPT !.out = <<>>], phys, mon>>"
KR_PROBE = r'''
\* binding A cross-check: the parser's KeyOutputs table against the collection specified in KeyRepeat.tla
KrProbe == hist # <<>> \/ KrTableDiff = {} \/
           PrintT(<<"KRDIFF", ToJson([n |-> Cardinality(KrTableDiff),
                                      first |-> LET d == CHOOSE d \in KrTableDiff : TRUE IN
                                                [layer |-> d[1], key |-> d[2], real |-> KrTable(d[1], d[2]), spec |-> KrOutputs(d[1], d[2])]])>>)
'''


def extra_configs(tier):
    """configurations outside L1 (sequence modes, chords v2, overrides in quick): binding C only"""
    c = cfgdesc.code
    E = []
    for mode, hidden in (("hidden-suppressed", True), ("hidden-delay-type", True), ("visible-backspaced", False)):
        d = {"keys": ["a", "b", "l"], "layers": [{"a": K("a"), "b": K("b"), "l": SLDR}],
             "defcfg": {"sequence-timeout": 5, "sequence-input-mode": mode},
             "extra": ["(defseq s1 (b b))", "(defvirtualkeys s1 c)"],
             "seq": {"leaders": ["l"], "T": 5, "hidden": hidden, "first": ["b"]}}
        E.append(("seq_" + mode.replace("-", "_"), d))
    # the leader form names its own input mode (and timeout), different from the defcfg ones: the mode of the sequence
    # that is running decides whether repeats are suppressed
    for mode, dflt in (("hidden-suppressed", "visible-backspaced"), ("visible-backspaced", "hidden-suppressed"),
                       ("hidden-delay-type", "visible-backspaced"), ("visible-backspaced", "hidden-delay-type")):
        d = {"keys": ["a", "b", "l"], "layers": [{"a": K("a"), "b": K("b"), "l": {"t": "raw", "text": "(sequence 8 %s)" % mode}}],
             "defcfg": {"sequence-timeout": 3, "sequence-input-mode": dflt},
             "extra": ["(defseq s1 (b b))", "(defvirtualkeys s1 c)"],
             "seq": {"leaders": ["l"], "T": 8, "hidden": mode != "visible-backspaced", "first": ["b"]}}
        E.append(("seqform_%s_in_%s" % (mode.split("-")[1], dflt.split("-")[1]), d))
    E.append(("chordsv2", {"keys": ["a", "b", "c"], "layers": [{"a": K("x"), "b": K("y"), "c": K("lsft")}],
                           "defcfg": {"concurrent-tap-hold": "yes"},
                           "chordsv2": [{"ks": ["a", "b"], "o": CH(["lsft"], "z"), "T": 4}]}))
    # a key that takes part in two v2 chords, the earlier-defined one disabled on the layer switched to (and the
    # mirrored definition order): the later chord's output must still be repeated there
    for nm, order in (("chordsv2_dis", (0, 1)), ("chordsv2_dis_rev", (1, 0))):
        chs = [{"ks": ["a", "b"], "o": K("1"), "T": 4, "dis": [1]}, {"ks": ["a", "c"], "o": CH(["lsft"], "2"), "T": 4}]
        E.append((nm, {"keys": ["a", "b", "c", "d"],
                       "layers": [{"a": K("x"), "b": K("y"), "c": K("z"), "d": LSW(1)}, {"a": K("w")}],
                       "defcfg": {"concurrent-tap-hold": "yes"}, "chordsv2": [chs[i] for i in order]}))
    # chained overrides: the output of one override is the input of another, and the action lists both keys
    E.append(("ovr_chain_th", {"keys": ["a", "b", "c"],
                               "layers": [{"a": TH(K("x"), K("y"), 3), "b": K("lsft"), "c": K("lctl")}],
                                 "defcfg": {}, "overrides": [(["lsft", "x"], ["y"]), (["lctl", "y"], ["z"])]}))
    E.append(("overrides", {"keys": ["a", "b", "c"], "layers": [{"a": K("x"), "b": K("lsft"), "c": CH(["lsft"], "x")}],
                            "defcfg": {}, "overrides": [(["lsft", "x"], ["y"])]}))
    return E


def scripted(desc):
    """a few directed histories per configuration: hold each key, repeat at every point"""
    c = cfgdesc.code
    ks = [c(k) for k in desc["keys"]]
    S = []
    for a in ks:
        S.append([["d", a], ["r", a], ["t", 1], ["r", a], ["t", 1], ["r", a], ["t", 6], ["r", a], ["u", a], ["r", a], ["t", 1], ["r", a], ["t", 8]])
        for b in ks:
            if b == a:
                continue
            S.append([["d", b], ["t", 2], ["d", a], ["t", 1], ["r", a], ["t", 1], ["r", a], ["r", b], ["t", 6], ["r", a], ["r", b],
                      ["u", b], ["t", 1], ["r", a], ["t", 2], ["r", a], ["u", a], ["t", 8]])
            S.append([["d", b], ["t", 1], ["u", b], ["t", 1], ["d", a], ["t", 1], ["r", a], ["t", 3], ["r", a], ["t", 8], ["r", a], ["u", a], ["t", 8]])
    if len(ks) >= 3:
        for p in ks:
            for a in ks:
                for b in ks:
                    if len({p, a, b}) < 3:
                        continue
                    for first in ([["d", p], ["t", 2], ["u", p], ["t", 2]], [["d", p], ["t", 3]]):
                        S.append(first + [["d", a], ["d", b], ["t", 1], ["r", a], ["r", b], ["t", 7], ["r", a], ["r", b], ["t", 2],
                                          ["u", b], ["t", 2], ["r", a], ["u", a], ["t", 2], ["u", p], ["t", 8]])
    return S


def run(tier, seed):
    pid = "C14"
    res = flow.Result(pid, tier, seed)
    rng = random.Random(seed)
    wd = workdir("c14")
    jobs_random, witness_jobs = [], []
    table_diffs = 0
    for name, desc, io in family(tier, rng):
        kbd = render_kbd(desc)
        params = params_of(desc)
        keys = [cfgdesc.code(k) for k in desc["keys"]]
        inst = {"name": "c14_" + name, "kbd": kbd, "keys": keys,
                "monitor": {"module": "P_C14", "params": params},
                "extra_actions": REPEAT_ENV, "extra_next": "\\/ (\\E c \\in EnvKeys : Repeat(c))",
                "view": VIEW, "extra_defs": KR_PROBE, "invariants": ["StutterProbe", "KrProbe"]}
        inst.update(io)
        inst["extra_defs"] = KR_PROBE + inst.pop("bound_defs", "")
        if inst.pop("v2", False):
            inst["universe"] = keys + [0]          # TRIGGER_TAPHOLD_COORD (0, 0) is dequeued like a key
            inst["view"] = "<<CvCanonK([K EXCEPT !.out = <<>>]), phys, mon>>"
            inst["extra_guard"] = "/\\ Len(K.L.chv2.q) + Len(K.L.queue) < QMax"
        inst["extra_tags"] = ["KRDIFF"]      # mc.check_instance removes the TLC output after extracting the probes
        r = mc.check_instance(inst, wd, workers=4, timeout=1500)
        res.add_instance(r)
        nd = r.get("n_krdiff", 0)
        if nd:
            table_diffs += 1
            res.notes.append("KeyOutputs table of the parser differs from KeyRepeat!KrOutputs on %s: %s" %
                             (name, open(r["krdiff_file"]).read().strip()[:300]))
        if len(res.samples) < 3:
            res.samples.append({"instance": name, "kbd": kbd, "states": r["states"], "edges": r.get("edges")})
        ws = flow.witness_scripts(r["monerr_file"], 30) + flow.witness_scripts(r["panic_file"], 10)
        scripts = [flow.hist_to_script(w["h"], 8) for w in ws] + \
                  [flow.hist_to_script(d["h"], 8) for d in r.get("drift_samples", [])]
        if scripts:
            witness_jobs.append({"cfg": kbd, "params": params, "tag": "w:" + name, "scripts": scripts})
        n = 25 if tier == "quick" else (40 if name.startswith("n_") else 150)
        scripts = [rand_history(rng, keys, rng.randint(4, 40 if tier == "quick" else 200),
                                [0, 0, 1, 1, 2, 3, 4, 7], tail=12, repeat_p=0.45) for _ in range(n)]
        jobs_random.append({"cfg": kbd, "params": params, "tag": "r:" + name, "scripts": scripts + scripted(desc)})
    for name, desc in extra_configs(tier):
        kbd = render_kbd(desc)
        params = params_of(desc)
        keys = [cfgdesc.code(k) for k in desc["keys"]]
        n = 40 if tier == "quick" else 300
        scripts = [rand_history(rng, keys, rng.randint(4, 40 if tier == "quick" else 200),
                                [0, 0, 1, 1, 2, 3, 6, 9], tail=12, repeat_p=0.45) for _ in range(n)]
        jobs_random.append({"cfg": kbd, "params": params, "tag": "x:" + name, "scripts": scripts + scripted(desc)})
    res.extra["key_outputs_table_mismatches"] = table_diffs
    if tier == "thorough":
        # DESIGN 3.4 model mutants: seeded design errors of KeyRepeat.tla must be rejected by P_C14 in the model
        fam = {n: (d, io) for n, d, io in family("quick", rng)}
        rejected = {}
        for bug, iname in (("kr_prefer_first", "layers_chord"), ("kr_base_layer", "layers_chord"),
                           ("kr_no_active_check", "fork_switch")):
            desc, io = fam[iname]
            inst = {"name": "c14_bug_%s" % bug, "kbd": render_kbd(desc), "keys": [cfgdesc.code(k) for k in desc["keys"]],
                    "monitor": {"module": "P_C14", "params": params_of(desc)}, "bug": bug, "edges": False,
                    "extra_actions": REPEAT_ENV, "extra_next": "\\/ (\\E c \\in EnvKeys : Repeat(c))",
                    "view": VIEW, "invariants": []}
            inst.update(io)
            inst["extra_defs"] = inst.pop("bound_defs", "")
            r = mc.check_instance(inst, wd, workers=4, timeout=1500, replay=False)
            rejected[bug] = r["n_monerr"]
            if not r["n_monerr"]:
                raise ToolError("model mutant %s of KeyRepeat.tla is not rejected by P_C14 on %s" % (bug, iname))
        res.extra["model_mutants_rejected"] = rejected
    for label, jobs in (("witness", witness_jobs), ("random", jobs_random)):
        if not jobs:
            continue
        jobs = shard_local_index(jobs)
        errs, trace = record_and_validate(res, "P_C14", jobs, wd, "c14_" + label)
        errs.sort(key=lambda e: len(script_of(jobs, e["job"], 0)[1]))
        for e in errs:
            j, s = script_of(jobs, e["job"], 0)
            flow.classify(res, pid, e["err"], e["err"] + " cfg=" + j["cfg"],
                          {"property": pid, "cfg": j["cfg"], "params": j["params"], "script": s, "err": e["err"],
                           "monitor": "P_C14"},
                          "%s_%d" % (label, len(res.violations)))
            if len(res.violations) >= 5:
                break
        if label == "random":
            res.samples.append({"random_history": jobs[0]["scripts"][0][:30], "cfg": jobs[0]["cfg"]})
    if res.drift:
        res.notes.append("model drift: %d edges differ between L1 and the code; the verdict rests on the "
                         "monitor-validated recorded traces for the drifting region" % res.drift)
    return flow.finish(
        res, "model_checking",
        "TLC explores L1 (Kanata.tla + KeyRepeat.tla: KeyOutputs collection and handle_repeat over the parser's own table) "
        "|| P_C14 for every physically consistent schedule over 2-3 keys (<= qmax pending, every gap) with an OS repeat of any "
        "held key injected in every state, per instance of the key-producing action forms; the parser's KeyOutputs table is "
        "compared with the specified collection; every model transition (incl. every repeat) is replayed on the real code; "
        "model-level counterexamples, random and directed histories (also on sequence-mode, chords-v2 and override "
        "configurations outside L1) are recorded from the code and validated by TLC against P_C14.",
        assumptions=["deterministic stepper", "a repeat is observed as a key-down event in the output of a repeat input "
                     "(the simulated output has no separate repeat value)",
                     "attribution of an output key to a physical key is claimed only where the observable history makes it unambiguous"])
