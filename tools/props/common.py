import json, os, random
from kv import *
import mc, flow, cfgdesc


def rand_history(rng, keys, n_events, gaps, release_all=True, tail=0, repeat_p=0.0):
    """Physically consistent random history over `keys` (codes)."""
    down = set()
    s = []
    for _ in range(n_events):
        k = rng.choice(keys)
        if k in down:
            if repeat_p and rng.random() < repeat_p:
                s.append(["r", k])
            else:
                s.append(["u", k])
                down.discard(k)
        else:
            s.append(["d", k])
            down.add(k)
        g = rng.choice(gaps)
        if g:
            s.append(["t", g])
    if release_all:
        for k in sorted(down):
            s.append(["u", k])
            s.append(["t", 1])
    if tail:
        s.append(["t", tail])
    return s


def record_and_validate(res, monitor, jobs, wd, name, replay_name_prefix=""):
    """Runs jobs on the real code, validates the traces with the L2 monitor (TLC).
    Returns list of rejected (job tag, script index, err)."""
    outs = run_jobs(jobs, wd, name)
    trace = concat_traces(outs, os.path.join(wd, name + ".trace.ndjson"))
    nlines, errs = validate_trace(monitor, trace, wd)
    nscripts = sum(len(j["scripts"]) for j in jobs)
    res.traces_validated += nscripts
    res.trace_lines += nlines
    return errs, trace


def script_of(jobs, tag, si):
    for j in jobs:
        if j.get("tag") == tag:
            return j, j["scripts"][si]
    raise ToolError("script lookup failed for %r/%r" % (tag, si))


def shard_local_index(jobs):
    """run_jobs shards scripts round-robin; the `script` index printed in a reset line is local
    to the shard's job entry.  To map errors back we tag every script with a unique job tag."""
    out = []
    for j in jobs:
        for i, s in enumerate(j["scripts"]):
            jj = dict(j)
            jj["scripts"] = [s]
            jj["tag"] = "%s#%d" % (j.get("tag", "job"), i)
            out.append(jj)
    return out


# ---------------------------------------------------------------- documented keyword spellings
_ALIASES = None


def doc_aliases():
    """(long name, short name) pairs of action keywords as documented in docs/config.adoc of the working tree
    ("`tap-hold-press` or `tap⬓↓`"): both spellings denote the same action."""
    global _ALIASES
    if _ALIASES is None:
        import re
        text = open(os.path.join(REPO, "docs", "config.adoc"), encoding="utf-8").read()
        pairs = {}
        kw = open(os.path.join(REPO, "parser", "src", "cfg", "list_actions.rs"), encoding="utf-8").read()
        for m in re.finditer(r"`\+?([a-z][a-z0-9-]*)\+?` or `\+?([^`+\s]+)\+?`", text):
            long_, short = m.group(1), m.group(2)
            # a unicode short name (not two ASCII keywords) that exists as a keyword of the parser (two short names are
            # misspelt in the documentation: tap-hold⤫keys, word⇪-custom)
            if not re.fullmatch(r"[a-z0-9-]+", short) and ('"%s"' % short) in kw and ('"%s"' % long_) in kw:
                pairs[long_] = short
        _ALIASES = pairs
    return _ALIASES


def respell(kbd):
    """the configuration text with every documented long keyword at the head of a list replaced by its short name"""
    import re
    al = doc_aliases()

    def sub(m):
        return "(" + al.get(m.group(1), m.group(1)) + m.group(2)
    return re.sub(r"\(([a-z][a-z0-9-]*)([\s)])", sub, kbd)


def spelling_twins(jobs, keep=8):
    """for every job whose configuration has a documented short spelling: a twin job with the respelled text, the same
    monitor parameters (they come from the description, not from the text) and the first `keep` scripts"""
    out = []
    for j in jobs:
        t = respell(j["cfg"])
        if t != j["cfg"]:
            jj = dict(j)
            jj["cfg"] = t
            jj["tag"] = j.get("tag", "job") + ":short"
            jj["scripts"] = j["scripts"][:keep]
            out.append(jj)
    return out
