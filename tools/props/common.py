import json, os, random
from kv import *
import mc, flow, cfgdesc


def rand_history(rng, keys, n_events, gaps, release_all=True, tail=0, repeat_p=0.0):
    """Physically consistent random history over `keys` (codes)."""
    down = set()
    s = []
    for _ in range(n_events):
        k = rng.choice(keys)
        if k in down:
            if repeat_p and rng.random() < repeat_p:
                s.append(["r", k])
            else:
                s.append(["u", k])
                down.discard(k)
        else:
            s.append(["d", k])
            down.add(k)
        g = rng.choice(gaps)
        if g:
            s.append(["t", g])
    if release_all:
        for k in sorted(down):
            s.append(["u", k])
            s.append(["t", 1])
    if tail:
        s.append(["t", tail])
    return s


def record_and_validate(res, monitor, jobs, wd, name, replay_name_prefix=""):
    """Runs jobs on the real code, validates the traces with the L2 monitor (TLC).
    Returns list of rejected (job tag, script index, err)."""
    outs = run_jobs(jobs, wd, name)
    trace = concat_traces(outs, os.path.join(wd, name + ".trace.ndjson"))
    nlines, errs = validate_trace(monitor, trace, wd)
    nscripts = sum(len(j["scripts"]) for j in jobs)
    res.traces_validated += nscripts
    res.trace_lines += nlines
    return errs, trace


def script_of(jobs, tag, si):
    for j in jobs:
        if j.get("tag") == tag:
            return j, j["scripts"][si]
    raise ToolError("script lookup failed for %r/%r" % (tag, si))


def shard_local_index(jobs):
    """run_jobs shards scripts round-robin; the `script` index printed in a reset line is local
    to the shard's job entry.  To map errors back we tag every script with a unique job tag."""
    out = []
    for j in jobs:
        for i, s in enumerate(j["scripts"]):
            jj = dict(j)
            jj["scripts"] = [s]
            jj["tag"] = "%s#%d" % (j.get("tag", "job"), i)
            out.append(jj)
    return out
