"""C10 - switch and fork conditions evaluate exactly as written.

Level: translation validation.  The "programs" are switch conditions / case lists written as
configuration text; the two translations compared are
   text --(documentation: Switch.tla Denote / DenoteCases)-->            documented firing set
   text --(real parser)--> opcodes --(real Switch::actions)-->            real firing set
TLC enumerates the programs and environments (spec/MC_Switch.tla), evaluates the documented
meaning, the compiler model (Compile) and the evaluator model (Run) and prints one line per
program; the harness (`kverif switch-tv`) feeds the rendered text to the real parser, compares
the opcodes with Compile (a mismatch that does not change a truth value is *drift*), and calls
the real Switch::actions on the parser-produced cases in every enumerated environment.
VIOLATION only if the real code disagrees with the documented meaning (DESIGN 3.3).
A sample (switch and fork) runs end-to-end through the stepper and is judged by the monitor
P_C10 (trace validation by TLC); so do
  * the key-timing families tlongA/B: every threshold at the TLC-enumerated ages (MC_Switch mode "ages": the
    documented resolution boundary, the same 65536 and 131072 ticks later, the saturation point 65535) reached
    by long silent gaps -- ages saturate, they do not wrap;
  * the composite action terms of spec/ActionTerms.tla (MC_ActionTerms.tla enumerates every fork / switch whose
    branches are keys, v1 chord placeholders, multi / tap-hold / tap-dance / fork / switch over those): the
    parser's final action tree after its post-parse passes (resolution of the chord placeholders rebuilds
    every containing action) must equal Final(term), and the key held through a quiet window must press
    HeldOut(term, state) in each of the four trigger environments (P_C10 kind "term")."""
import threading
from props.common import *

PID = "C10"
SIG = "not-nested-last"   # signature of the (repaired) known finding (known_findings.json)

# text of the leaves of the leaf triples of MC_Switch.tla (text level; the agreement with the
# TLA+ records is itself checked: parser(text) must equal Compile(record))
TRIPLE_TEXT = {
    1: ["a", "(key-history b 2)", "(key-timing 1 lt 300)"],
    2: ["(input real c)", "(layer l1)", "(input-history virtual v1 1)"],
    3: ["(base-layer l1)", "(key-timing 2 gt 2500)", "b"],
    4: ["a", "(input virtual v2)", "(key-history c 8)"],
    5: ["(input-history real b 3)", "(key-timing 3 less-than 40)", "(layer l0)"],
    6: ["a", "b", "c"],
}
POOL_TEXT = {1: "(a)", 2: "(b)", 3: "((not a))", 4: "()"}
OPN = {"O": "or", "A": "and", "N": "not"}
AC_NAMES = ["1", "2", "3", "4", "5", "6", "7", "8", "9", "0"]


def cfg_text(switch_text):
    return ("(defsrc a b c d)\n(defvirtualkeys v1 XX v2 XX)\n"
            "(deflayer l0 a b c %s)\n(deflayer l1 _ _ _ _)\n" % switch_text)


def parse_shape(s):
    """'A(1O(23))N(1)' -> list of nodes; node = int leaf | (op, [nodes])"""
    pos = 0

    def items():
        nonlocal pos
        out = []
        while pos < len(s) and s[pos] != ")":
            ch = s[pos]
            if ch in OPN:
                pos += 2
                sub = items()
                pos += 1
                out.append((OPN[ch], sub))
            else:
                out.append(int(ch))
                pos += 1
        return out
    return items()


def render_nodes(nodes, leaves):
    return " ".join(leaves[n - 1] if isinstance(n, int) else "(%s %s)" % (n[0], render_nodes(n[1], leaves)) for n in nodes)


def in_known_class(nodes):
    """Syntactic class of the known finding: some `not` has an operator as its last operand and is
    followed by a further item (in its own list or in an enclosing one)."""
    def walk(lst, followed):
        for i, n in enumerate(lst):
            if isinstance(n, int):
                continue
            fol = followed or i < len(lst) - 1
            if n[0] == "not" and n[1] and not isinstance(n[1][-1], int) and fol:
                return True
            if walk(n[1], fol):
                return True
        return False
    return walk(nodes, False)


def rec_nodes(cond):
    """expression records -> node form of parse_shape (leaves are all 1)"""
    return [(e["k"], rec_nodes(e["args"])) if "args" in e else 1 for e in cond]


# ------------------------------------------------------------------ random deep / large conditions
def rand_leaf(rng):
    k = rng.choice(["key", "key", "keyhist", "timing", "input", "inputhist", "layer", "baselayer"])
    keyn = rng.choice(["a", "b", "c", "d", "x", "y"])
    kc = cfgdesc.code(keyn)
    if k == "key":
        return {"k": "key", "kc": kc}, keyn
    if k == "keyhist":
        n = rng.randint(0, 7)
        return {"k": "keyhist", "kc": kc, "n": n}, "(key-history %s %d)" % (keyn, n + 1)
    if k == "timing":
        n = rng.randint(0, 7)
        cmp_ = rng.choice(["lt", "gt"])
        t = rng.choice([rng.randint(0, 300), rng.randint(200, 2400), rng.randint(2200, 65535)])
        word = {"lt": rng.choice(["lt", "less-than"]), "gt": rng.choice(["gt", "greater-than"])}[cmp_]
        return {"k": "timing", "n": n, "cmp": cmp_, "t": t}, "(key-timing %d %s %d)" % (n + 1, word, t)
    if k in ("input", "inputhist"):
        if rng.random() < 0.5:
            x, y, txt = 0, kc, "real " + keyn
        else:
            v = rng.randint(0, 1)
            x, y, txt = 1, v, rng.choice(["virtual", "fake"]) + " v%d" % (v + 1)
        if k == "input":
            return {"k": "input", "x": x, "y": y}, "(input %s)" % txt
        n = rng.randint(0, 7)
        return {"k": "inputhist", "x": x, "y": y, "n": n}, "(input-history %s %d)" % (txt, n + 1)
    l = rng.randint(0, 1)
    if k == "layer":
        return {"k": "layer", "l": l}, "(layer l%d)" % l
    return {"k": "baselayer", "l": l}, "(base-layer l%d)" % l


def rand_tree(rng, size, depth, maxdepth, force_deep):
    """random expression with about `size` nodes at parser depth `depth`..maxdepth"""
    if size <= 1 or depth >= maxdepth:
        return rand_leaf(rng)
    op = rng.choice(["or", "and", "not"])
    rest = size - 1
    args, texts = [], []
    first = True
    while rest > 0:
        if force_deep and first:
            sz = max(1, min(rest, rng.randint(rest // 2, rest)))
        else:
            sz = rng.randint(1, max(1, min(rest, 1 + rest // rng.randint(1, 6))))
        e, t = rand_tree(rng, sz, depth + 1, maxdepth, force_deep and first)
        args.append(e)
        texts.append(t)
        rest -= sz
        first = False
    return {"k": op, "args": args}, "(%s %s)" % (op, " ".join(texts))


def nodes_depth(e, d=1):
    if "args" not in e:
        return 1, d
    n, dm = 1, d
    for a in e["args"]:
        n1, d1 = nodes_depth(a, d + 1)
        n += n1
        dm = max(dm, d1)
    return n, dm


def rand_env(rng):
    ks = [cfgdesc.code(k) for k in ["a", "b", "c", "d", "x", "y"]]
    age = lambda: rng.choice([rng.randint(0, 300), rng.randint(200, 2400), rng.randint(2200, 65535)])
    coord = lambda: [0, rng.choice(ks)] if rng.random() < 0.6 else [1, rng.randint(0, 1)]
    ages = sorted(age() for _ in range(rng.randint(0, 8)))
    return {"keys": rng.sample(ks, rng.randint(0, 4)),
            "coords": [coord() for _ in range(rng.randint(0, 3))],
            "hk": [{"e": rng.choice(ks), "age": a} for a in ages],
            "hi": [{"e": coord(), "age": a} for a in sorted(age() for _ in range(rng.randint(0, 8)))],
            "layers": rng.choice([[0], [1, 0], [1]]), "dl": rng.randint(0, 1)}


def gen_given(rng, tier):
    """[(cond as list of TLA records, cond text, meta)]"""
    n_deep, n_mid, n_large = (14, 10, 2) if tier == "quick" else (150, 120, 30)
    out = []
    for i in range(n_deep):
        items = [rand_tree(rng, rng.randint(8, 60), 1, 8, True) for _ in range(rng.randint(1, 3))]
        out.append(items)
    for i in range(n_mid):
        items = [rand_tree(rng, rng.randint(20, 300), 1, rng.randint(3, 8), rng.random() < 0.5) for _ in range(rng.randint(1, 4))]
        out.append(items)
    for i in range(n_large):
        items = [rand_tree(rng, rng.randint(600, 1200 if tier == "quick" else 3000), 1, rng.randint(2, 8), rng.random() < 0.5)]
        out.append(items)
    # the limits: an operator whose end index is exactly 4095 (the largest that is accepted)
    for op in (("or", "and", "not") if tier != "quick" else (rng.choice(["or", "and", "not"]),)):
        out.append([({"k": op, "args": [{"k": "key", "kc": cfgdesc.code(k)} for k in ["x"] * 4093 + ["a"]]},
                     "(%s %s a)" % (op, " ".join(["x"] * 4093)))])
    res = []
    for items in out:
        cond = [e for e, _ in items]
        text = " ".join(t for _, t in items)
        n = sum(nodes_depth(e)[0] for e in cond)
        d = max(nodes_depth(e)[1] for e in cond)
        res.append((cond, text, {"nodes": n, "depth": d}))
    return res


# ------------------------------------------------------------------ TLC runs
CFG = """CONSTANT Mode = "%(mode)s"
CONSTANT Variant = "%(variant)s"
CONSTANT MaxNodes = %(maxnodes)d
CONSTANT Triples <- TriplesDef
CONSTANT MaxCases = %(maxcases)d
CONSTANT MaxFull = %(maxfull)d
CONSTANT PoolN = %(pooln)d
CONSTANT Given <- GivenDef
CONSTANT GivenEnvs <- GivenEnvsDef
CONSTANT ThrLo = %(thrlo)d
CONSTANT ThrHi = %(thrhi)d
INIT Init
NEXT Next
INVARIANT Probe
CHECK_DEADLOCK FALSE
"""


def tlc_job(wd, name, mode, workers, timeout, variant="code", maxnodes=0, triples=(), maxcases=0, maxfull=0, pooln=2,
            given=None, envs=None, thr=(0, 0), heap="3g"):
    mod = "MC_C10_" + name
    with open(os.path.join(wd, mod + ".tla"), "w") as f:
        f.write("---- MODULE %s ----\nEXTENDS MC_Switch\nTriplesDef == %s\nGivenDef == %s\nGivenEnvsDef == %s\n====\n" % (
            mod, tla_val(set(triples)), tla_val(given or []), tla_val(envs or [])))
    with open(os.path.join(wd, mod + ".cfg"), "w") as f:
        f.write(CFG % dict(mode=mode, variant=variant, maxnodes=maxnodes, maxcases=maxcases, maxfull=maxfull,
                           pooln=pooln, thrlo=thr[0], thrhi=thr[1]))
    r = run_tlc(wd, mod, workers=workers, timeout=timeout, heap=heap)
    if r["rc"] == 124:
        raise ToolError("TLC timed out on %s" % mod)
    if r["rc"] != 0 or r["error"] or not r["finished"]:
        raise ToolError("TLC failed on %s: %s (see %s)" % (mod, r["error"], r["out"]))
    cases = os.path.join(wd, mod + ".cases.ndjson")
    n = extract_prints(r["out"], "SWCASE", cases)
    envf = os.path.join(wd, mod + ".envs.ndjson")
    extract_prints(r["out"], "SWENV", envf)
    return {"name": name, "mode": mode, "states": r["distinct"], "generated": r["generated"], "lines": n,
            "cases": cases, "envs": envf, "wall_s": round(r["wall_s"], 1), "variant": variant}


def run_parallel(thunks):
    res, errs = [None] * len(thunks), []

    def wrap(i, t):
        try:
            res[i] = t()
        except Exception as e:  # noqa
            errs.append(e)
    ths = [threading.Thread(target=wrap, args=(i, t)) for i, t in enumerate(thunks)]
    for t in ths:
        t.start()
    for t in ths:
        t.join()
    if errs:
        raise errs[0]
    return res


# ------------------------------------------------------------------ harness run
def run_switch_tv(jobs, wd, name, shards=None):
    """jobs: list of job dicts; returns the merged result of `kverif switch-tv`."""
    build_harness()
    shards = max(1, min(shards or min(NCPU, 12), len(jobs) // 20 + 1))
    procs = []
    for i in range(shards):
        part = os.path.join(wd, "%s.tv%d.ndjson" % (name, i))
        with open(part, "w") as f:
            for j in jobs[i::shards]:
                f.write(json.dumps(j) + "\n")
        outp = part + ".res.json"
        procs.append((subprocess.Popen([HARNESS, "switch-tv", part, outp], stdout=subprocess.PIPE,
                                       stderr=subprocess.STDOUT, text=True), part, outp))
    tot = {}
    for p, part, outp in procs:
        try:
            so, _ = p.communicate(timeout=1500)
        except subprocess.TimeoutExpired:
            p.kill()
            raise ToolError("switch-tv timed out")
        if p.returncode != 0:
            raise ToolError("switch-tv failed (rc=%s): %s" % (p.returncode, (so or "")[-2000:]))
        r = json.load(open(outp))
        for k, v in r.items():
            if isinstance(v, list):
                tot.setdefault(k, []).extend(v)
            else:
                tot[k] = tot.get(k, 0) + v
        os.remove(part)
        os.remove(outp)
    return tot


def bits_den(bits, code):
    return [[code] if b == "1" else [] for b in bits]


# ------------------------------------------------------------------ end-to-end samples (stepper + P_C10)
def K(name):
    return {"k": "key", "kc": cfgdesc.code(name)}


def OP(op, *args):
    return {"k": op, "args": list(args)}


def e2e_family():
    c = cfgdesc.code
    TL = lambda n, cmp_, t: {"k": "timing", "n": n - 1, "cmp": cmp_, "t": t}
    KH = lambda k, n: {"k": "keyhist", "kc": c(k), "n": n - 1}
    IN = lambda k: {"k": "input", "x": 0, "y": c(k)}
    IH = lambda k, n: {"k": "inputhist", "x": 0, "y": c(k), "n": n - 1}
    LY = lambda l: {"k": "layer", "l": l}
    fam = []

    def sw(name, cases, keys="a b (layer-while-held l1)", top="", lk=True):
        """cases: [(text cond, [expr records], brk)]; actions are the keys 1..n; keys: the actions of a b c"""
        text = "(switch " + " ".join("(%s) %s %s" % (t, AC_NAMES[i], "break" if b else "fallthrough")
                                     for i, (t, _, b) in enumerate(cases)) + ")"
        kbd = "(defsrc a b c d)\n%s(deflayer l0 %s %s)\n(deflayer l1 _ _ _ _)\n" % (top, keys, text)
        params = {"kind": "switch", "sk": c("d"), "win": 14, "ageoff": 0,
                  "cases": [{"cond": e, "ac": c(AC_NAMES[i]), "brk": b} for i, (_, e, b) in enumerate(cases)],
                  "trig": [], "left": 0, "right": 0, "acs": [c(AC_NAMES[i]) for i in range(len(cases))],
                  "lk": c("c") if lk else 0, "ll": 1}
        fam.append((name, kbd, params, [c("a"), c("b"), c("c")]))

    sw("keys", [("a", [K("a")], False),
                ("(and a b)", [OP("and", K("a"), K("b"))], False),
                ("(not a b)", [OP("not", K("a"), K("b"))], True),
                ("(or b (and a (not b)))", [OP("or", K("b"), OP("and", K("a"), OP("not", K("b"))))], True),
                ("", [], True)])
    sw("history", [("(key-history a 1)", [KH("a", 1)], False),
                   ("(key-history b 2)", [KH("b", 2)], False),
                   ("(key-timing 1 lt 20)", [TL(1, "lt", 20)], False),
                   ("(key-timing 2 gt 50)", [TL(2, "gt", 50)], True),
                   ("", [], True)])
    sw("inputs", [("(input real a)", [IN("a")], False),
                  ("(layer l1)", [LY(1)], False),
                  ("(input-history real d 1)", [IH("d", 1)], False),
                  ("(input-history real b 2)", [IH("b", 2)], False),
                  ("(and (input real b) (not (layer l1)))", [OP("and", IN("b"), OP("not", LY(1)))], True)])
    sw("queue8", [("", [], i == 7) for i in range(8)])
    # the known finding, end to end: (and (not (or a b)) (input real c)) must fire with only c held
    sw("notnested", [("(and (not (or a b)) (layer l1))", [OP("and", OP("not", OP("or", K("a"), K("b"))), LY(1))], True),
                     ("", [], True)])

    # `input real K` is about the physical key K being held, whatever K is bound to: keys whose action leaves
    # only a custom state (mouse button, unicode, on-press / on-release virtual-key action, mouse wheel,
    # arbitrary-code), a repeating macro, a chord participant, a layer key
    in_cases = [("(input real a)", [IN("a")], False), ("(input real b)", [IN("b")], False), ("(input real c)", [IN("c")], False),
                ("(not (input real a))", [OP("not", IN("a"))], False),
                ("(and (input real b) (not (input real c)))", [OP("and", IN("b"), OP("not", IN("c")))], False),
                ("", [], True)]
    sw("in_custom1", in_cases, keys="mlft (unicode r) (on-press-fakekey v tap)", top="(defvirtualkeys v XX)\n", lk=False)
    sw("in_custom2", in_cases, keys="(mwheel-up 50 120) (arbitrary-code 700) (on-release-fakekey v tap)",
       top="(defvirtualkeys v XX)\n", lk=False)
    sw("in_states", in_cases + [], keys="(macro-repeat x 5) (chord g p) (layer-while-held l1)",
       top="(defchords g 10 (p) y)\n")
    # regression for the repaired finding hist-age-queued-action (b96326a): the first press fires 2 and 3 from the
    # action queue; before the repair the history did not age on those ticks, so 2's press (then the 2nd most
    # recent key press) looked one tick younger than it was ever after
    sw("qlag", [("(key-timing 2 gt 50)", [TL(2, "gt", 50)], True), ("", [], False), ("", [], True)])

    def fork(name, kbd_keys, trig_names, extra_keys, top=""):
        kbd = "(defsrc a b c d)\n%s(deflayer l0 %s (fork 1 2 (%s)))\n" % (top, kbd_keys, " ".join(trig_names))
        params = {"kind": "fork", "sk": c("d"), "win": 6, "ageoff": 0, "cases": [],
                  "trig": [c(t) for t in trig_names], "left": c("1"), "right": c("2"), "acs": [c("1"), c("2")],
                  "lk": 0, "ll": 0}
        fam.append((name, kbd, params, [c("a"), c("b"), c("c")]))
    # a fork / switch performed indirectly -- as the action of a virtual key tapped by the physical key, as the action
    # of a (single-key, hence immediate) v1 chord -- decides in the state of that moment like one bound directly
    def indirect(name, kind, top, dkey):
        kbd = "(defsrc a b c d)\n%s(deflayer l0 a b c %s)\n" % (top, dkey)
        params = {"kind": kind, "sk": c("d"), "win": 10, "ageoff": 0,
                  "cases": [{"cond": [K("a")], "ac": c("1"), "brk": True}, {"cond": [OP("not", K("b"))], "ac": c("2"), "brk": False},
                            {"cond": [], "ac": c("3"), "brk": True}] if kind == "switch" else [],
                  "trig": [c("a")] if kind == "fork" else [], "left": c("1"), "right": c("2"),
                  "acs": [c("1"), c("2"), c("3")], "lk": 0, "ll": 0}
        fam.append((name, kbd, params, [c("a"), c("b"), c("c")]))
    FK, SWI = "(fork 1 2 (a))", "(switch (a) 1 break ((not b)) 2 fallthrough () 3 break)"
    indirect("fork_via_vkey", "fork", "(defvirtualkeys v %s)\n" % FK, "(on-press-fakekey v tap)")
    indirect("fork_via_chord", "fork", "(defchords g 10 (p) %s)\n" % FK, "(chord g p)")
    indirect("switch_via_vkey", "switch", "(defvirtualkeys v %s)\n" % SWI, "(on-press-fakekey v tap)")
    indirect("switch_via_chord", "switch", "(defchords g 10 (p) %s)\n" % SWI, "(chord g p)")
    fork("fork_mods", "a lsft c", ["a", "lsft"], [])       # b outputs lsft: a trigger
    fork("fork_remap", "z b a", ["a"], [])                  # physical a outputs z (no trigger), physical c outputs a
    fork("fork_chord", "S-x b c", ["lsft", "c"], [])        # a outputs lsft+x
    # "currently active" includes keys held by a running macro and by a virtual key, not only physical keys
    fork("fork_macro", "(macro S-(x 30 y)) b c", ["lsft"], [])
    fork("fork_macro2", "(macro C-(x 45)) (macro y 3 z) c", ["lctl", "z"], [])
    fork("fork_vkey", "(on-press press-vkey v) (on-press release-vkey v) c", ["lsft"], [], top="(defvirtualkeys v lsft)\n")
    return fam


# ---- key-timing end to end with long silent gaps (ages saturate at 65535 ticks, documented) ----------
# (name, [(slot, cmp, threshold, break?)...]): one switch per family, actions 1..n; the thresholds sit on the
# breakpoints of the documented resolution (255/256, 2303/2304), at the top of the range and at 2^15
TIMING_FAMS = [
    ("tlongA", [(1, "lt", 255, False), (1, "lt", 256, False), (1, "lt", 263, False), (1, "gt", 2303, False),
                (1, "gt", 2304, False), (1, "gt", 2431, False), (1, "lt", 65535, False), (1, "gt", 65535, True)]),
    ("tlongB", [(1, "lt", 500, False), (1, "gt", 60000, False), (2, "lt", 500, False), (2, "gt", 60000, False),
                (3, "gt", 32767, False), (3, "lt", 40000, False), (8, "lt", 2304, False), (8, "gt", 1000, True)]),
    # the largest threshold of the configuration sits in an `lt` test (the processing loop may go to sleep only
    # when no key-timing test can change any more; these families are decisive under the blocking stepper)
    ("tblockA", [(1, "lt", 300, False), (1, "gt", 100, False), (2, "lt", 1000, False), (2, "gt", 40, True)]),
    ("tblockB", [(1, "lt", 255, False), (1, "lt", 2000, False), (3, "lt", 5000, True)]),
]


def skips_as_time(path):
    """Blocking stepper (harness opts.mode = "block": no tick after a may-block decision until the next input, as the
    processing loop does): the ticks of the script that were not executed are recorded as {"e":"skip","n":k}.  The
    statement speaks about the current state in real time, not in ticks executed, so for P_C10 they are silent time."""
    lines = open(path).read().split("\n")
    n = 0
    for i, l in enumerate(lines):
        if l.startswith('{"e":"skip"') or '"e":"skip"' in l[:40]:
            k = json.loads(l)["n"]
            lines[i] = json.dumps({"e": "t", "n": k, "out": [], "idle": True, "cb": True})
            n += k
    open(path, "w").write("\n".join(lines))
    return n


def timing_family():
    c = cfgdesc.code
    fam = []
    for name, cases in TIMING_FAMS:
        text = "(switch " + " ".join("((key-timing %d %s %d)) %s %s" % (n, w, t, AC_NAMES[i], "break" if b else "fallthrough")
                                     for i, (n, w, t, b) in enumerate(cases)) + ")"
        kbd = "(defsrc a b c d)\n(deflayer l0 a b (layer-while-held l1) %s)\n(deflayer l1 _ _ _ _)\n" % text
        params = {"kind": "switch", "sk": c("d"), "win": 14, "ageoff": 0,
                  "cases": [{"cond": [{"k": "timing", "n": n - 1, "cmp": w, "t": t}], "ac": c(AC_NAMES[i]), "brk": b}
                            for i, (n, w, t, b) in enumerate(cases)],
                  "trig": [], "left": 0, "right": 0, "acs": [c(AC_NAMES[i]) for i in range(len(cases))],
                  "lk": c("c"), "ll": 1}
        fam.append((name, kbd, params, cases))
    return fam


def timing_scripts(cases, ages_of, ages_global, sk, win, per_script=10):
    """One round per (history slot n, age A) with A from the TLC-enumerated ages of the thresholds that the
    family tests on slot n (+ the global ones): key a is typed, then nothing for a long time (the harness
    run-length-compresses the silent ticks), then n-1 quick taps of b push a's press to slot n, then the
    switch key.  Age of slot n when the switch is evaluated = gap + 2(n-1) + 1.  In every second round a
    stays held through the gap (kanata is not idle: a real keyboard keeps it ticking)."""
    a, b = cfgdesc.code("a"), cfgdesc.code("b")
    rounds, seen = [], set()
    for n in sorted(set(x[0] for x in cases)):
        ages = list(ages_global)
        for (n1, _, t, _) in cases:
            if n1 == n:
                ages += ages_of[t]
        for A in ages:
            gap = A - 2 * (n - 1) - 1
            if gap < 1 or (n, A) in seen:
                continue
            seen.add((n, A))
            hold = len(rounds) % 2 == 1
            r = [["d", a], ["t", 1]] + ([] if hold else [["u", a]]) + [["t", gap]]
            for _ in range(n - 1):
                r += [["d", b], ["t", 1], ["u", b], ["t", 1]]
            r += [["d", sk], ["t", win + 3], ["u", sk], ["t", 3]] + ([["u", a], ["t", 3]] if hold else [])
            rounds.append(r)
    return [sum(rounds[i:i + per_script], []) for i in range(0, len(rounds), per_script)], len(rounds)


# ---- composite action terms around fork / switch (post-parse passes of the parser) -----------------
# spec/ActionTerms.tla + MC_ActionTerms.tla; layout: a b c = the keys tested by the fork triggers / switch
# conditions at nesting level 0 1 2, d carries the term, e the second key of the first chord group
TERM_KEYS = ["1", "2", "3", "4", "5", "6", "7", "8"]          # key leaf i
TERM_OUTS = ["m", "n", "o", "p", "q", "r", "s", "t"]          # output of the chord of placeholder leaf i
TERM_WIN = 60
TERM_CFG = """CONSTANT Depth = %(depth)d
CONSTANT TMode = "%(tmode)s"
CONSTANT KeyCodes <- KeyCodesDef
CONSTANT OutCodes <- OutCodesDef
CONSTANT TrigKeys <- TrigKeysDef
CONSTANT Lay <- LayDef
INIT Init
NEXT Next
INVARIANT Probe
CHECK_DEADLOCK FALSE
"""


def term_lay():
    c = cfgdesc.code
    return {"sk": c("d"), "ck": c("e"), "q1": c("9"), "q2": c("0")}


def terms_job(wd, name, depth, tmode, workers, timeout, heap="2g"):
    c = cfgdesc.code
    mod = "MC_C10_" + name
    with open(os.path.join(wd, mod + ".tla"), "w") as f:
        f.write("---- MODULE %s ----\nEXTENDS MC_ActionTerms\nKeyCodesDef == %s\nOutCodesDef == %s\nTrigKeysDef == %s\n"
                "LayDef == %s\n====\n" % (mod, tla_val([c(k) for k in TERM_KEYS]), tla_val([c(k) for k in TERM_OUTS]),
                                         tla_val([c("a"), c("b"), c("c")]), tla_val(term_lay())))
    with open(os.path.join(wd, mod + ".cfg"), "w") as f:
        f.write(TERM_CFG % dict(depth=depth, tmode=tmode))
    r = run_tlc(wd, mod, workers=workers, timeout=timeout, heap=heap)
    if r["rc"] == 124:
        raise ToolError("TLC timed out on %s" % mod)
    if r["rc"] != 0 or r["error"] or not r["finished"]:
        raise ToolError("TLC failed on %s: %s (see %s)" % (mod, r["error"], r["out"]))
    cases = os.path.join(wd, mod + ".terms.ndjson")
    n = extract_prints(r["out"], "ATERM", cases)
    return {"name": name, "mode": "terms", "states": r["distinct"], "generated": r["generated"], "lines": n,
            "cases": cases, "envs": None, "wall_s": round(r["wall_s"], 1), "variant": "%s/%d" % (tmode, depth)}


_NAME_OF = {}


def key_name(code_):
    if not _NAME_OF:
        for n in TERM_KEYS + TERM_OUTS + ["a", "b", "c", "d", "e", "9", "0"]:
            _NAME_OF[cfgdesc.code(n)] = n
    return _NAME_OF[code_]


def term_text(t):
    f = t["f"]
    if f == "key":
        return key_name(t["kc"])
    if f == "chord":
        return "(chord g%d p)" % t["g"]
    if f == "multi":
        return "(multi %s %s)" % (term_text(t["a"]), term_text(t["b"]))
    if f == "taphold":
        return "(tap-hold-press 10 10 %s %s)" % (term_text(t["a"]), term_text(t["b"]))
    if f == "tapdance":
        return "(tap-dance 10 (%s %s))" % (term_text(t["a"]), term_text(t["b"]))
    if f == "fork":
        return "(fork %s %s (%s))" % (term_text(t["a"]), term_text(t["b"]), " ".join(key_name(k) for k in t["trig"]))
    if f == "switch":
        return "(switch %s)" % " ".join("(%s) %s %s" % (" ".join(key_name(e["kc"]) for e in cs["cond"]), term_text(cs["a"]),
                                                       "break" if cs["brk"] else "fallthrough") for cs in t["cases"])
    raise ToolError("unknown term form %r" % f)


def term_chords(t):
    f = t["f"]
    if f == "key":
        return []
    if f == "chord":
        return [t]
    if f == "switch":
        return sum((term_chords(cs["a"]) for cs in t["cases"]), [])
    return term_chords(t["a"]) + term_chords(t["b"])


def term_cfg(t):
    """The configuration text of a term of ActionTerms.tla (the text-level description; the agreement with the
    TLA+ record is itself checked: the parser's tree must equal Final(term))."""
    groups, ekey = [], "e"
    for ch in term_chords(t):
        if ch["two"]:
            groups.append("(defchords g%d %d (p) %s (q) 9 (p q) 0)" % (ch["g"], 10 + ch["g"], key_name(ch["out"])))
            ekey = "(chord g%d q)" % ch["g"]
        else:
            groups.append("(defchords g%d %d (p) %s)" % (ch["g"], 10 + ch["g"], key_name(ch["out"])))
    return "(defsrc a b c d e)\n(deflayer l0 a b c %s %s)\n%s" % (term_text(t), ekey, "".join(g + "\n" for g in groups))


def term_script(rng, win):
    """the term's key pressed and held through the window in the four trigger environments"""
    a, b, sk = cfgdesc.code("a"), cfgdesc.code("b"), cfgdesc.code("d")
    envs = [[], [a], [b], [a, b]]
    rng.shuffle(envs)
    s = []
    for ks in envs:
        for k in ks:
            s += [["d", k], ["t", 3]]
        s += [["d", sk], ["t", win + 3], ["u", sk], ["t", 5]]
        for k in ks:
            s += [["u", k], ["t", 3]]
    return s


def e2e_script(rng, others, sk, win, n_rounds):
    gaps = [3, 4, 10, 17, 18, 19, 20, 21, 22, 30, 47, 48, 49, 50, 51, 52, 60]
    s, down = [], set()
    for _ in range(n_rounds):
        for _ in range(rng.randint(0, 3)):
            k = rng.choice(others)
            if k in down:
                s.append(["u", k])
                down.discard(k)
            else:
                s.append(["d", k])
                down.add(k)
            s.append(["t", rng.choice(gaps)])
        s.append(["d", sk])
        s.append(["t", win + 3])
        s.append(["u", sk])
        s.append(["t", rng.choice(gaps)])
    for k in sorted(down):
        s.append(["u", k])
        s.append(["t", 3])
    return s


def strip_ops(tree):
    if isinstance(tree, dict):
        return {k: strip_ops(v) for k, v in tree.items() if k != "ops"}
    if isinstance(tree, list):
        return [strip_ops(v) for v in tree]
    return tree


def tree_diff(exp, act, path=""):
    """first differing position of two action trees: (path, written, parser's)"""
    if isinstance(exp, dict) and isinstance(act, dict) and exp.get("t") == act.get("t"):
        for k in sorted(set(exp) | set(act)):
            if exp.get(k) != act.get(k):
                return tree_diff(exp.get(k), act.get(k), path + "/" + k)
    if isinstance(exp, list) and isinstance(act, list) and len(exp) == len(act):
        for i, (a, b) in enumerate(zip(exp, act)):
            if a != b:
                return tree_diff(a, b, "%s[%d]" % (path, i))
    return {"at": path or "/", "written": exp, "parser": act}


def replay(r, path, wd):
    """./check replay for kind switch-tv: the recorded configuration text goes through the real parser and
    the real Switch::actions again, in the recorded environments; exit 1 if the firing actions still
    differ from the documented ones recorded in the file (computed by TLC from Switch.tla Denote)."""
    if r.get("sub") == "trace-block":
        job = {"cfg": r["cfg"], "params": r["params"], "tag": "replay", "scripts": [r["script"]], "opts": r["opts"]}
        trace = concat_traces(run_jobs([job], wd, "replay"), os.path.join(wd, "replay.trace.ndjson"))
        skips_as_time(trace)
        for i, line in enumerate(open(trace)):
            print("%4d %s" % (i + 1, line.rstrip()[:300]))
        n, errs = validate_trace(r["monitor"], trace, wd)
        for e in errs:
            print("REJECTED at line %s: %s" % (e["line"], e["err"]))
        if errs:
            print("VIOLATION property=%s replay=%s" % (r["property"], path))
            return 1
        print("accepted by %s (blocking stepper; skipped ticks count as time)" % r["monitor"])
        return 0
    job = r["job"]
    print(job["cfg"])
    tv = run_switch_tv([job], wd, "replay", shards=1)
    for chk in job["checks"]:
        envs = chk["envs"] if not isinstance(chk["envs"], str) else job["envtab"][chk["envs"]]
        for i, e in enumerate(envs):
            print("env %d: %s  documented firing actions: %s" % (i, json.dumps(e), chk["den"][i]))
    for m in tv["val_mismatch"]:
        print("DISAGREES check %s env %d: documented %s, real code %s" % (m["id"], m["env"], m["expected"], m["real"]))
    tree_bad = [m for m in tv.get("tree_mismatch", []) if strip_ops(m["expected"]) != strip_ops(m["actual"])]
    for m in tree_bad:
        print("the parser's final action tree is not the one written: %s" % json.dumps(tree_diff(m["expected"], m["actual"])))
    for m in tv["panics"]:
        print("PANIC %s" % json.dumps(m))
    for m in tv["ops_mismatch"]:
        print("opcode drift (not a violation by itself): %s" % json.dumps(m)[:600])
    if tv["n_parse_errors"]:
        print("the configuration is rejected by the parser now: %s" % json.dumps(tv["parse_errors"])[:800])
    if tv["val_mismatch"] or tv["panics"] or tree_bad:
        print("VIOLATION property=%s replay=%s" % (r["property"], path))
        return 1
    print("real code agrees with the documented meaning in %d evaluations, %d action trees" % (tv["evals"], tv.get("trees", 0)))
    return 0


# ------------------------------------------------------------------ the check
def run(tier, seed):
    t0 = time.time()
    rng = random.Random(seed)
    wd = workdir("c10")
    build_harness()
    quick = tier == "quick"
    code_x = cfgdesc.code("x")
    sw_key = cfgdesc.code("d")
    known_listed = any(f.get("property") == PID and f.get("signature") == SIG for f in known_findings().get("findings", []))

    # ---- 1. TLC: enumerate programs, evaluate Compile / Run / Denote --------------------------------
    given = gen_given(rng, tier)
    genvs = [rand_env(rng) for _ in range(6 if quick else 10)]
    tfam = timing_family()
    thr_list = sorted(set(t for _, _, _, cases in tfam for (_, _, t, _) in cases))
    ages_job = lambda: tlc_job(wd, "ages", "ages", 1, 600, given=thr_list, heap="1g")
    if quick:
        plan = [lambda: tlc_job(wd, "exprA", "expr", 6, 600, maxnodes=5, triples=(1, 2, 3, 4, 5, 6), heap="6g"),
                lambda: tlc_job(wd, "cases", "cases", 2, 600, maxcases=8, maxfull=6, pooln=2),
                lambda: tlc_job(wd, "thr", "thr", 4, 600, thr=(0, 65535)),
                lambda: tlc_job(wd, "given", "given", 2, 600, given=[g[0] for g in given], envs=genvs), ages_job,
                lambda: terms_job(wd, "terms1", 1, "full", 1, 600)]
        plan2 = []
    else:
        plan = [lambda: tlc_job(wd, "exprA", "expr", 8, 3000, maxnodes=6, triples=(1, 2, 3, 4, 5, 6), heap="8g"),
                lambda: tlc_job(wd, "cases", "cases", 2, 1200, maxcases=8, maxfull=8, pooln=2),
                lambda: tlc_job(wd, "cases4", "cases", 2, 1200, maxcases=5, maxfull=5, pooln=4),
                lambda: tlc_job(wd, "thr", "thr", 2, 1200, thr=(0, 65535)),
                lambda: tlc_job(wd, "given", "given", 2, 3000, given=[g[0] for g in given], envs=genvs, heap="6g"), ages_job,
                lambda: terms_job(wd, "terms1", 1, "full", 1, 600),
                lambda: terms_job(wd, "terms2", 2, "side", 2, 1800, heap="4g")]
        plan2 = [lambda: tlc_job(wd, "exprB", "expr", 8, 6000, maxnodes=7, triples=(3, 1), heap="8g"),
                 lambda: tlc_job(wd, "exprFixed", "expr", 2, 3000, variant="fixed", maxnodes=6, triples=(3,))]
    tl = run_parallel(plan)
    tl += run_parallel(plan2)
    log("[c10] TLC: " + ", ".join("%s %d lines %.0fs" % (t["name"], t["lines"], t["wall_s"]) for t in tl))

    # ---- 2. build the harness jobs ------------------------------------------------------------------
    items = {}      # id -> meta (kept small)
    jobs = []
    envtabs = {}
    model_bad = 0   # programs on which the evaluator model and the documented meaning disagree (binding D)
    fixed_run = None

    def load_envs(t):
        for line in open(t["envs"]):
            e = json.loads(line)
            envtabs[e["t"]] = e["envs"]

    prog_samples = []

    def flush(batch, tab):
        if not batch:
            return
        for b in batch:
            if len(prog_samples) < 3 and len(b["ops"]) >= 7 and "1" in b["den"] and "0" in b["den"] and len(jobs) % 400 == 7:
                prog_samples.append({"condition": b["text"], "opcodes_Compile": b["ops"], "environments": tab[b["envs"]][:2] + ["..."],
                                     "documented_truth_in_the_8_environments": b["den"]})
                break
        text = "(switch " + " ".join("(%s) x break" % b["text"] for b in batch) + ")"
        checks = []
        for i, b in enumerate(batch):
            chk = {"id": b["id"], "lo": i, "hi": i + 1, "ops": [b["ops"]], "envs": b["envs"], "den": bits_den(b["den"], code_x)}
            checks.append(chk)
        jobs.append({"id": len(jobs), "cfg": cfg_text(text), "key": sw_key, "checks": checks, "envtab": tab})

    seen = set()
    for t in tl:
        if t["mode"] == "expr":
            load_envs(t)
            if t["variant"] != "code":
                fixed_run = {"programs": t["lines"], "disagree": sum(1 for l in open(t["cases"]) if '"ok":false' in l)}
                continue
            batch = []
            tab = {"t%d" % k: v for k, v in envtabs.items() if k != 0}
            for line in open(t["cases"]):
                c = json.loads(line)
                iid = "e:%d:%s" % (c["t"], c["s"])
                if iid in seen:
                    continue
                seen.add(iid)
                nodes = parse_shape(c["s"])
                text = render_nodes(nodes, TRIPLE_TEXT[c["t"]])
                if not c["ok"]:
                    model_bad += 1
                    items[iid] = {"run": c["run"], "fix": c["fix"], "den": c["den"], "cls": in_known_class(nodes), "text": text,
                                  "envs": "t%d" % c["t"]}
                batch.append({"id": iid, "text": text, "ops": c["ops"], "envs": "t%d" % c["t"], "den": c["den"]})
                if len(batch) == 64:
                    flush(batch, tab)
                    batch = []
            flush(batch, tab)
    n_expr = len(seen)
    # case lists
    n_lists = 0
    for t in tl:
        if t["mode"] != "cases":
            continue
        load_envs(t)
        cenv = envtabs[0]
        group, off, texts = [], 0, []

        def flush_lists():
            nonlocal group, off, texts
            if group:
                jobs.append({"id": len(jobs), "cfg": cfg_text("(switch " + " ".join(texts) + ")"), "key": sw_key,
                             "checks": group, "envtab": {"c": cenv}})
            group, off, texts = [], 0, []
        for line in open(t["cases"]):
            c = json.loads(line)
            cs = c["cs"]
            iid = "c:" + "".join("%d%s" % (x["c"], "b" if x["b"] else "f") for x in cs)
            if iid in seen or not cs:
                continue
            seen.add(iid)
            n_lists += 1
            if not c["ok"]:
                model_bad += 1
            for i, x in enumerate(cs):
                texts.append("%s %s %s" % (POOL_TEXT[x["c"]], AC_NAMES[i], "break" if x["b"] else "fallthrough"))
            group.append({"id": iid, "lo": off, "hi": off + len(cs), "ops": None, "envs": "c",
                          "den": [[cfgdesc.code(AC_NAMES[a - 1]) for a in d] for d in c["den"]]})
            off += len(cs)
            if off >= 150:
                flush_lists()
        flush_lists()
    # thresholds
    n_thr = 0
    for t in tl:
        if t["mode"] != "thr":
            continue
        group, texts = [], []
        for line in open(t["cases"]):
            c = json.loads(line)
            n_thr += 1
            if not c["ok"]:
                model_bad += 1
            envs = [{"hkc": [30, c["n"], a, o]} for a, o in zip(c["ages"], c["oth"])]
            for j, (cmpw, bits) in enumerate((("lt", c["lt"]), ("gt", c["gt"]))):
                texts.append("((key-timing %d %s %d)) x break" % (c["n"] + 1, cmpw, c["t"]))
                group.append({"id": "t:%s:%d" % (cmpw, c["t"]), "lo": len(group), "hi": len(group) + 1,
                              "ops": [[c["ops"][j]]], "envs": envs, "den": bits_den(bits, code_x)})
            if len(group) >= 128:
                jobs.append({"id": len(jobs), "cfg": cfg_text("(switch " + " ".join(texts) + ")"), "key": sw_key, "checks": group})
                group, texts = [], []
        if group:
            jobs.append({"id": len(jobs), "cfg": cfg_text("(switch " + " ".join(texts) + ")"), "key": sw_key, "checks": group})
    # random deep / large conditions
    n_given, given_stats = 0, {"max_nodes": 0, "max_depth": 0, "max_ops": 0, "depth8": 0}
    for t in tl:
        if t["mode"] != "given":
            continue
        for line in open(t["cases"]):
            c = json.loads(line)
            cond, text, meta = given[c["i"] - 1]
            iid = "g:%d" % c["i"]
            n_given += 1
            given_stats["max_nodes"] = max(given_stats["max_nodes"], meta["nodes"])
            given_stats["max_depth"] = max(given_stats["max_depth"], meta["depth"])
            given_stats["max_ops"] = max(given_stats["max_ops"], len(c["ops"]))
            given_stats["depth8"] += 1 if meta["depth"] == 8 else 0
            if not c["ok"]:
                model_bad += 1
            items[iid] = {"run": c["run"], "fix": c["fix"], "den": c["den"], "cls": in_known_class(rec_nodes(cond)),
                          "text": text if len(text) < 2000 else text[:2000] + " ...", "envs": genvs,
                          "random": True}
            jobs.append({"id": len(jobs), "cfg": cfg_text("(switch (%s) x break)" % text), "key": sw_key,
                         "checks": [{"id": iid, "lo": 0, "hi": 1, "ops": [c["ops"]], "envs": genvs, "den": bits_den(c["den"], code_x)}]})
        if n_given != len(given):
            raise ToolError("TLC evaluated %d of %d random conditions" % (n_given, len(given)))
    # composite action terms around fork / switch: the parser's final tree against Final(term); terms the
    # language does not admit must be refused
    terms, n_terms, n_term_reject = {}, 0, 0
    for t in tl:
        if t["mode"] != "terms":
            continue
        for line in open(t["cases"]):
            x = json.loads(line)
            iid = "a:" + x["s"]
            if iid in terms:
                continue
            n_terms += 1
            cfg = term_cfg(x["term"])
            terms[iid] = {"cfg": cfg, "term": x["term"], "e2e": x["e2e"], "acs": sorted(x["acs"]), "chord": x["chord"],
                          "depth2": t["name"] != "terms1"}
            if x["acc"]:
                jobs.append({"id": iid, "cfg": cfg, "key": sw_key, "checks": [], "tree": x["final"]})
            else:
                n_term_reject += 1
                jobs.append({"id": iid, "cfg": cfg, "key": sw_key, "checks": [], "expect_reject": True})
    # beyond the documented limits the parser must refuse (not crash, not mis-evaluate)
    deep9 = "(or " * 8 + "a" + ")" * 8
    long_ = "(or %s)" % " ".join(["x"] * 4095)
    for name, text in (("depth9", deep9), ("len4096", long_)):
        jobs.append({"id": "reject:" + name, "cfg": cfg_text("(switch (%s) x break)" % text), "key": sw_key,
                     "checks": [], "expect_reject": True})

    # ---- 3. the real parser and the real Switch::actions ---------------------------------------------
    t1 = time.time()
    tv = run_switch_tv(jobs, wd, "c10")
    log("[c10] switch-tv: %d jobs, %d checks, %d evaluations in %.1fs; ops mismatches %d, value mismatches %d" % (
        tv["jobs"], tv["checks"], tv["evals"], time.time() - t1, tv["n_ops_mismatch"], tv["n_val_mismatch"]))
    if tv["n_parse_errors"]:
        raise ToolError("the real parser and the generator disagree on the syntax (%d jobs): %s" % (
            tv["n_parse_errors"], json.dumps(tv["parse_errors"][:2])[:1500]))
    job_of = {}
    for j in jobs:
        for chk in j["checks"]:
            job_of[chk["id"]] = j
    violations, known, explained = [], [], 0
    mism_ids = {}
    for m in tv["val_mismatch"]:
        mism_ids.setdefault(m["id"], []).append(m)
    for iid, ms in sorted(mism_ids.items(), key=lambda kv: (len(kv[0]), kv[0])):
        it = items.get(iid)
        is_known = False
        if it is not None and it.get("fix"):
            # explained by the known defect: the code behaves as its (faithful) model, and the model with
            # the one-line repair gives the documented value, in every disagreeing environment
            is_known = it["cls"] and all(len(m["real"]) <= 1 and
                                   ("1" if m["real"] else "0") == it["run"][m["env"]] and
                                   it["fix"][m["env"]] == it["den"][m["env"]] for m in ms)
        if is_known:
            explained += 1
            if len(known) < 5 and len(it["text"]) < 200:
                known.append({"cond": it["text"], "env": ms[0]["env"], "documented": ms[0]["expected"], "real": ms[0]["real"]})
            continue
        j = job_of[iid]
        chk = [c for c in j["checks"] if c["id"] == iid][0]
        one = dict(chk)
        if isinstance(one["envs"], str):
            one["envs"] = j["envtab"][one["envs"]]
        violations.append({"id": iid, "mismatch": ms[:4], "job": {"id": 0, "cfg": j["cfg"], "key": j["key"], "checks": [one]}})
    for p in tv["panics"]:
        j = job_of.get(p.get("id"))
        violations.append({"id": p.get("id"), "panic": p,
                           "job": {"id": 0, "cfg": j["cfg"], "key": j["key"], "envtab": j.get("envtab", {}),
                                   "checks": [c for c in j["checks"] if c["id"] == p.get("id")]} if j else None})
    # the final action trees: a difference only in a switch's opcodes is opcode drift (judged through the
    # evaluations above); any other difference means the fork / switch handed to the run time is not the one written
    tree_ops_drift, n_tree_viol = 0, 0
    for m in sorted(tv["tree_mismatch"], key=lambda m: (len(m["id"]), m["id"])):
        if strip_ops(m["expected"]) == strip_ops(m["actual"]):
            tree_ops_drift += 1
            continue
        n_tree_viol += 1
        if n_tree_viol > 8:       # (replay files for the simplest ones; all are counted in the evidence)
            continue
        tm = terms[m["id"]]
        violations.append({"id": m["id"], "tree_mismatch": {"written": term_text(tm["term"]), "diff": tree_diff(m["expected"], m["actual"])},
                           "job": {"id": m["id"], "cfg": tm["cfg"], "key": sw_key, "checks": [], "tree": m["expected"]}})
    # binding D bookkeeping: programs where the evaluator model leaves the documented meaning must be
    # exactly the ones where the real code does (otherwise the model drifted from the code)
    model_only = [i for i, it in items.items() if it.get("fix") and i not in mism_ids]
    drift_ops = tv["n_ops_mismatch"] + tree_ops_drift

    # ---- 4. end to end through the stepper: switch and fork, judged by P_C10 -------------------------
    fam = e2e_family()
    e2e_jobs = []
    for name, kbd, params, others in fam:
        n = (6 if quick else 40)
        scripts = [e2e_script(rng, others, params["sk"], params["win"], 4 if quick else 8) for _ in range(n)]
        if name.startswith("in_"):     # + every subset of a b c held when the switch key is pressed
            for sub in range(8):
                ks = [k for i, k in enumerate(others) if sub >> i & 1]
                scripts.append(sum(([["d", k], ["t", 20]] for k in ks), []) +
                               [["d", sw_key], ["t", params["win"] + 3], ["u", sw_key], ["t", 5]] +
                               sum(([["u", k], ["t", 5]] for k in ks), []))
        if name == "qlag":     # age of 2's press at the second evaluation = G + 16 (as the OS saw it): 49..53
            scripts = [[["d", sw_key], ["t", 17], ["u", sw_key], ["t", G], ["d", sw_key], ["t", 17], ["u", sw_key], ["t", 60]]
                       for G in (33, 34, 35, 36, 37)]
        e2e_jobs.append({"cfg": kbd, "params": params, "tag": name, "scripts": scripts})
    # key-timing with long silent gaps: the ages come from TLC (MC_Switch mode "ages")
    ages_of, ages_global = {}, []
    for t in tl:
        if t["mode"] == "ages":
            for line in open(t["cases"]):
                c = json.loads(line)
                if c["t"] < 0:
                    ages_global = c["ages"]
                else:
                    ages_of[c["t"]] = c["ages"]
    if not ages_global or set(ages_of) != set(thr_list):
        raise ToolError("TLC did not enumerate the ages of all key-timing thresholds")
    n_long_rounds = 0
    for name, kbd, params, cases in tfam:
        scripts, nr = timing_scripts(cases, ages_of, ages_global, params["sk"], params["win"])
        n_long_rounds += nr
        e2e_jobs.append({"cfg": kbd, "params": params, "tag": name, "scripts": scripts})
        # the same rounds through the blocking stepper: the switch outcomes must be the written ones there too
        e2e_jobs.append({"cfg": kbd, "params": params, "tag": name + "@block", "scripts": scripts, "opts": {"mode": "block"}})
    # composite action terms: the term's key held through the window in the four trigger environments
    term_e2e = [(iid, tm) for iid, tm in sorted(terms.items()) if tm["e2e"] and not tm["depth2"]]
    deep = [(iid, tm) for iid, tm in sorted(terms.items()) if tm["e2e"] and tm["depth2"]]
    term_e2e += rng.sample(deep, min(len(deep), 3000))
    for iid, tm in term_e2e:
        params = {"kind": "term", "sk": sw_key, "win": TERM_WIN, "ageoff": 0, "cases": [], "trig": [], "left": 0, "right": 0,
                  "acs": tm["acs"], "lk": 0, "ll": 0, "term": tm["term"]}
        e2e_jobs.append({"cfg": tm["cfg"], "params": params, "tag": "term:" + iid[2:], "scripts": [term_script(rng, TERM_WIN)]})
    # the documented short spellings of the action keywords (fork / switch / tap-hold-press ... ) denote the same actions
    n_term_jobs = len(term_e2e)
    base, termj = e2e_jobs[:len(e2e_jobs) - n_term_jobs], e2e_jobs[len(e2e_jobs) - n_term_jobs:]
    twins = spelling_twins(base, keep=3) + spelling_twins(rng.sample(termj, min(len(termj), 150)))
    e2e_jobs += twins
    e2e_jobs = shard_local_index(e2e_jobs)
    outs = run_jobs(e2e_jobs, wd, "c10_e2e")
    trace = concat_traces(outs, os.path.join(wd, "c10_e2e.trace.ndjson"))
    n_skipped = skips_as_time(trace)
    nlines, errs = validate_trace("P_C10", trace, wd)
    n_press = sum(1 for j in e2e_jobs for s in j["scripts"] for st in s if st[0] == "d" and st[1] == j["params"]["sk"])
    e2e_known = 0
    for e in errs:
        j, s = script_of(e2e_jobs, e["job"], 0)
        if j["tag"].startswith("notnested#") and ("performed <<%d>> but the written conditions give <<%d>>" % (
                cfgdesc.code("2"), cfgdesc.code("1"))) in e["err"]:
            # the known finding end to end: the first case is skipped, the default case fires
            e2e_known += 1
            continue
        tr = {"property": PID, "kind": "trace", "cfg": j["cfg"], "params": j["params"],
              "script": s, "err": e["err"], "monitor": "P_C10"}
        if j.get("opts"):     # blocking stepper: replayed by c10.replay (skipped ticks count as time)
            tr.update(kind="switch-tv", sub="trace-block", opts=j["opts"])
        violations.append({"id": "e2e:" + j["tag"], "err": e["err"], "trace_replay": tr})

    # ---- 5. verdict and evidence ---------------------------------------------------------------------
    n_known = explained + e2e_known
    rc = 0
    if n_known and not known_listed:
        # the defect is real but not (or no longer) recorded: report it as what it is
        violations.insert(0, {"id": "known-class", "note": "disagreements of the class %s" % SIG, "examples": known,
                              "job": None})
    paths = []
    for i, v in enumerate(violations[:20]):
        if v.get("trace_replay"):
            obj = v["trace_replay"]
        elif v.get("job"):
            obj = {"property": PID, "kind": "switch-tv", "job": v["job"], "what": {k: v[k] for k in v if k not in ("job",)}}
        else:
            ex = (v.get("examples") or [{}])[0]
            obj = {"property": PID, "kind": "switch-tv", "what": v,
                   "job": {"id": 0, "cfg": cfg_text("(switch ((and (not (or a b)) c)) x break)"), "key": sw_key,
                           "checks": [{"id": "min", "lo": 0, "hi": 1, "ops": None,
                                       "envs": [{"keys": [cfgdesc.code("c")], "layers": [0], "dl": 0}], "den": [[code_x]]}]}}
        paths.append(write_replay(PID, "%s_%d" % (tier, i), obj))
    if n_known and known_listed:
        print("KNOWN-FINDING: property=%s signature=%s  %d enumerated conditions (+%d end-to-end presses) evaluate "
              "differently from what is written, all explained by one defect: a `not` whose last operand is a nested "
              "and/or/not list and which is followed by a further item yields false when the nested list is false, "
              "e.g. (switch ((and (not (or a b)) c)) x break) does not fire with only c pressed "
              "(keyberon/src/action/switch.rs:399-401 `ret = false` should be `ret = !ret`)" % (PID, SIG, explained, e2e_known))
    for p in paths:
        print("VIOLATION property=%s replay=%s" % (PID, p))
        rc = 1
    programs = n_expr + n_lists + 2 * n_thr + n_given + n_terms
    samples = prog_samples[:3]
    samples += [{"condition": it["text"], "documented_truth_per_env": it["den"], "evaluator_model": it["run"]}
                for it in list(items.values())[:1]]
    samples.append({"case_list_job": next((j["cfg"] for j in jobs if "envtab" in j and "c" in j["envtab"]), "")[:400]})
    samples.append({"e2e_script": e2e_jobs[0]["scripts"][0][:24], "cfg": e2e_jobs[0]["cfg"]})
    if term_e2e:
        iid, tm = term_e2e[len(term_e2e) // 2]
        samples.append({"action_term": term_text(tm["term"]), "cfg": tm["cfg"], "held_through_window_in_envs": "{} {a} {b} {a,b}"})
    cov = {
        "programs": programs,
        "disagreements_checked": len(mism_ids) + drift_ops + len(tv["panics"]) + len(errs) + tv["n_tree_mismatch"],
        "samples": samples,
        "exhaustive": True,
        "condition_shapes": n_expr, "case_lists": n_lists, "thresholds": n_thr, "random_conditions": n_given,
        "random_stats": given_stats,
        "action_terms": n_terms, "action_trees_compared": tv["trees"], "action_terms_refused_as_documented": n_term_reject,
        "action_tree_mismatches": tv["n_tree_mismatch"] - tree_ops_drift, "action_terms_end_to_end": len(term_e2e),
        "evaluations_on_real_code": tv["evals"], "opcode_lists_compared": tv["ops_compared"],
        "opcode_drift": drift_ops, "opcode_drift_samples": tv["ops_mismatch"][:3],
        "value_disagreements": len(mism_ids), "explained_by_known_finding": explained,
        "model_disagrees_with_documentation": model_bad,
        "model_only_disagreements": len(model_only),
        "model_conformance": "ok" if (not model_only and not drift_ops and
                                       all(i in items and items[i].get("fix") for i in mism_ids)) else "drift",
        "rejected_beyond_limits": tv["n_rejected_as_expected"],
        "states": sum(t["states"] or 0 for t in tl), "transitions": sum(t["generated"] or 0 for t in tl),
        "tlc_runs": [{k: t[k] for k in ("name", "mode", "variant", "states", "lines", "wall_s")} for t in tl],
        "proposed_fix_model": fixed_run,
        "e2e": {"configs": len(fam) + len(tfam) + len(term_e2e), "scripts": len(e2e_jobs), "switch_or_fork_presses_judged": n_press,
                "short_spelling_twin_configs": len(twins),
                "key_timing_long_gap_rounds": n_long_rounds, "key_timing_families_also_through_blocking_stepper": len(tfam),
                "ticks_slept_by_blocking_stepper": n_skipped,
                "key_timing_long_gap_ages": {"per_threshold": {str(k): v for k, v in sorted(ages_of.items())}, "global": ages_global},
                "trace_lines": nlines, "rejected": len(errs), "rejected_known": e2e_known},
        "traces_validated_against_impl": len(e2e_jobs),
        "known_findings_seen": [SIG] if n_known else [],
        "known_examples": known,
        "rule": "TLC enumerates every switch condition (top-level list; or/and/not with >=1 operand) up to N nodes over the "
                "3 leaves of each leaf triple x all 8 truth assignments; every case list (truth x break/fallthrough) up to "
                "8 cases x 4 environments; every key-timing threshold 0..65535 (lt and gt) at the ages around the documented "
                "resolution boundary; random conditions up to depth 8 and 4095 opcodes in random environments. Each is "
                "rendered as config text, parsed by the real parser (opcodes compared with Compile) and evaluated by the "
                "real Switch::actions; the firing actions must equal Denote/DenoteCases. Composite action terms "
                "(ActionTerms.tla): every fork / switch (break and fallthrough) whose two branches are a key, a v1 chord "
                "placeholder or one of multi / tap-hold / tap-dance / fork / switch over those (thorough: one branch of depth 2); "
                "the parser's final action tree after the post-parse passes must equal Final(term) (chord groups resolved, "
                "nothing else changed), terms outside the language must be refused, and the term's key held through a "
                "quiet window in the four trigger environments must press HeldOut(term, state) (judged by P_C10). "
                "Key-timing end to end: every threshold of the tlong families at the TLC-enumerated ages (resolution "
                "boundary, +65536, +131072, saturation point) reached by silent gaps of up to 196608 ticks.",
    }
    write_evidence(PID, tier, seed, "translation_validation", cov, time.time() - t0, violations=len(paths),
                   assumptions=["key-timing boundary convention: lt <=> age <= Q(t), gt <=> age > Q(t), Q = documented resolution "
                                "(exact to 255, 8 ms steps to 2303, 128 ms steps above)",
                                "operators with no operand are outside the statement and are not enumerated",
                                "end-to-end samples use quiescent scripts (nothing else happens in the %d ticks after the "
                                "switch key); age offset 1 tick between the monitor's clock and the evaluation" % 14,
                                "environment passed to Switch::actions is arbitrary (not restricted to states reachable "
                                "through the layout)",
                                "ages saturate at 65535 ticks (documented); the ticking stepper ticks every millisecond of a silent "
                                "gap, the blocking stepper (harness mode block) stops after a may-block decision until the next "
                                "input and the monitor counts the slept ticks as time",
                                "action terms: the order between the actions of a switch and later actions of the same press "
                                "(fallthrough / multi) is not fixed by the statement (such terms are compared as trees only)"])
    return rc
