"""C16 - configuration abstractions are transparent (translation validation).

Specification: spec/CfgLang.tla - s-expression trees, Norm (documented semantics of include, platform,
environment, templates, variables, aliases, deflayermap) and the abstraction steps as actions.

  1. TLC explores every step (all sites, all kinds) and compositions of steps from a small family of base
     configurations, checks Norm(Step(c)) = Norm(c) on the specification itself and prints every
     (base, trail, rewritten configuration) it generated.
  2. Binding: every printed pair is given to the REAL parser (harness `cfgeq`): accepted iff accepted, equal
     parsed results (layer tables by structure, key outputs, mapped keys, sequences, overrides, options,
     virtual key names), and equal traces on shared random histories (harness `run`).
  3. Random tier: the same steps (tools/cfgrw.py, a transcription that is cross-checked against TLC's output)
     applied in random compositions to configurations over the whole action grammar (tools/cfggen.py).

A pair whose two sides the real parser treats differently is a violation (replay file = the pair).
"""
import hashlib
from props.common import *
import cfgrw, cfggen

PID = "C16"

# ---------------------------------------------------------------------------------- base family
# Small configurations (2-3 keys, 1-3 layers); the traps of the property are members:
#   quoted_dollar  "$zV1" inside a quoted string while the first variable step introduces zV1
#   tpl_listarg    template arguments that are lists
#   alias_late     alias used (inside another alias) before its definition => every variant is rejected
#   chordsv2_trans a member the parser rejects for a reason outside the indirection layers (known finding)
FAMILY = [
    ("tiny", """
(defsrc a)
(deflayer l0 (multi a lsft))
""", {}),
    ("plain", """
(defcfg process-unmapped-keys no)
(defsrc a b c)
(deflayer l0 x (tap-hold 200 200 y lsft) (layer-while-held l1))
(deflayer l1 (multi lctl z) _ XX)
""", {}),
    ("nested", """
(defsrc a b c)
(deflayer l0 (tap-dance 200 (x (macro y 5 z))) (fork x y (lsft)) (one-shot 500 lsft))
""", {}),
    ("vkeys_seq_ovr", """
(defcfg sequence-timeout 500)
(defsrc a b)
(defvirtualkeys v0 (multi lctl x))
(defseq v0 (a b))
(defoverrides (lsft a) (b))
(deflayer l0 sldr (on-press tap-vkey v0))
""", {}),
    ("quoted_dollar", """
(defsrc a b)
(deflayer "$zV1" (layer-while-held "$zT1") (unicode "$"))
(deflayer "$zT1" $zq (layer-switch "$zV1"))
(defvar zq (multi lsft a))
""", {}),
    ("alias_late", """
(defsrc a b)
(defalias one (multi @two x))
(defalias two y)
(deflayer l0 @one @two)
""", {}),
    ("alias_chain", """
(defsrc a b)
(deflayer l0 @one @two)
(defalias two y one (multi @two x))
""", {}),
    ("tpl_listarg", """
(deftemplate th (k h) (tap-hold 200 200 $k $h))
(defsrc a b)
(deflayer l0 (t! th x (multi lctl lsft)) (template-expand th y lalt))
""", {}),
    ("vars", """
(defvar tt 200 lst (x y) cc (concat l "0"))
(defsrc a b)
(deflayer $cc (tap-hold $tt $tt x lsft) (tap-dance $tt $lst))
""", {}),
    # known finding: `_` is refused inside defchordsv2 only where it is written, not behind an alias
    ("chordsv2_trans", """
(defcfg concurrent-tap-hold yes)
(defsrc a b c)
(deflayer l0 a b c)
(defchordsv2 (a b) (multi lctl _) 200 all-released () (b c) x 200 first-release (l0))
""", {}),
    ("inc_platform", """
(platform (macos win) (defsrc x y z))
(platform (linux) (defsrc a b))
(include base.kbd)
""", {"base.kbd": "(deflayermap (l0) a x _ (multi lsft y))\n"}),
    # deflayer == deflayermap with a wildcard pair in every position (`__`/`___` need process-unmapped-keys yes)
    ("lmap_wild", """
(defcfg process-unmapped-keys yes)
(defsrc a b c)
(deflayer l0 x (layer-while-held l1) x)
(deflayer l1 _ XX _)
""", {}),
    # nested conditionals: lists inside lists, so that a conditional in the body of a conditional can stand at depth >= 2
    ("nest2", """
(defsrc a)
(deflayer l0 (multi x (multi lsft y)))
""", {}),
    # `environment` is an error for kanata_parser::cfg::new_from_str: Norm = REJECT, every variant is rejected
    ("env_unsupported", """
(defsrc a)
(environment (LAPTOP lp1) (defalias met lmet))
(deflayer l0 (multi a lsft))
""", {}),
]
QUICK_DEPTH2 = {"tiny", "quoted_dollar", "alias_late", "alias_chain", "inc_platform"}
THOROUGH_DEPTH3 = {"tiny"}
# members on which Next offers the nested-conditional step (as the first step; 36 variants per site)
NEST_QUICK = {"nest2"}
NEST_THOROUGH = {"nest2", "tiny"}
# members on which the wildcard deflayermap step also composes with a second step (elsewhere it is a first step only)
WILD_DEEP = QUICK_DEPTH2 | {"lmap_wild"}
# binding: pairs per shard, worker processes at a time, parses per worker process (every parsed configuration leaks its
# arena in the harness process, so a worker is given a bounded number of configurations and then exits)
SHARD_PAIRS = 5000
MAX_PROCS = 4
RUNS_PER_PROC = 4000
# thorough: all one-step pairs are bound; compositions beyond the cap are sampled deterministically by VERIF_SEED
PAIR_CAP = 120000
# members that stay at one step in every tier (the nest step alone gives > 1000 successors)
DEPTH1_ONLY = {"nest2"}
# family members the parser rejects for a reason outside the indirection layers (Norm is "ok" for them)
PLAIN_INVALID = {"chordsv2_trans"}


def family_cfgs():
    return [(name, cfgrw.cfg_of_text(text, files)) for name, text, files in FAMILY]


# ---------------------------------------------------------------------------------- TLC instance
MC_TEMPLATE = r"""---- MODULE %(mod)s ----
EXTENDS CfgLang, Json
RECURSIVE SetToSeq(_)
SetToSeq(S) == IF S = {} THEN <<>> ELSE LET m == CHOOSE i \in S : \A j \in S : i <= j IN <<m>> \o SetToSeq(S \ {m})
ActTableDef == %(acttable)s
Base == %(base)s
MaxSteps == %(maxsteps)d
Deep == %(deep)s
Deep3 == %(deep3)s
NestB == %(nestb)s
WildDeep == %(wilddeep)s
VARIABLES b, cfg, trail
vars == <<b, cfg, trail>>
N == Len(trail) + 1
Init == b \in 1..Len(Base) /\ cfg = Base[b] /\ trail = <<>>
Alias == \E loc \in Locs(cfg) : \E p \in ActPaths(ItemAt(cfg, loc)) :
           CanAlias(cfg, loc, p) /\ cfg' = StepAlias(cfg, loc, p, N) /\ trail' = Append(trail, <<"alias", loc, p>>)
Var == \E loc \in Locs(cfg) : \E p \in ValPaths(ItemAt(cfg, loc)) :
           CanVar(cfg, loc, p) /\ cfg' = StepVar(cfg, loc, p, N) /\ trail' = Append(trail, <<"var", loc, p>>)
Tpl == \E loc \in Locs(cfg) : \E p \in TplSites(ItemAt(cfg, loc)) : \E q \in AllPaths(GetP(ItemAt(cfg, loc), p)) :
           CanTpl(cfg, loc, p, q) /\ cfg' = StepTpl(cfg, loc, p, q, N) /\ trail' = Append(trail, <<"tpl", loc, p, q>>)
Cond == \E loc \in Locs(cfg) : \E p1, p2 \in ActPaths(ItemAt(cfg, loc)) : \E inl \in BOOLEAN :
           CanCond(cfg, loc, p1, p2) /\ cfg' = StepCond(cfg, loc, p1, p2, inl, N)
           /\ trail' = Append(trail, <<"cond", loc, p1, p2, inl>>)
Include == \E i \in 1..Len(cfg.main) :
           CanInclude(cfg, i) /\ cfg' = StepInclude(cfg, i, N) /\ trail' = Append(trail, <<"include", i>>)
Plat == \E loc \in Locs(cfg) : \E v \in 1..3 :
           CanPlatform(cfg, loc) /\ cfg' = StepPlatform(cfg, loc, v) /\ trail' = Append(trail, <<"platform", loc, v>>)
LayerMap == \E loc \in Locs(cfg) :
           CanLayerMap(cfg, loc) /\ cfg' = StepLayerMap(cfg, loc) /\ trail' = Append(trail, <<"layermap", loc>>)
LayerMapW == (IF trail = <<>> THEN TRUE ELSE b \in WildDeep) /\ \E loc \in Locs(cfg) : \E w \in Wild :
           CanLayerMap(cfg, loc) /\ \E G \in SUBSET (1..Len(RawSrc(cfg))) : \E pos \in 0..Len(RawSrc(cfg)) :
           CanLayerMapW(cfg, loc, w, G, pos) /\ cfg' = StepLayerMapW(cfg, loc, w, G, pos)
           /\ trail' = Append(trail, <<"layermapw", loc, w, SetToSeq(G), pos>>)
\* a conditional in the body of a conditional: TLC enumerates the site p (whole item / an action), the position q1 of the
\* outer conditional (top of the body / inside a list), the position q2 of the inner one below it, the form of both and
\* the truth values (a false outer conditional makes the inner one irrelevant: one variant)
Nest == b \in NestB /\ trail = <<>> /\
        \E loc \in Locs(cfg) : \E p \in TplSites(ItemAt(cfg, loc)) : \E q1 \in AllPaths(GetP(ItemAt(cfg, loc), p)) :
        \E q2 \in AllPaths(GetP(GetP(ItemAt(cfg, loc), p), q1)) : \E k1, k2 \in 1..4 : \E t1, t2 \in BOOLEAN :
           CanNest(cfg, loc, p, q1, q2) /\ (t1 \/ (k2 = 1 /\ t2))
           /\ cfg' = StepNest(cfg, loc, p, q1, q2, k1, k2, t1, t2, N)
           /\ trail' = Append(trail, <<"nest", loc, p, q1, q2, k1, k2, t1, t2>>)
Next == /\ Len(trail) < (IF b \in Deep3 THEN 3 ELSE IF b \in Deep THEN MaxSteps ELSE 1)
        /\ (IF trail = <<>> THEN TRUE ELSE trail[1][1] # "nest" /\ (trail[1][1] = "layermapw" => b \in WildDeep))
        /\ b' = b
        /\ (Alias \/ Var \/ Tpl \/ Cond \/ Include \/ Plat \/ LayerMap \/ LayerMapW \/ Nest)
BaseNorm == [k \in 1..Len(Base) |-> NormWhy(Base[k])]
SameNorm(r, k) == r[1] = BaseNorm[k][1] /\ (r[1] = "ok" => r[2] = BaseNorm[k][2])
\* the property on the specification itself: every reachable configuration has the normal form of its base
Transparent == SameNorm(NormWhy(cfg), b)
\* one line per generated transition (binding): the rewritten configuration and what Norm says about it
Pair == LET r == NormWhy(cfg') IN
        PrintT(<<"PAIR", ToJson([b |-> b, trail |-> trail', cfg |-> cfg', norm |-> r[1],
                                 why |-> IF r[1] = "ok" THEN "" ELSE r[2], same |-> SameNorm(r, b)])>>)
BaseInfo == \A k \in 1..Len(Base) :
        PrintT(<<"BASE", ToJson([b |-> k, cfg |-> Base[k], norm |-> BaseNorm[k][1],
                                 why |-> IF BaseNorm[k][1] = "ok" THEN "" ELSE BaseNorm[k][2]])>>)
ASSUME BaseInfo
====
"""
MC_CFG = """CONSTANT ActTable <- ActTableDef
CONSTANT Platform = "linux"
CONSTANT EnvSupported = FALSE
CONSTANT EnvVars <- NoEnv
INIT Init
NEXT Next
INVARIANT Transparent
ACTION_CONSTRAINT Pair
CHECK_DEADLOCK FALSE
"""


def acttable_tla():
    ents = ["(%s :> %s)" % (tla_str(k), tla_str(v)) for k, v in sorted(cfgrw.ACT_TABLE.items()) if k.isascii()]
    return " @@ ".join(ents)


def tree_tla(t):
    if t[0] == "A":
        return "<<\"A\", %s>>" % tla_str(t[1])
    return "<<\"L\", <<%s>>>>" % ", ".join(tree_tla(k) for k in t[1])


def cfg_tla(cfg):
    files = ", ".join("<<%s, <<%s>>>>" % (tla_str(nm), ", ".join(tree_tla(t) for t in items))
                      for nm, items in cfg["files"])
    return "[main |-> <<%s>>, files |-> <<%s>>]" % (", ".join(tree_tla(t) for t in cfg["main"]), files)


def run_spec(wd, fam, maxsteps, deep, name="MC_CfgLang", workers=4, timeout=1500, deep3=(), mutate=None, nest=(), wilddeep=()):
    """TLC over the family.  Returns (tlc result, bases, path of the ndjson file of printed pairs).  mutate: text -> text of the generated module
    (specification self-test: a deliberately wrong rule must violate Transparent; returns the TLC result only)."""
    mod = name
    txt = MC_TEMPLATE % {
        "mod": mod, "acttable": acttable_tla(),
        "base": "<<" + ",\n  ".join(cfg_tla(c) for _, c in fam) + ">>",
        "maxsteps": maxsteps,
        "deep": "{" + ", ".join(str(i + 1) for i, (n, _) in enumerate(fam) if n in deep) + "}",
        "deep3": "{" + ", ".join(str(i + 1) for i, (n, _) in enumerate(fam) if n in deep3) + "}",
        "nestb": "{" + ", ".join(str(i + 1) for i, (n, _) in enumerate(fam) if n in nest) + "}",
        "wilddeep": "{" + ", ".join(str(i + 1) for i, (n, _) in enumerate(fam) if n in wilddeep) + "}",
    }
    txt = txt.replace("====\n", "NoEnv == <<>>\n====\n")
    if mutate:
        txt = mutate(txt)
    open(os.path.join(wd, mod + ".tla"), "w").write(txt)
    open(os.path.join(wd, mod + ".cfg"), "w").write(MC_CFG)
    r = run_tlc(wd, mod, workers=workers, timeout=timeout, heap="4g")
    if mutate:
        return r, None, None
    if r["rc"] != 0 or not r["finished"] or r["error"]:
        with open(r["out"], "rb") as f:
            f.seek(0, 2)
            f.seek(max(0, f.tell() - 4000))
            out = f.read().decode("utf-8", errors="replace")
        if r["violated"]:
            raise ToolError("TLC: %s violated on the specification itself (a rewrite rule is not neutral under Norm); see %s"
                            % (r["violated"], r["out"]))
        raise ToolError("TLC failed on %s (rc=%s): %s\n%s" % (mod, r["rc"], r["error"], out[-1500:]))
    pf = os.path.join(wd, mod + ".pairs.ndjson")
    bf = os.path.join(wd, mod + ".bases.ndjson")
    extract_prints(r["out"], "PAIR", pf)
    extract_prints(r["out"], "BASE", bf)
    bases = {}
    for line in open(bf):
        o = json.loads(line)
        bases[o["b"]] = o
    return r, bases, pf


def iter_pairs(pf):
    """the PAIR lines TLC printed, one at a time (the file of a thorough run holds > 100 k configurations)"""
    with open(pf) as f:
        for idx, line in enumerate(f):
            yield idx, json.loads(line)


# ---------------------------------------------------------------------------------- binding: the real parser
_LIVE = set()


def _die_with_parent():
    """PR_SET_PDEATHSIG: the worker gets SIGKILL when this process dies, however it dies (OOM killer included)"""
    try:
        import ctypes, signal
        ctypes.CDLL("libc.so.6", use_errno=True).prctl(1, int(signal.SIGKILL))
    except Exception:
        pass


def spawn(argv):
    pr = subprocess.Popen(argv, stdout=subprocess.PIPE, stderr=subprocess.STDOUT, text=True, preexec_fn=_die_with_parent)
    _LIVE.add(pr)
    return pr


def reap(pr):
    _LIVE.discard(pr)


def kill_workers():
    for pr in list(_LIVE):
        try:
            pr.kill()
            pr.wait(timeout=10)
        except Exception:
            pass
        _LIVE.discard(pr)


class Texts:
    """deduplicated (main text, files) table"""

    def __init__(self):
        self.items = []
        self.index = {}

    def add(self, main, files):
        k = (main, json.dumps(files, sort_keys=True))
        i = self.index.get(k)
        if i is None:
            i = len(self.items)
            self.index[k] = i
            self.items.append({"cfg": main, "files": files})
        return i

    def add_cfg(self, cfg):
        main, files = cfgrw.render_cfg(cfg)
        return self.add(main, files)


def run_cfgeq(wd, texts, pairs, name, chunk=1500, procs=None):
    """pairs: [(ia, ib, id)].  Returns (status per text index {i: (status, msg, mapped)}, {id: pair result})."""
    build_harness()
    procs = procs or MAX_PROCS
    pairs = sorted(pairs, key=lambda p: (p[0], p[1]))
    chunks = [pairs[i:i + chunk] for i in range(0, len(pairs), chunk)]
    running = []
    tstat, pres = {}, {}

    def collect(ent):
        p, inp, outp, gmap = ent
        for attempt in range(60):
            so, _ = p.communicate()
            if p.returncode == 0:
                break
            # the parser killed the worker (stack overflow / abort): find the text it was loading, mark it and retry
            last, done = None, set()
            if os.path.exists(outp):
                for line in open(outp, encoding="utf-8", errors="replace"):
                    try:
                        o = json.loads(line)
                    except ValueError:
                        continue
                    if o.get("e") == "begin":
                        last = o["i"]
                    elif o.get("e") == "text":
                        done.add(o["i"])
            if last is None or last in done or p.returncode > 0:
                raise ToolError("cfgeq failed rc=%s: %s" % (p.returncode, (so or "")[-2000:]))
            j = json.load(open(inp))
            j["texts"][last] = {"skip": True}
            json.dump(j, open(inp, "w"))
            reap(p)
            p = spawn([HARNESS, "cfgeq", inp, outp])
        else:
            raise ToolError("cfgeq: too many parser aborts in one chunk")
        ended = False
        for line in open(outp, encoding="utf-8"):
            o = json.loads(line)
            if o["e"] == "text":
                tstat[gmap[o["i"]]] = (o["status"], o.get("msg", ""), o.get("mapped"))
            elif o["e"] == "pair":
                pres[o["id"]] = o
            elif o["e"] == "end":
                ended = True
        reap(p)
        if not ended:
            raise ToolError("cfgeq output incomplete: " + outp)
        os.remove(outp)
        os.remove(inp)

    for ci, ch in enumerate(chunks):
        local, gmap, lt, lp = {}, [], [], []
        for ia, ib, pid_ in ch:
            for g in (ia, ib):
                if g not in local:
                    local[g] = len(lt)
                    lt.append(texts.items[g])
                    gmap.append(g)
            lp.append([local[ia], local[ib], pid_])
        inp = os.path.join(wd, "%s.%d.eq.json" % (name, ci))
        outp = os.path.join(wd, "%s.%d.eq.ndjson" % (name, ci))
        json.dump({"texts": lt, "pairs": lp, "detail": 1000000}, open(inp, "w"))
        running.append((spawn([HARNESS, "cfgeq", inp, outp]), inp, outp, gmap))
        if len(running) >= procs:
            collect(running.pop(0))
    while running:
        collect(running.pop(0))
    return tstat, pres


def run_behaviour(wd, texts, scripts_of_text, name, digest=False):
    """scripts_of_text: {text index: [script...]}.  Runs every script on the real code; returns
    {(text index, k): [trace lines]}, or with digest {(text index, k): (number of lines, md5 of the trace)} so that a
    shard of thousands of runs is not held in memory (the caller re-runs the few that differ for the lines).
    Every run parses its configuration once and the harness keeps what it parsed, so the runs are dealt to worker
    processes of at most RUNS_PER_PROC runs each, MAX_PROCS at a time."""
    flat = [(ti, k, sc) for ti, scripts in sorted(scripts_of_text.items()) for k, sc in enumerate(scripts)]
    if not flat:
        return {}
    build_harness()
    traces = {}
    parts = [flat[i:i + RUNS_PER_PROC] for i in range(0, len(flat), RUNS_PER_PROC)]
    if len(parts) < MAX_PROCS and len(flat) >= 200:
        n = min(MAX_PROCS, len(flat) // 100)
        parts = [flat[i::n] for i in range(n)]
    running = []

    def collect(ent):
        pr, jf, of = ent
        so, _ = pr.communicate()
        reap(pr)
        if pr.returncode != 0:
            raise ToolError("harness run failed rc=%s: %s" % (pr.returncode, (so or "")[-2000:]))
        cur = key = None
        h = None
        ended = False
        for line in open(of, encoding="utf-8"):
            if '"e":"reset"' in line[:40]:
                if key is not None:
                    traces[key] = (cur, h.hexdigest()) if digest else cur
                o = json.loads(line)
                ti, k = o["job"].split("#")
                key = (int(ti), int(k))
                cur = 0 if digest else []
                h = hashlib.md5()
            elif '"e":"end"' in line[:12]:
                if key is not None:
                    traces[key] = (cur, h.hexdigest()) if digest else cur
                key = None
                ended = True
            elif key is not None:
                if digest:
                    cur += 1
                    h.update(line.encode("utf-8"))
                else:
                    cur.append(line.rstrip("\n"))
        if not ended:
            raise ToolError("harness run output incomplete: " + of)
        os.remove(of)
        os.remove(jf)

    for pi, part in enumerate(parts):
        jobs = [{"cfg": texts.items[ti]["cfg"], "files": texts.items[ti]["files"], "opts": {}, "scripts": [sc],
                 "tag": "%d#%d" % (ti, k), "params": {"none": 0}} for ti, k, sc in part]
        jf = os.path.join(wd, "%s.%d.json" % (name, pi))
        of = os.path.join(wd, "%s.%d.ndjson" % (name, pi))
        json.dump({"jobs": jobs}, open(jf, "w"))
        del jobs
        running.append((spawn([HARNESS, "run", jf, of]), jf, of))
        if len(running) >= MAX_PROCS:
            collect(running.pop(0))
    while running:
        collect(running.pop(0))
    return traces


def src_codes(cfg, mapped):
    names = cfgdesc.keytable()["names"]
    src = cfgrw.raw_src(cfg) or []
    codes = [names[a[1]] for a in src if a[0] == "A" and a[1] in names]
    for it in [x for d in range(len(cfg["files"]) + 1) for x in cfgrw.doc(cfg, d)]:
        inner = cfgrw.unwrap(it)[1]
        if cfgrw.head_txt(inner) == "deflayermap":
            codes += [names[a[1]] for a in inner[1][2::2] if a[0] == "A" and a[1] in names]
    if cfgrw.raw_pum(cfg) and "q" in names:
        codes.append(names["q"])          # a key outside defsrc: the layer tables cover all keys with process-unmapped-keys yes
    codes = sorted(set(codes))
    if not codes:
        codes = list(mapped or [])[:6]
    return codes or [30]


def histories(rng, codes, n, quick):
    out = []
    for _ in range(n):
        out.append(rand_history(rng, codes, rng.randint(4, 30 if quick else 80), [0, 0, 1, 1, 2, 5, 40, 210, 520],
                                tail=700, repeat_p=0.1))
    return out


class Batch:
    """pairs (a = original, b = rewritten) collected for one round of binding"""

    def __init__(self):
        self.texts = Texts()
        self.pairs = []           # (ia, ib, id)
        self.meta = {}            # id -> {"src": "tlc"|"random", "base": name, "trail": [...], "norm": "ok"|"reject", ...}
        self.cfg_of_text = {}     # text index -> cfg tree (for the history alphabet)

    def add(self, cfg_a, cfg_b, meta):
        ia, ib = self.texts.add_cfg(cfg_a), self.texts.add_cfg(cfg_b)
        self.cfg_of_text.setdefault(ia, cfg_a)
        i = len(self.pairs)
        self.pairs.append((ia, ib, i))
        self.meta[i] = meta
        return i


def step_signature(trail):
    return "+".join(st[0] for st in trail)


def bind(res, st, wd, batch, name, rng, tier, behaviour_sample=None, nhist=3):
    """Structural and behavioural comparison of every pair of the batch on the real parser."""
    quick = tier == "quick"
    tstat, pres = run_cfgeq(wd, batch.texts, batch.pairs, name)
    st["texts_parsed"] += len(tstat)
    beh = []
    for ia, ib, i in batch.pairs:
        m = batch.meta[i]
        r = pres[i]
        st["pairs"] += 1
        st["by_kind"][step_signature(m["trail"])] = st["by_kind"].get(step_signature(m["trail"]), 0) + 1
        both_ok = r["sa"] == "ok" and r["sb"] == "ok"
        st["both_accepted" if both_ok else ("both_rejected" if r["sa"] != "ok" and r["sb"] != "ok" else "acceptance_differs")] += 1
        if m.get("norm") == "reject" and (r["sa"] == "ok" or r["sb"] == "ok"):
            st["spec_drift"] += 1
            if len(st["spec_drift_samples"]) < 3:
                st["spec_drift_samples"].append({"why": "Norm rejects but the parser accepts", "base": m["base"],
                                                 "trail": m["trail"], "b": batch.texts.items[ib]})
        if m.get("norm") == "ok" and m.get("family") and r["sa"] != "ok" and m["base"] not in PLAIN_INVALID:
            st["spec_drift"] += 1
            if len(st["spec_drift_samples"]) < 3:
                st["spec_drift_samples"].append({"why": "Norm accepts the family member but the parser rejects it: " + tstat[ia][1],
                                                 "base": m["base"]})
        if r["diff"]:
            report(res, st, batch, i, r, "parsed result differs in: " + ",".join(r["diff"]), None)
        elif both_ok:
            beh.append((ia, ib, i))
    # behaviour on shared histories
    if behaviour_sample is not None and len(beh) > behaviour_sample:
        beh = rng.sample(beh, behaviour_sample)
    scripts = {}
    for ia, ib, i in beh:
        if ia not in scripts:
            scripts[ia] = histories(rng, src_codes(batch.cfg_of_text[ia], tstat[ia][2]), nhist, quick)
    for ia, ib, i in beh:
        scripts.setdefault(ib, scripts[ia])
    traces = run_behaviour(wd, batch.texts, scripts, name + "_run", digest=True)
    for ia, ib, i in beh:
        for k in range(len(scripts[ia])):
            da, db = traces.get((ia, k)), traces.get((ib, k))
            if da is None or db is None:
                raise ToolError("missing trace for pair %s" % i)
            st["behaviour_runs"] += 1
            st["trace_lines"] += da[0]
            if da != db:
                # the lines of this one pair: run it again
                tr = run_behaviour(wd, batch.texts, {ia: [scripts[ia][k]], ib: [scripts[ia][k]]}, name + "_detail")
                ta, tb = tr[(ia, 0)], tr[(ib, 0)]
                n = next((j for j in range(min(len(ta), len(tb))) if ta[j] != tb[j]), min(len(ta), len(tb)))
                report(res, st, batch, i, pres[i], "behaviour differs at trace line %d" % (n + 1),
                       {"script": scripts[ia][k], "line": n + 1, "a": ta[n:n + 2], "b": tb[n:n + 2]})
                break
    return tstat, pres


def report(res, st, batch, i, r, what, beh):
    ia, ib, _ = batch.pairs[i]
    m = batch.meta[i]
    st["disagreements"] += 1
    kinds = step_signature(m["trail"])
    fields = ",".join(r["diff"]) if r["diff"] else "behaviour"
    detail = json.dumps(r.get("detail", {}), sort_keys=True)
    sig_text = "steps=%s fields=%s what=%s detail=%s a=%s b=%s" % (
        kinds, fields, what, detail, batch.texts.items[ia]["cfg"], batch.texts.items[ib]["cfg"])
    rep = {"kind": "cfgpair", "property": PID, "what": what, "source": m.get("src"), "base": m.get("base"),
           "trail": m["trail"], "a": batch.texts.items[ia], "b": batch.texts.items[ib],
           "status": [r["sa"], r["sb"]], "diff": r["diff"], "detail": r.get("detail", {})}
    if beh:
        rep["script"] = beh["script"]
        rep["behaviour"] = beh
    name = "%s_%s_%d" % (m.get("src", "pair"), hashlib.md5(sig_text.encode()).hexdigest()[:8], len(res.violations))
    if flow.classify(res, PID, what, sig_text, rep, name):
        log("[c16] DISAGREEMENT %s trail=%s" % (what, json.dumps(m["trail"])))


# ---------------------------------------------------------------------------------- replay of one pair
def replay_pair(rep, wd, verbose=True):
    """./check replay: both texts through the real parser again; 1 if they are still treated differently"""
    texts = Texts()
    ia = texts.add(rep["a"]["cfg"], rep["a"].get("files", {}))
    ib = texts.add(rep["b"]["cfg"], rep["b"].get("files", {}))
    tstat, pres = run_cfgeq(wd, texts, [(ia, ib, 0)], "replay")
    r = pres[0]
    if verbose:
        print("--- a (original)\n%s--- b (rewritten, steps %s)\n%s" % (rep["a"]["cfg"], json.dumps(rep.get("trail")), rep["b"]["cfg"]))
        for nm, tx in rep["b"].get("files", {}).items():
            print("--- file %s\n%s" % (nm, tx))
        print("parser: a=%s %s | b=%s %s" % (r["sa"], tstat[ia][1], r["sb"], tstat[ib][1]))
    bad = bool(r["diff"])
    for f in r["diff"]:
        print("DIFFERS %s: %s" % (f, json.dumps(r["detail"].get(f))[:600]))
    if not bad and r["sa"] == "ok" and r["sb"] == "ok" and rep.get("script"):
        tr = run_behaviour(wd, texts, {ia: [rep["script"]], ib: [rep["script"]]}, "replay_run")
        ta, tb = tr[(ia, 0)], tr[(ib, 0)]
        if ta != tb:
            n = next((j for j in range(min(len(ta), len(tb))) if ta[j] != tb[j]), min(len(ta), len(tb)))
            print("DIFFERS behaviour at trace line %d:\n  a: %s\n  b: %s" % (n + 1, ta[n:n + 1], tb[n:n + 1]))
            bad = True
    if bad:
        print("VIOLATION property=%s replay=<this file>" % PID)
        return 1
    print("both texts are treated alike by the parser")
    return 0


# ---------------------------------------------------------------------------------- can the specification say no?
def spec_selftest(wd, fam):
    """Two deliberately wrong rules (found to be wrong by TLC while the rules were written): a variable in place of
    any atom - also the template name inside template-expand, where defvar is documented not to apply - and an
    alias for an action inside defvirtualkeys.  TLC must report Transparent violated for each."""
    sub = [f for f in fam if f[0] in ("tpl_listarg", "vkeys_seq_ovr")]

    def bad_var(txt):
        a = "p \\in ValPaths(ItemAt(cfg, loc)) :\n           CanVar(cfg, loc, p)"
        assert a in txt
        return txt.replace(a, "p \\in (AllPaths(ItemAt(cfg, loc)) \\ {<<>>, <<1>>}) :\n           TRUE")

    def bad_alias(txt):
        a = "CanAlias(cfg, loc, p) /\\ cfg' = StepAlias"
        assert a in txt
        return txt.replace(a, "cfg' = StepAlias")

    n = 0
    for nm, mut in (("var_anywhere", bad_var), ("alias_in_vkeys", bad_alias)):
        r, _, _ = run_spec(wd, sub, 1, set(), name="MC_CfgLang_bad_" + nm, timeout=300, mutate=mut)
        if r["violated"] != "Transparent":
            raise ToolError("specification self-test %s: TLC did not reject a wrong rewrite rule (%s)" % (nm, r["error"]))
        n += 1
    return n


# ---------------------------------------------------------------------------------- the check
def scan_pairs(fam, bases, pf, nest=()):
    """One streaming pass over TLC's pairs: Norm kept by every step (said by TLC, re-read here), and tools/cfgrw.py
    must be the same rules as CfgLang.tla - equal one-step successor sets for every family member, and every TLC
    trail replayed with the Python rules gives TLC's configuration.  Returns counts."""
    one = {}
    c = {"printed": 0, "depth1": 0, "deeper": 0, "reject": 0, "replayed": 0}
    for idx, p in iter_pairs(pf):
        c["printed"] += 1
        c["reject"] += p["norm"] == "reject"
        if not p["same"]:
            raise ToolError("specification: Norm differs after %s" % json.dumps(p["trail"]))
        if len(p["trail"]) == 1:
            c["depth1"] += 1
            one.setdefault(p["b"], set()).add(json.dumps([p["trail"][0], p["cfg"]], sort_keys=True))
        else:
            c["deeper"] += 1
            if cfgrw.apply_trail(fam[p["b"] - 1][1], p["trail"]) != p["cfg"]:
                raise ToolError("replaying TLC trail %s with tools/cfgrw.py gives another configuration" % json.dumps(p["trail"]))
            c["replayed"] += 1
    for b, (name, cfg) in enumerate(fam, 1):
        if bases[b]["cfg"] != cfg:
            raise ToolError("family member %s: TLC's copy differs from the Python tree" % name)
        mine = set(json.dumps([t, cf], sort_keys=True) for t, cf in cfgrw.successors(cfg, 1, nest=name in nest))
        tlc = one.get(b, set())
        if mine != tlc:
            d = sorted(mine ^ tlc)[:2]
            raise ToolError("rewrite transcription differs from the specification on %s: |py|=%d |tlc|=%d e.g. %s"
                            % (name, len(mine), len(tlc), d))
    return c


def keep_pair(seed, p, frac):
    """thorough cap: one-step pairs always, compositions with probability frac, decided by (VERIF_SEED, member, trail) -
    not by the line number, which depends on the scheduling of TLC's workers"""
    if len(p["trail"]) <= 1 or frac >= 1.0:
        return True
    import zlib
    return zlib.crc32(("%d:%d:%s" % (seed, p["b"], json.dumps(p["trail"]))).encode()) / 4294967296.0 < frac


def run(tier, seed):
    try:
        return run_(tier, seed)
    finally:
        kill_workers()


def run_(tier, seed):
    res = flow.Result(PID, tier, seed)
    rng = random.Random(seed)
    wd = workdir("c16")
    quick = tier == "quick"
    st = {"pairs": 0, "texts_parsed": 0, "both_accepted": 0, "both_rejected": 0, "acceptance_differs": 0,
          "disagreements": 0, "behaviour_runs": 0, "trace_lines": 0, "spec_drift": 0, "spec_drift_samples": [],
          "by_kind": {}}
    fam = family_cfgs()
    # ---- 1. the specification checks itself and enumerates the pairs
    deep = QUICK_DEPTH2 if quick else set(n for n, _ in fam) - DEPTH1_ONLY
    deep3 = set() if quick else THOROUGH_DEPTH3
    nest = NEST_QUICK if quick else NEST_THOROUGH
    r, bases, pf = run_spec(wd, fam, 2, deep, timeout=600 if quick else 2400, deep3=deep3, nest=nest, wilddeep=WILD_DEEP)
    res.states, res.transitions = r["distinct"] or 0, r["generated"] or 0
    cnt = scan_pairs(fam, bases, pf, nest)
    replayed = cnt["replayed"]
    nself = spec_selftest(wd, fam)
    log("[c16] TLC: %d states, %d pairs printed (%d Norm=REJECT on both sides), %.0fs; transcription cross-check ok (%d trails)"
        % (res.states, cnt["printed"], cnt["reject"], r["wall_s"], replayed))
    # ---- 2. binding of the printed pairs, streamed in shards (all one-step pairs; compositions up to the cap)
    frac = 1.0 if cnt["printed"] <= PAIR_CAP else max(0.0, (PAIR_CAP - cnt["depth1"])) / max(1, cnt["deeper"])
    n_bound = cnt["printed"] if frac >= 1.0 else None
    beh_total = 3000 if quick else None
    sample_pairs = []
    shard_no = [0]

    def flush(batch):
        if not batch.pairs:
            return
        bs = None if beh_total is None else max(1, int(round(beh_total * len(batch.pairs) / float(max(1, cnt["printed"])))))
        bind(res, st, wd, batch, "tlc%d" % shard_no[0], rng, tier, behaviour_sample=bs, nhist=2 if quick else 4)
        if not sample_pairs:
            for i in rng.sample(range(len(batch.pairs)), min(3, len(batch.pairs))):
                ia, ib, _ = batch.pairs[i]
                sample_pairs.append({"base": batch.meta[i]["base"], "trail": batch.meta[i]["trail"],
                                     "original": batch.texts.items[ia], "rewritten": batch.texts.items[ib],
                                     "norm": batch.meta[i]["norm"]})
        shard_no[0] += 1

    batch = Batch()
    for idx, p in iter_pairs(pf):
        if not keep_pair(seed, p, frac):
            continue
        name = fam[p["b"] - 1][0]
        batch.add(bases[p["b"]]["cfg"], p["cfg"], {"src": "tlc", "base": name, "trail": p["trail"], "norm": p["norm"],
                                                    "family": True})
        if len(batch.pairs) >= SHARD_PAIRS:
            flush(batch)
            batch = Batch()
    flush(batch)
    del batch
    if not os.environ.get("KVERIF_KEEP"):
        os.remove(pf)
        if os.path.exists(r["out"]):
            os.remove(r["out"])
    n_tlc_pairs = st["pairs"]
    log("[c16] bound %d of %d printed pairs in %d shards (compositions kept with probability %.3f)"
        % (n_tlc_pairs, cnt["printed"], shard_no[0], frac))
    # ---- 3. random tier: whole action grammar, random compositions with the transcribed rules
    ncfg = 80 if quick else 1500
    nvar = 4 if quick else 8
    gen = {"configs": 0, "unreadable": 0, "steps": 0, "accepted_originals": 0, "originals": 0}
    per_shard = max(1, SHARD_PAIRS // nvar)
    for c0 in range(0, ncfg, per_shard):
        batch = Batch()
        reprint = Batch()
        for ci in range(c0, min(ncfg, c0 + per_shard)):
            text, meta = cfggen.gen_config(rng, depth=rng.choice([1, 2, 2, 3]))
            gen["configs"] += 1
            try:
                cfg0 = cfgrw.cfg_of_text(text)
            except ValueError:
                gen["unreadable"] += 1
                continue
            # reader/printer self-check: the generator's text and its re-rendered tree must be the same program
            ia = reprint.texts.add(text, {})
            ib = reprint.texts.add_cfg(cfg0)
            reprint.pairs.append((ia, ib, len(reprint.pairs)))
            for v in range(nvar):
                cfg, trail = cfg0, []
                for n in range(1, rng.randint(1, 4) + 1):
                    s = cfgrw.random_step(cfg, n, rng)
                    if s is None:
                        break
                    trail.append(s[0])
                    cfg = s[1]
                if trail:
                    gen["steps"] += len(trail)
                    batch.add(cfg0, cfg, {"src": "random", "base": meta["hash"], "trail": trail})
        _, rp = run_cfgeq(wd, reprint.texts, reprint.pairs, "reprint")
        for i, o in rp.items():
            if o["diff"]:
                raise ToolError("tools/cfgrw.py reader/printer changes a configuration: %s" % json.dumps(o)[:800])
        if not batch.pairs:
            continue
        tstat, _ = bind(res, st, wd, batch, "random%d" % c0, rng, tier, behaviour_sample=None, nhist=2 if quick else 4)
        gen["accepted_originals"] += sum(1 for ia in set(p[0] for p in batch.pairs) if tstat[ia][0] == "ok")
        gen["originals"] += len(set(p[0] for p in batch.pairs))
        if c0 == 0:
            for i in rng.sample(range(len(batch.pairs)), min(2, len(batch.pairs))):
                ia, ib, _ = batch.pairs[i]
                sample_pairs.append({"base": "cfggen " + batch.meta[i]["base"], "trail": batch.meta[i]["trail"],
                                     "original": batch.texts.items[ia], "rewritten": batch.texts.items[ib]})
        del batch, reprint
    # ---- verdict and evidence
    for k in res.known:
        print("KNOWN-FINDING: property=%s %s" % (PID, k["what"] or k["signature"]))
    for v in res.violations:
        print("VIOLATION property=%s replay=%s" % (PID, v["replay"]))
    if st["spec_drift"]:
        log("[c16] specification drift on %d pairs (Norm and the parser disagree about acceptance of BOTH sides): %s"
            % (st["spec_drift"], json.dumps(st["spec_drift_samples"])[:1500]))
    import resource
    peak_py = resource.getrusage(resource.RUSAGE_SELF).ru_maxrss // 1024
    peak_child = resource.getrusage(resource.RUSAGE_CHILDREN).ru_maxrss // 1024
    log("[c16] peak RSS: python %d MB, largest child process (TLC / harness worker) %d MB" % (peak_py, peak_child))
    cov = {
        "peak_rss_mb": {"python": peak_py, "largest_child": peak_child},
        "programs": st["pairs"],
        "disagreements_checked": st["disagreements"],
        "samples": sample_pairs,
        "states": res.states, "transitions": res.transitions,
        "pairs_enumerated_by_tlc": n_tlc_pairs,
        "pairs_printed_by_tlc": cnt["printed"], "pairs_printed_one_step": cnt["depth1"], "pairs_printed_compositions": cnt["deeper"],
        "pair_cap": PAIR_CAP, "compositions_kept_fraction": round(frac, 4),
        "binding": "all one-step pairs; compositions all when printed <= pair_cap, else sampled by a hash of (VERIF_SEED, member, trail); "
                   "shards of %d pairs, <= %d worker processes, <= %d runs per process" % (SHARD_PAIRS, MAX_PROCS, RUNS_PER_PROC),
        "pairs_random_compositions": st["pairs"] - n_tlc_pairs,
        "tlc_trails_replayed_with_python_rules": replayed,
        "wrong_rules_rejected_by_tlc": nself,
        "texts_parsed_by_real_parser": st["texts_parsed"],
        "both_accepted": st["both_accepted"], "both_rejected": st["both_rejected"],
        "acceptance_differs": st["acceptance_differs"],
        "behaviour_runs_compared": st["behaviour_runs"], "trace_lines_compared": st["trace_lines"],
        "pairs_by_step_kinds": dict(sorted(st["by_kind"].items(), key=lambda kv_: -kv_[1])[:40]),
        "family": [n for n, _ in fam], "family_depth2": sorted(deep), "family_depth3": sorted(deep3),
        "family_nest": sorted(nest),
        "random_generator": gen,
        "model_conformance": "ok" if st["spec_drift"] == 0 else "drift",
        "spec_drift_pairs": st["spec_drift"], "spec_drift_samples": st["spec_drift_samples"],
        "known_findings_seen": [k["signature"] for k in res.known],
        "explanation": "TLC checks on CfgLang.tla that every abstraction step (alias, var, template, conditional template, "
                       "nested conditionals (outer at the top of the body / inside a list / body = whole item, 4x4 forms, truth values; "
                       "first step on the members in family_nest), include, platform, deflayermap, deflayermap with a wildcard pair "
                       "_ / __ / ___ in every position; all sites; compositions of 2 / 3 on the members listed in family_depth2 / family_depth3) "
                       "preserves Norm, and prints every pair; each pair and each random composition on cfggen configurations "
                       "is loaded by the real parser: accepted iff accepted, equal parsed results by structure, equal traces "
                       "on shared random histories.",
    }
    write_evidence(PID, tier, seed, "translation_validation", cov, time.time() - res.t0, violations=len(res.violations),
                   assumptions=["Norm written from docs/config.adoc (include, platform, environment, templates, variables, aliases, deflayermap)",
                                "active platform linux; environment variables unsupported (kanata_parser::cfg::new_from_str)",
                                "custom tap-hold closures, the chords-v2 table and zippychord are compared by behaviour only",
                                "tools/cfgrw.py = CfgLang.tla steps (cross-checked on the family: equal successor sets, replayed trails)",
                                "dev profile build of the repository working tree"])
    return 1 if res.violations else 0
