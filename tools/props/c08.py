"""C08 - macros play exactly their key list, in order, and always end with keys released.

Flow: (1) compile check: TLC enumerates the macro-body grammar, the real parser's SequenceEvent lists (dump) are
compared by TLC with P_C08!MacroExpand; (2) TLC explores L1 || P_C08 on small instances (all variants, cancellation
at every step index by exhaustiveness), every transition replayed on the code; (3) model-level witnesses, random
histories, 5-6 concurrent macros (ring of 4) recorded from the code and validated by TLC against P_C08."""
import itertools
from props.common import *

PID = "C08"
VARIANTS = {  # name -> (repeat, release-cancel, cancel-on-press)
    "macro": (False, False, False),
    "macro-release-cancel": (False, True, False),
    "macro-cancel-on-press": (False, False, True),
    "macro-release-cancel-and-cancel-on-press": (False, True, True),
    "macro-repeat": (True, False, False),
    "macro-repeat-release-cancel": (True, True, False),
    "macro-repeat-cancel-on-press": (True, False, True),
    "macro-repeat-release-cancel-and-cancel-on-press": (True, True, True),
}
SIG_ORDER = "C08 O1:"
MAX_REPLAYS = 12


# ---- macro bodies: text-level description -> .kbd text and -> monitor parameters (independent renderings)
def G(mods, *items):      # S-(...) / plain nested list when mods = []
    return {"t": "group", "mods": list(mods), "items": list(items)}


def MK(mods, k):          # S-a
    return {"t": "modkey", "mods": list(mods), "k": k}


def UNI(ch):
    return {"t": "uni", "ch": ch}


BTN_KEY = {"Left": "mlft", "Right": "mrgt", "Mid": "mmid"}


def BTN(btn):             # mlft / mrgt / mmid: a mouse button tap
    return {"t": "btn", "btn": btn}


def VK(name, out, y):
    return {"t": "vk", "name": name, "o": out, "y": y}


def kbd_item(i):
    if isinstance(i, (int, str)):
        return i
    if i["t"] == "uni":
        return {"t": "raw", "text": "(unicode %s)" % i["ch"]}
    if i["t"] == "vk":
        return {"t": "raw", "text": "(on-press tap-vkey %s)" % i["name"]}
    if i["t"] == "btn":
        return {"t": "raw", "text": BTN_KEY[i["btn"]]}
    if i["t"] == "group":
        return {"t": "group", "mods": i["mods"], "items": [kbd_item(x) for x in i["items"]]}
    return i


def par_item(i):
    if isinstance(i, int):
        return {"t": "d", "n": i}
    if isinstance(i, str):
        return {"t": "k", "k": cfgdesc.code(i)}
    if i["t"] == "uni":
        return {"t": "u", "ch": i["ch"]}
    if i["t"] == "vk":
        return {"t": "v", "o": cfgdesc.code(i["o"]), "y": i["y"]}
    if i["t"] == "btn":
        return {"t": "b", "btn": i["btn"]}
    if i["t"] == "modkey":
        return {"t": "m", "mods": [cfgdesc.code(m) for m in i["mods"]], "items": [par_item(i["k"])]}
    if i["t"] == "group":
        if i["mods"]:
            return {"t": "m", "mods": [cfgdesc.code(m) for m in i["mods"]], "items": [par_item(x) for x in i["items"]]}
        return {"t": "l", "items": [par_item(x) for x in i["items"]]}
    raise ToolError("par_item: %r" % (i,))


def json_item_to_text(it, names):
    """parameter-level item (as enumerated by TLC) -> .kbd text; names: code -> key name"""
    t = it["t"]
    if t == "k":
        return names[it["k"]]
    if t == "d":
        return str(it["n"])
    if t == "u":
        return "(unicode %s)" % it["ch"]
    if t == "b":
        return BTN_KEY[it["btn"]]
    inner = " ".join(json_item_to_text(x, names) for x in it["items"])
    if t == "l":
        return "(" + inner + ")"
    pre = "".join(cfgdesc.MOD_PREFIX[names[m]] for m in it["mods"])
    if len(it["items"]) == 1 and it["items"][0]["t"] == "k":
        return pre + inner          # S-a
    return pre + "(" + inner + ")"


def make(macros, plain=("c",), red=None, b1=True):
    """macros: list of (physical key, variant, body items); plain: physical plain keys (output y/z/w)"""
    pouts = {"c": "y", "d": "z", "e": "w"}
    layer, pm, extra = {}, [], []
    vks = {}
    vmacros = []
    for (k, variant, body) in macros:
        act = {"t": "macro", "variant": variant, "items": [kbd_item(i) for i in body]}
        rep, rc, pc = VARIANTS[variant]
        if isinstance(k, tuple):    # ("vk", name, {"tg": key, "pk": key, "rk": key}): the macro sits on a virtual key
            _, vname, ops = k
            vmacros.append("%s %s" % (vname, cfgdesc.render_action(act)))
            opn = {"tg": "toggle-vkey", "pk": "press-vkey", "rk": "release-vkey"}
            for o, pk in ops.items():
                layer[pk] = {"t": "raw", "text": "(on-press %s %s)" % (opn[o], vname)}
            pm.append({"c": 0, "rep": rep, "rc": rc, "pc": pc, "body": [par_item(i) for i in body],
                       "tg": cfgdesc.code(ops["tg"]) if "tg" in ops else 0,
                       "pk": cfgdesc.code(ops["pk"]) if "pk" in ops else 0,
                       "rk": cfgdesc.code(ops["rk"]) if "rk" in ops else 0})
            continue
        layer[k] = act
        pm.append({"c": cfgdesc.code(k), "rep": rep, "rc": rc, "pc": pc, "body": [par_item(i) for i in body]})

        def walk(its):
            for i in its:
                if isinstance(i, dict) and i["t"] == "vk":
                    vks[i["y"]] = (i["name"], i["o"])
                elif isinstance(i, dict) and i["t"] == "group":
                    walk(i["items"])
        walk(body)
    if vks or vmacros:
        extra.append("(defvirtualkeys " + " ".join(["%s %s" % vks[y] for y in sorted(vks)] + vmacros) + ")")
    # plain keys: "c" (output y/z/w), or (key, action text, output key name or None): e.g. ("c", "lsft", "lsft") = a key
    # whose output is also a key of a macro ("shared"), ("c", "(unshift z)", None) = some other action held meanwhile
    shared = []
    special = [k for k in plain if isinstance(k, tuple)]
    plain = [k for k in plain if not isinstance(k, tuple)]
    for (k, text, out) in special:
        layer[k] = {"t": "raw", "text": text}
        if out:
            shared.append({"c": cfgdesc.code(k), "o": cfgdesc.code(out)})
    for k in plain:
        layer[k] = {"t": "key", "k": pouts[k]}

    def names(its):
        for i in its:
            if isinstance(i, str):
                yield i
            elif isinstance(i, dict) and i["t"] == "modkey":
                yield i["k"]
            elif isinstance(i, dict) and i["t"] == "group":
                yield from names(i["items"])
            elif isinstance(i, dict) and i["t"] == "vk":
                yield i["o"]
    used = {n for m in macros for n in names(m[2])}
    if used & {pouts[k] for k in plain}:
        raise ToolError("C08 instance: a plain key's output is also a macro key: %r" % sorted(used & {pouts[k] for k in plain}))
    keys = [m[0] for m in macros if not isinstance(m[0], tuple)] + \
           [pk for m in macros if isinstance(m[0], tuple) for pk in m[0][2].values()] + list(plain) + \
           [k for (k, _, _) in special]
    desc = {"keys": keys, "layers": [layer], "extra": extra}
    if red is not None:
        desc["defcfg"] = {"rapid-event-delay": red}
    params = {"macros": pm, "cap": 4, "b1": b1}
    if shared:
        params["shared"] = shared
    return desc, params


S, C = ["lsft"], ["lctl"]


def family(tier, rng):
    """(name, macros, plain keys, seqs bound, qmax)"""
    F = [
        ("plain_grp", [("a", "macro", [G(S, "a", 3, "b")])], ("c",), 2, 2),
        ("relc_grp", [("a", "macro-release-cancel", [G(S, "a", "b"), 1, "a"])], ("c",), 2, 2),
        ("pressc", [("a", "macro-cancel-on-press", ["a", 3, MK(S, "b")])], ("c",), 2, 2),
        ("rep", [("a", "macro-repeat", ["a", 1, MK(S, "b")])], ("c",), 2, 2),
        ("rep_pressc", [("a", "macro-repeat-cancel-on-press", ["a", MK(S, "b")])], ("c",), 2, 2),
        ("uni_relc", [("a", "macro", ["a", UNI("q"), "b"]), ("b", "macro-release-cancel", ["x"])], (), 2, 2),
        # press/release custom items (mouse buttons): last, in the middle + release-cancel right after, two in a row
        ("btn_last", [("a", "macro", ["x", BTN("Left")])], ("c",), 2, 2),
        ("btn_relc", [("a", "macro-release-cancel", ["x", BTN("Left"), 2, "b"])], ("c",), 2, 2),
        # a plain key whose output is a key the macro holds across steps (the OS sees it down while either holds it)
        ("shared_mod", [("a", "macro", [G(S, "a", 2, "b")])], (("c", "lsft", "lsft"),), 2, 2),
        # an unshift key held while a release-cancel takes effect (its output has no key state in the layout)
        ("relc_unshift", [("a", "macro-release-cancel", [G(C, "a", 2, "b")])], (("c", "(unshift z)", None),), 2, 2),
        # a repeating macro on a virtual key operated by toggle-vkey / release-vkey
        ("rep_vkey", [(("vk", "v1", {"tg": "a", "rk": "b"}), "macro-repeat", ["x", MK(S, "b")])], (), 2, 2),
    ]
    if tier != "quick":
        F += [
            ("rep_relc", [("a", "macro-repeat-release-cancel", [G(S, "a"), "b"])], ("c",), 2, 2),
            ("both_nest", [("a", "macro-release-cancel-and-cancel-on-press", [G([], "a", G([], "b", MK(S, "a")))])], ("c",), 2, 2),
            ("two_disj", [("a", "macro", [G(S, "a", 1)]), ("b", "macro-release-cancel", [MK(C, "x"), "x"])], (), 2, 2),
            ("btn_two", [("a", "macro", ["x", BTN("Left"), BTN("Right")])], ("c",), 2, 2),
            ("pressc2", [("a", "macro-cancel-on-press", ["a", MK(S, "b"), 2, "a"])], ("c",), 2, 2),
            ("rep_both", [("a", "macro-repeat-release-cancel-and-cancel-on-press", [G(S, "a", 1, "b")])], ("c",), 2, 2),
            ("vkey", [("a", "macro", ["a", VK("v1", "z", 0), "b", 2])], ("c",), 2, 2),
            ("mods2", [("a", "macro-release-cancel", [MK(["lctl", "lsft"], "a"), G(["lctl", "lsft"], "b")])], ("c",), 2, 2),
            ("nestmod", [("a", "macro", [G(S, MK(S, "a"), "b"), 3, "a"])], ("c",), 2, 2),
            ("two_same", [("a", "macro", [G(S, "a", "b")]), ("b", "macro-cancel-on-press", [MK(S, "b"), 1, "a"])], (), 2, 2),
            ("two_rep", [("a", "macro-repeat", ["a", "b"]), ("b", "macro-repeat-release-cancel", [MK(C, "x")])], (), 2, 2),
            ("plain_q3", [("a", "macro", [G(S, "a", 2, "b"), "a"])], ("c",), 3, 3),
            ("btn_pc", [("a", "macro-cancel-on-press", [BTN("Left"), "x", BTN("Left"), BTN("Right")])], ("c",), 1, 2),
            # a cancel-on-press key released normally next to a longer plain macro and a plain key
            ("stale_pc", [("a", "macro-repeat-cancel-on-press", ["a"]), ("b", "macro", [G(S, "g", 2, "h")])], ("c",), 2, 1),
            ("shared_key", [("a", "macro-release-cancel", ["a", MK(S, "b"), "a"])], (("c", "a", "a"),), 2, 2),
            ("plain_grp2", [("a", "macro", [G(S, "a", 3, "b"), "a"])], ("c",), 2, 2),
            ("rep_vkey3", [(("vk", "v1", {"tg": "a", "pk": "b", "rk": "c"}), "macro-repeat", ["x", 1, "b"])], (), 2, 2),
            ("ring", [("a", "macro", [G(S, "a", 3, "b"), 3])], (), 4, 2),
        ]
        for i in range(6):
            F.append(("rnd%d" % i, [("a", rng.choice(sorted(VARIANTS)), rand_body(rng, 4, 2))], ("c",), 2, 2))
    else:
        F.append(("rnd0", [("a", rng.choice(sorted(VARIANTS)), rand_body(rng, 3, 1))], ("c",), 2, 2))
    return F


def rand_body(rng, nmax, depth):
    """bodies from the macro grammar over keys {a, b}, modifier lsft (lctl), delays {1,2,3}"""
    def item(d):
        r = rng.random()
        if r < 0.4:
            return rng.choice(["a", "b"])
        if r < 0.55:
            return rng.choice([1, 2, 3])
        if r < 0.7:
            return MK(rng.choice([S, S, ["lctl", "lsft"]]), rng.choice(["a", "b"]))
        if d <= 0:
            return rng.choice(["a", "b"])
        sub = [item(d - 1) for _ in range(rng.randint(1, 3))]
        return G(rng.choice([S, S, [], C]), *sub)
    body = [item(depth) for _ in range(rng.randint(1, nmax))]
    if all(isinstance(i, int) for i in body):
        body.append("a")
    return body


# ---- (1) compile check -------------------------------------------------------------------------------
GEN_TLA = r'''---- MODULE C08Gen ----
EXTENDS P_C08, Json
KA == %(a)d
KB == %(b)d
A0 == {[t |-> "k", k |-> KA], [t |-> "k", k |-> KB], [t |-> "d", n |-> 1], [t |-> "b", btn |-> "Left"], [t |-> "u", ch |-> "q"]}
A0r == {[t |-> "k", k |-> KA], [t |-> "d", n |-> 2]}
SeqsUpTo(X, n) == UNION {[1..k -> X] : k \in 1..n}
Mods == {<<%(s)d>>, <<%(c)d, %(s)d>>}
Groups(X, n) == {[t |-> "m", mods |-> ms, items |-> its] : ms \in Mods, its \in SeqsUpTo(X, n)}
                  \cup {[t |-> "l", items |-> its] : its \in SeqsUpTo(X, n)}
A1 == A0 \cup Groups(A0, 2)
A1r == A0r \cup Groups(A0r, 2)
Bodies == SeqsUpTo(A1, 2) \cup {<<g>> : g \in Groups(A1r, 2)} %(more)s
ASSUME \A b \in Bodies : PrintT(<<"BODY", ToJson(b)>>)
VARIABLE x
Init == x = 0
Next == x' = x
====
'''
CMP_TLA = r'''---- MODULE C08Cmp ----
EXTENDS P_C08, Json, IOUtils
Cases == ndJsonDeserialize(IOEnv.CASES)
\* the parser's action for a macro: a sequence, or multi(sequence, custom(cancel triggers))
FlagsOk(c) == /\ c.rseq = c.rep
              /\ c.has_rc = c.rc
              /\ c.has_pc = c.pc
ASSUME \A i \in DOMAIN Cases :
          (EvsMatch(Cases[i].body, Cases[i].evs) /\ FlagsOk(Cases[i])) \/ PrintT(<<"CMIS", ToJson([i |-> i])>>)
ASSUME PrintT(<<"CCOUNT", ToJson([n |-> Len(Cases)])>>)
VARIABLE x
Init == x = 0
Next == x' = x
====
'''


def compile_check(res, tier, rng, wd):
    """TLC enumerates the body grammar; the parser's event lists are compared by TLC with MacroExpand.
    Returns the mismatching cases (each later judged on the running code)."""
    names = {cfgdesc.code(n): n for n in ("a", "b", "lsft", "lctl")}
    more = ""
    if tier != "quick":
        more = r"\cup {<<x, y, z>> : x \in A0, y \in Groups(A0, 2), z \in A0}"
    with open(os.path.join(wd, "C08Gen.tla"), "w") as f:
        f.write(GEN_TLA % {"a": cfgdesc.code("a"), "b": cfgdesc.code("b"), "s": cfgdesc.code("lsft"),
                           "c": cfgdesc.code("lctl"), "more": more})
    open(os.path.join(wd, "C08Gen.cfg"), "w").write("INIT Init\nNEXT Next\n")
    r = run_tlc(wd, "C08Gen", workers=4, timeout=600, heap="4g")
    if r["rc"] != 0:
        raise ToolError("C08Gen failed: %s (see %s)" % (r["error"], r["out"]))
    bf = os.path.join(wd, "c08_bodies.ndjson")
    n = extract_prints(r["out"], "BODY", bf)
    bodies = [json.loads(l) for l in open(bf) if l.strip()]
    if n < 1000:
        raise ToolError("C08Gen enumerated only %d bodies" % n)
    vnames = sorted(VARIANTS)
    cases = []
    chunk = 600
    for ci in range(0, len(bodies), chunk):
        part = bodies[ci:ci + chunk]
        lines = ["(defsrc a)", "(deflayer l0 a)", "(defvirtualkeys"]
        vs = []
        for j, b in enumerate(part):
            v = vnames[(ci + j) % len(vnames)]
            vs.append(v)
            lines.append("  v%d (%s %s)" % (j, v, " ".join(json_item_to_text(it, names) for it in b)))
        lines.append(")")
        dump, _ = dump_cfg("\n".join(lines) + "\n", [cfgdesc.code("a")], wd, "c08_compile_%d" % (ci // chunk))
        fake = dump["layers"][0]["fake"]
        if len(fake) != len(part):
            raise ToolError("compile check: %d virtual keys dumped for %d macros" % (len(fake), len(part)))
        for j, b in enumerate(part):
            a = dump["acts"][fake[j] - 1]
            cu = []
            if a["t"] == "multi":
                subs = [dump["acts"][i - 1] for i in a["acs"]]
                seqs = [x for x in subs if x["t"] in ("seq", "rseq")]
                cu = [c for x in subs if x["t"] == "custom" for c in x["cu"]]
                a = seqs[0] if len(seqs) == 1 else {"t": "none", "evs": []}
            rep, rc, pc = VARIANTS[vs[j]]
            cases.append({"body": b, "evs": a.get("evs", []), "rseq": a["t"] == "rseq", "rep": rep, "rc": rc, "pc": pc,
                          "has_rc": any(c["c"] == "cancel_macro_rel" for c in cu),
                          "has_pc": any(c["c"] == "cancel_macro_press" for c in cu),
                          "variant": vs[j], "text": lines[3 + j].strip()})
    cf = os.path.join(wd, "c08_cases.ndjson")
    with open(cf, "w") as f:
        for c in cases:
            f.write(json.dumps(c) + "\n")
    with open(os.path.join(wd, "C08Cmp.tla"), "w") as f:
        f.write(CMP_TLA)
    open(os.path.join(wd, "C08Cmp.cfg"), "w").write("INIT Init\nNEXT Next\n")
    r = run_tlc(wd, "C08Cmp", workers=1, timeout=900, heap="4g", env_extra={"CASES": cf})
    if r["rc"] != 0:
        raise ToolError("C08Cmp failed: %s (see %s)" % (r["error"], r["out"]))
    mf = os.path.join(wd, "c08_cmis.ndjson")
    extract_prints(r["out"], "CMIS", mf)
    cnt = os.path.join(wd, "c08_ccount.ndjson")
    if extract_prints(r["out"], "CCOUNT", cnt) != 1 or json.loads(open(cnt).read())["n"] != len(cases):
        raise ToolError("C08Cmp did not consume all cases")
    mis = [cases[json.loads(l)["i"] - 1] for l in open(mf) if l.strip()]
    res.extra["compile_check"] = {"bodies_enumerated_by_tlc": len(bodies), "compared": len(cases), "mismatches": len(mis)}
    res.samples.append({"compile_case": cases[rng.randrange(len(cases))]["text"], "events_match_MacroExpand": True})
    return mis


# ---- scripts beyond the model's bounds ----------------------------------------------------------------
def burst_job(n, gap, b1=True, late=()):
    """n macro keys with pairwise disjoint output keys, each M-(k <delay> k'), pressed `gap` ticks apart; the first
    four are plain macros that are tapped, `late` gives the variants of the 5th, 6th key (default plain), which are
    held for a while when they repeat (a macro beyond the documented capacity may start once there is room)"""
    phys = ["a", "b", "c", "d", "e", "f"][:n]
    mods = ["lsft", "lctl", "lalt", "lmet", "rsft", "rctl"]
    outs = [("g", "h"), ("i", "j"), ("k", "l"), ("m", "n"), ("o", "p"), ("q", "r")]   # (digits would be delays)
    var = ["macro"] * 4 + list(late) + ["macro"] * 2
    macros = [(phys[i], var[i], [G([mods[i]], outs[i][0], 30, outs[i][1])]) for i in range(n)]
    desc, params = make(macros, plain=(), b1=b1)
    s, held = [], []
    for i, k in enumerate(phys):
        if VARIANTS[var[i]][0]:
            s += [["d", cfgdesc.code(k)], ["t", 2 * gap]]
            held.append(k)
        else:
            s += [["d", cfgdesc.code(k)], ["t", gap], ["u", cfgdesc.code(k)], ["t", gap]]
    s.append(["t", 70])
    for k in held:
        s += [["u", cfgdesc.code(k)], ["t", 3]]
    s.append(["t", 120])
    tag = "burst%d_g%d%s" % (n, gap, "".join("_" + "".join(w[0] for w in v.split("-")) for v in late))
    return {"cfg": cfgdesc.render_kbd(desc), "params": params, "tag": tag, "scripts": [s]}


def stale_window_jobs(quick):
    """a cancel-on-press key used and released normally must not leave its trigger armed: a long plain macro B that
    runs meanwhile survives a later press of an unrelated key (hold time h, pause w before that press)"""
    jobs = []
    A, B, Cc = cfgdesc.code("a"), cfgdesc.code("b"), cfgdesc.code("c")
    for v in sorted(VARIANTS):
        if not VARIANTS[v][2]:
            continue
        desc, params = make([("a", v, ["a", 1]), ("b", "macro", [G(S, "g", 40, "h"), "g"])], ("c",))
        scripts = []
        for h in ((1, 4) if quick else (1, 2, 4, 9)):
            for w in ((3, 12) if quick else (1, 3, 6, 12, 25)):
                scripts.append([["d", B], ["t", 2], ["u", B], ["t", 2], ["d", A], ["t", h], ["u", A], ["t", w],
                                ["d", Cc], ["t", 2], ["u", Cc], ["t", 80]])
        jobs.append({"cfg": cfgdesc.render_kbd(desc), "params": params, "tag": "stale:" + v, "scripts": scripts})
    return jobs


def cancel_sweep(kbd, params, mkey, other, variant, span):
    """cancellation at every step index: the cancelling input arrives after t = 0..span ticks"""
    rep, rc, pc = VARIANTS[variant]
    out = []
    for t in range(span):
        if rc or rep:
            out.append([["d", mkey], ["t", t], ["u", mkey], ["t", 3 * span]])
            if other != mkey:    # the same with another key held all the while, and released in the middle
                out.append([["d", other], ["t", 2], ["d", mkey], ["t", t], ["u", mkey], ["t", 3 * span], ["u", other], ["t", 5]])
        if other != mkey:        # another key is down before the macro starts and goes up at every step index
            out.append([["d", other], ["t", 2], ["d", mkey], ["t", t], ["u", other], ["t", 2], ["u", mkey], ["t", 3 * span]])
        if pc:
            out.append([["d", mkey], ["t", t], ["d", other], ["t", 2], ["u", other], ["u", mkey], ["t", 3 * span]])
    return out


MODEL_MUTANTS = (("seq_delay_short", "plain_grp", "C08 D1", 1), ("seq_delay_is_step", "plain_grp", "C08 S1", 1),
                 ("cancel_keeps_fk", "relc_grp", "C08 C2", 1),
                 # the behaviours before the fix commits a8a26da / 345be8d of /repo
                 # (Layout.tla also has Bug = "seq_ring_wraps"; showing E1 with it needs 5 macros with pairwise disjoint
                 # keys, which is driven on the code by the bursts and by mutants/c08_revert_ring_full.diff instead)
                 ("idle_ignores_prev", "relc_grp", "C08 B1", 1))


def model_mutants(res, fam, wd):
    """meta-check (DESIGN 3.4): L1 with a seeded design error must be rejected by P_C08 in TLC"""
    byname = {f[0]: f for f in fam}
    out = []
    for bug, name, rule, sb in MODEL_MUTANTS:
        _, macros, plain, seqb, qmax = byname[name]
        desc, params = make(macros, plain)
        inst = {"name": "c08mm_" + bug, "kbd": cfgdesc.render_kbd(desc), "keys": [cfgdesc.code(k) for k in desc["keys"]],
                "qmax": qmax, "bug": bug, "monitor": {"module": "P_C08", "params": params}, "invariants": [],
                "constraint": "SeqBound",
                "extra_defs": "SeqBound == mon.err # \"\" \\/ (Len(K.L.seqs) <= %d /\\ mon.nreg <= 5)" % sb}
        r = mc.check_instance(inst, wd, workers=8, timeout=900, replay=False)
        hits = sum(1 for l in open(r["monerr_file"]) if rule in l)
        if hits == 0:
            raise ToolError("model mutant %s is not rejected by P_C08 (%s expected)" % (bug, rule))
        out.append({"bug": bug, "instance": name, "rule": rule, "witnesses": hits})
    res.extra["model_mutants_rejected"] = out


def run(tier, seed):
    res = flow.Result(PID, tier, seed)
    rng = random.Random(seed)
    wd = workdir("c08")
    quick = tier == "quick"
    witness_jobs, random_jobs = [], []

    # (1) compile check; a mismatch is judged on the running code below
    mis = compile_check(res, tier, rng, wd)
    for c in mis[:40]:
        kbd = "(defsrc a c)\n(deflayer l0 %s y)\n" % c["text"].split(" ", 1)[1]
        pm = {"macros": [{"c": cfgdesc.code("a"), "rep": c["rep"], "rc": c["rc"], "pc": c["pc"], "body": c["body"]}],
              "cap": 4, "b1": True}
        A, Cc = cfgdesc.code("a"), cfgdesc.code("c")
        scripts = [[["d", A], ["t", 40], ["u", A], ["t", 40]], [["d", A], ["t", 1], ["u", A], ["t", 60]],
                   [["d", A], ["t", 3], ["d", Cc], ["t", 2], ["u", Cc], ["u", A], ["t", 60]]]
        witness_jobs.append({"cfg": kbd, "params": pm, "tag": "cm:" + c["text"][:60], "scripts": scripts})
    if mis:
        res.notes.append("compile check: %d parser event lists differ from MacroExpand, e.g. %s" % (len(mis), mis[0]["text"]))

    # (2) L1 || P_C08 exhaustively, every transition replayed on the code
    fam = family(tier, rng)
    if not quick:
        model_mutants(res, fam, wd)
    for name, macros, plain, seqb, qmax in fam:
        desc, params = make(macros, plain)
        kbd = cfgdesc.render_kbd(desc)
        keys = [cfgdesc.code(k) for k in desc["keys"]]
        inst = {"name": "c08_" + name, "kbd": kbd, "keys": keys, "qmax": qmax,
                "monitor": {"module": "P_C08", "params": params}, "invariants": [],
                # idle-tick / history ages are not used by these configurations: a fixed cap (the default is derived
                # from the largest number the parser hands out, which a broken parser can make huge)
                "caps": {"age": 50},
                # at most `seqb` macros running together and at most 4 (ring instance: 5) started without an idle
                # point in between in the exhaustive instances (bursts of 5-6 are also driven on the code below)
                "constraint": "SeqBound",
                "extra_defs": "SeqBound == mon.err # \"\" \\/ (Len(K.L.seqs) <= %d /\\ mon.nreg <= %d /\\ K.mcd <= 100)"
                              % (seqb, 5 if seqb >= 4 else 4)}     # (K.mcd: a parser that hands out a huge cancel-on-press
                                                                   # window must not make the graph endless; bodies last < 100 ticks)
        r = mc.check_instance(inst, wd, workers=8, timeout=1500 if quick else 3000)
        res.add_instance(r)
        log("[c08] %s: %s states, %s edges, drift %s, monerr %s, %.0fs" %
            (name, r["states"], r.get("edges"), r.get("drift"), r["n_monerr"], r["wall_s"]))
        if len(res.samples) < 4:
            res.samples.append({"instance": name, "kbd": kbd, "states": r["states"], "edges": r.get("edges")})
        ws = flow.witness_scripts(r["monerr_file"], 40) + flow.witness_scripts(r["panic_file"], 10)
        scripts = [flow.hist_to_script(w["h"], 40) for w in ws] + \
                  [flow.hist_to_script(d["h"], 40) for d in r.get("drift_samples", [])]
        if scripts:
            witness_jobs.append({"cfg": kbd, "params": params, "tag": "w:" + name, "scripts": scripts})
        # random histories and a cancellation sweep, beyond the bounds (long, >2 concurrent)
        n = 25 if quick else 150
        scripts = [rand_history(rng, keys, rng.randint(4, 30 if quick else 120), [0, 0, 1, 1, 2, 3, 5, 12], tail=60)
                   for _ in range(n)]
        other = keys[-1] if len(keys) > 1 else keys[0]
        for (k, variant, body) in macros:
            if not isinstance(k, tuple):
                scripts += cancel_sweep(kbd, params, cfgdesc.code(k), other, variant, 14)
        random_jobs.append({"cfg": kbd, "params": params, "tag": "r:" + name, "scripts": scripts})

    # (3) more macros than the ring holds: 4 (fits), 5 and 6 concurrent macros with disjoint keys
    # (every variant as the activation beyond the capacity: the plain and the repeating start sites)
    burst_jobs = [burst_job(4, 2), burst_job(5, 2), burst_job(6, 1), burst_job(5, 4),
                  burst_job(5, 2, late=("macro-repeat",)), burst_job(5, 3, late=("macro-repeat-cancel-on-press",)),
                  burst_job(6, 2, late=("macro-repeat-release-cancel", "macro-repeat")),
                  burst_job(6, 1, late=("macro", "macro-repeat-release-cancel-and-cancel-on-press"))]
    if not quick:
        burst_jobs += [burst_job(n, g) for n in (4, 5, 6) for g in (1, 3, 5)]
        burst_jobs += [burst_job(5, g, late=(v,)) for v in sorted(VARIANTS) for g in (1, 2, 4)]
        burst_jobs += [burst_job(6, g, late=(v, w)) for v in ("macro", "macro-repeat") for w in sorted(VARIANTS) for g in (1, 3)]
    burst_jobs += stale_window_jobs(quick)

    suppressed = 0
    for label, jobs in (("witness", witness_jobs), ("random", random_jobs), ("burst", burst_jobs)):
        if not jobs:
            continue
        jobs = shard_local_index(jobs)
        errs, trace = record_and_validate(res, "P_C08", jobs, wd, "c08_" + label)
        for e in errs:
            j, s = script_of(jobs, e["job"], 0)
            if len(res.violations) >= MAX_REPLAYS and SIG_ORDER not in e["err"]:
                suppressed += 1
                continue
            flow.classify(res, PID, e["err"], e["err"] + " cfg=" + j["cfg"],
                          {"property": PID, "cfg": j["cfg"], "params": j["params"], "script": s, "err": e["err"],
                           "monitor": "P_C08"},
                          "%s_%d" % (label, len(res.violations)))
        if label == "random":
            res.samples.append({"random_history": jobs[0]["scripts"][0][:30], "cfg": jobs[0]["cfg"]})
        if label == "burst":
            res.samples.append({"burst": jobs[1]["scripts"][0][:24], "cfg": jobs[1]["cfg"],
                                "rejected": [e["err"] for e in errs][:4]})
    if suppressed:
        res.notes.append("%d further rejected traces not written as replay files (limit %d)" % (suppressed, MAX_REPLAYS))
    return flow.finish(
        res, "model_checking",
        "TLC enumerates the macro-body grammar and compares the parser's event list of every body with P_C08!MacroExpand; "
        "TLC explores L1||P_C08 for every physically consistent schedule over 1-2 macro keys and a plain key per "
        "variant/body instance (<=2-3 pending inputs, every gap, hence cancellation at every step index); every model "
        "transition is replayed on the real code; model-level counterexamples, random schedules, a cancellation sweep and "
        "bursts of 4-6 concurrent macros are recorded from the code and validated by TLC against P_C08.",
        assumptions=["deterministic stepper", "macro output keys are disjoint from the plain keys' outputs",
                     "exhaustive instances hold at most 2-4 macros running together (bursts beyond on the code)",
                     "queued inputs are processed one per tick (DESIGN App. A) for the tick at which a cancellation takes effect"])
