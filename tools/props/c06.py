"""C06 - one-shot applies to exactly the next key, or expires; it never lingers."""
from props.common import *
import os

VAR = {"press": "one-shot-press", "release": "one-shot-release",
       "press-pcancel": "one-shot-press-pcancel", "release-pcancel": "one-shot-release-pcancel"}
K = lambda k: {"t": "key", "k": k}


def make(variant, T, red, kind="key", nos=1, keys=("a", "b", "c"), T2=None, extra=None):
    """T2: timeout of the second one-shot key when it differs from the first one's
    extra: further physical keys {name: action} that are not tracked as plain keys by the monitor (macros ...)"""
    oskeys = list(keys[:nos])
    others = list(keys[nos:])
    outs = {"b": "y", "c": "z", "d": "1"}
    osact = {"a": (K("lsft"), ["lsft"]), "b": (K("lctl"), ["lctl"])}
    if kind == "chord":
        osact["a"] = ({"t": "chord", "mods": ["lctl"], "k": "lalt"}, ["lctl", "lalt"])
    layer = {}
    tof = {k: (T2 if (T2 is not None and i == 1) else T) for i, k in enumerate(oskeys)}
    for k in oskeys:
        layer[k] = {"t": "os", "variant": VAR[variant], "timeout": tof[k], "a": osact[k][0]}
    for k in others:
        layer[k] = K(outs[k])
    for k, a in (extra or {}).items():
        layer[k] = a
    desc = {"keys": list(keys) + list(extra or {}), "layers": [layer], "defcfg": {"rapid-event-delay": red}}
    params = {"oskeys": [{"c": cfgdesc.code(k), "qs": [cfgdesc.code(q) for q in osact[k][1]], "T": tof[k]} for k in oskeys],
              "variant": variant, "T": max(tof.values()), "red": red,
              "others": [{"c": cfgdesc.code(k), "o": cfgdesc.code(outs[k])} for k in others]}
    return desc, params


def family(tier):
    F = []
    if tier == "quick":
        # (the T3 / two-equal-timeout instances of the earlier quick family live in the thorough tier)
        combos = [("press", 2, 1, "key", 1), ("release", 3, 1, "key", 1), ("press-pcancel", 2, 1, "key", 1),
                  ("release-pcancel", 2, 0, "key", 1), ("press", 2, 2, "chord", 1)]
    else:
        combos = [(v, T, r, "key", 1) for v in VAR for T in (2, 4) for r in (0, 2)] + \
                 [(v, 3, 1, "chord", 1) for v in VAR] + [(v, 3, 1, "key", 2) for v in VAR] + \
                 [("press", 4, 5, "key", 1), ("release", 4, 5, "key", 1), ("release", 5, 1, "key", 1), ("release-pcancel", 5, 1, "key", 1)]
    for (v, T, r, kind, nos) in combos:
        keys = ("a", "b", "c")
        name = "%s_T%d_r%d_%s_n%d" % (v.replace("-", ""), T, r, kind, nos)
        F.append((name, make(v, T, r, kind, nos, keys)))
    # two one-shot keys with DIFFERENT timeouts: the timeout in force is the one of the key tapped last
    two = [("press", 4, 2)] if tier == "quick" else [("press", 4, 2), ("release", 4, 2), ("press", 2, 4), ("press-pcancel", 4, 2)]
    for (v, Ta, Tb) in two:
        F.append(("%s_T%d_T%d_r1_key_n2" % (v.replace("-", ""), Ta, Tb), make(v, Ta, 1, "key", 2, ("a", "b", "c"), T2=Tb)))
    return F


def directed_scripts(params, keys):
    """Multi-step scenarios at a realistic timeout (not reachable within the small timeouts of the exhaustive instances)."""
    T = params["T"]
    os_ = params["oskeys"][0]["c"]
    x, y = [o["c"] for o in params["others"]][:2]
    tap = lambda k, g=1: [["d", k], ["t", g], ["u", k], ["t", g]]
    S = []
    # a key pressed during a one-shot that then EXPIRES stays held; a later one-shot must not end on its release
    S.append(tap(os_) + [["d", x], ["t", T + 10]] + tap(os_) + [["u", x], ["t", 1]] + tap(y) + [["t", 2 * T]])
    # a one-shot key tapped, pressed again and held acts as the plain key while held
    S.append(tap(os_) + [["d", os_], ["t", 2]] + tap(x) + tap(y) + [["t", 3], ["u", os_], ["t", 2 * T]])
    S.append(tap(os_) + [["t", max(T - 8, 0)]] + tap(x) + tap(y) + [["t", 2 * T]])
    S.append(tap(os_) + tap(os_) + tap(x) + tap(y) + [["t", 2 * T]])
    # the release of a key pressed BEFORE the activation does not end a release-variant one-shot
    S.append([["d", x], ["t", 3]] + tap(os_) + [["u", x], ["t", 1]] + tap(y) + [["t", 2 * T]])
    S.append(tap(os_) + [["d", x], ["t", 1], ["d", y], ["t", 1], ["u", x], ["t", 1], ["u", y], ["t", 1]] + tap(x) + [["t", 2 * T]])
    S.append(tap(os_) + [["t", T + 3]] + tap(x) + [["t", 2 * T]])
    S.append(tap(os_) + [["d", x], ["t", T + 10], ["u", x], ["t", 2]] + tap(os_) + tap(y) + tap(x) + [["t", 2 * T]])
    # the next key arrives on the last ticks before the timeout: the one-shot ends at its timeout at the latest (O8)
    for g in (T - 4, T - 3, T - 2):
        S.append(tap(os_) + [["t", max(g - 2, 0)]] + tap(x, 3) + [["t", 2 * T]])
    # more than 16 stacked activations, every tap in step with the ticks (the 16-entry table wraps): still active, the
    # next key is modified, the key after it is not
    if params["variant"] in ("press", "release"):
        for n in (16, 17, 18, 25):
            sc = []
            for _ in range(n):
                sc += tap(os_)
            S.append(sc + tap(x, 2) + tap(y, 2) + [["t", 2 * T]])
    return S


def run(tier, seed):
    pid = "C06"
    res = flow.Result(pid, tier, seed)
    rng = random.Random(seed)
    wd = workdir("c06")
    jobs_random, witness_jobs = [], []
    fam = [] if os.environ.get("KVERIF_C06_RECORDED_ONLY") else family(tier)   # (debugging aid: skip the TLC instances)
    for name, (desc, params) in fam:
        kbd = cfgdesc.render_kbd(desc)
        keys = [cfgdesc.code(k) for k in desc["keys"]]
        inst = {"name": "c06_" + name, "kbd": kbd, "keys": keys, "qmax": 3 if len(params["oskeys"]) == 1 else 2,
                "monitor": {"module": "P_C06", "params": params},
                # re-pressing a one-shot key stacks coordinates up to the 16-entry ring; the exhaustive
                # instances stop at 3 stacked entries (bursts beyond are driven on the real code below)
                "constraint": "OsBound",
                "extra_defs": "OsBound == Len(K.L.os.keys) <= 3 /\\ Len(K.L.os.other) <= 3 /\\ Len(K.L.os.released) <= 3"}
        r = mc.check_instance(inst, wd, workers=12, timeout=1500)
        res.add_instance(r)
        if len(res.samples) < 3:
            res.samples.append({"instance": name, "kbd": kbd, "states": r["states"], "edges": r.get("edges")})
        ws = flow.witness_scripts(r["monerr_file"], 30) + flow.witness_scripts(r["panic_file"], 10)
        scripts = [flow.hist_to_script(w["h"], 8) for w in ws] + \
                  [flow.hist_to_script(d["h"], 8) for d in r.get("drift_samples", [])]
        if scripts:
            witness_jobs.append({"cfg": kbd, "params": params, "tag": "w:" + name, "scripts": scripts})
        n = 30 if tier == "quick" else 200
        T = params["T"]
        scripts = [rand_history(rng, keys, rng.randint(4, 40 if tier == "quick" else 200),
                                [0, 1, 1, max(T - 1, 0), T, T + 1, 3 * T], tail=80) for _ in range(n)]
        # more than 16 stacked one-shots: tap the one-shot key 20 times in a row, then a plain key
        osk = params["oskeys"][0]["c"]
        burst = []
        for _ in range(20):
            burst += [["d", osk], ["u", osk], ["t", 1]]
        burst += [["d", keys[-1]], ["t", 2], ["u", keys[-1]], ["t", 100]]
        scripts.append(burst)
        jobs_random.append({"cfg": kbd, "params": params, "tag": "r:" + name, "scripts": scripts})
    # realistic timeouts (recorded traces only): directed multi-step scenarios + random schedules, every variant
    for v in VAR:
        for kind in ("key", "chord"):
            desc, params = make(v, 40, 1, kind, 1)
            kbd = cfgdesc.render_kbd(desc)
            keys = [cfgdesc.code(k) for k in desc["keys"]]
            scripts = directed_scripts(params, keys)
            scripts += [rand_history(rng, keys, rng.randint(6, 40), [0, 1, 2, 5, 39, 40, 41, 80], tail=120)
                        for _ in range(20 if tier == "quick" else 200)]
            jobs_random.append({"cfg": kbd, "params": params, "tag": "T40:%s:%s" % (v, kind), "scripts": scripts})
    # default rapid-event-delay and a macro as the key that follows: other keys end a one-shot early, they never prolong it
    digits = "q w e r t u i o p g "
    for v in VAR:
        desc, params = make(v, 40, 5, "key", 1, ("a", "b", "c"),
                            extra={"d": {"t": "raw", "text": "(macro " + digits * 3 + ")"}, "e": {"t": "raw", "text": "(macro q w e)"}})
        kbd = cfgdesc.render_kbd(desc)
        keys = [cfgdesc.code(k) for k in desc["keys"]]
        a_, b_, c_, d_, e_ = keys
        tap = lambda k, g=1: [["d", k], ["t", g], ["u", k], ["t", g]]
        scripts = directed_scripts(params, keys[:3])
        scripts += [tap(a_) + tap(d_) + [["t", 150]] + tap(b_) + [["t", 100]],
                    tap(a_) + [["t", 30]] + tap(e_) + [["t", 3]] + tap(d_) + [["t", 150]],
                    tap(a_) + tap(e_) + tap(b_) + [["t", 100]],
                    tap(a_) + [["t", 34]] + tap(d_) + [["t", 150]]]
        scripts += [rand_history(rng, keys, rng.randint(6, 30), [0, 1, 2, 5, 6, 36, 39, 40, 41, 80], tail=150)
                    for _ in range(15 if tier == "quick" else 150)]
        jobs_random.append({"cfg": kbd, "params": params, "tag": "T40r5:%s" % v, "scripts": scripts})
    for v in VAR:
        desc, params = make(v, 60, 1, "key", 2, ("a", "b", "c"), T2=20)
        kbd = cfgdesc.render_kbd(desc)
        keys = [cfgdesc.code(k) for k in desc["keys"]]
        a_, b_, c_ = keys
        tap = lambda k: [["d", k], ["t", 1], ["u", k], ["t", 1]]
        scripts = [tap(a_) + tap(b_) + [["t", 30]] + tap(c_) + [["t", 150]],          # long then short: expires with the short one
                   tap(b_) + tap(a_) + [["t", 30]] + tap(c_) + [["t", 150]],          # short then long: still active
                   tap(a_) + [["t", 30]] + tap(b_) + [["t", 15]] + tap(c_) + [["t", 150]]]
        scripts += [rand_history(rng, keys, rng.randint(6, 30), [0, 1, 2, 19, 20, 21, 59, 60, 61], tail=150)
                    for _ in range(15 if tier == "quick" else 150)]
        jobs_random.append({"cfg": kbd, "params": params, "tag": "T60_20:%s" % v, "scripts": scripts})
    # the documented short spellings of the variant keywords denote the same variants (the monitor's parameters come
    # from the description, so a keyword mapped to another variant is rejected)
    jobs_random += spelling_twins(jobs_random)
    for label, jobs in (("witness", witness_jobs), ("random", jobs_random)):
        if not jobs:
            continue
        jobs = shard_local_index(jobs)
        errs, trace = record_and_validate(res, "P_C06", jobs, wd, "c06_" + label)
        for e in errs:
            j, s = script_of(jobs, e["job"], 0)
            flow.classify(res, pid, e["err"], e["err"] + " cfg=" + j["cfg"],
                          {"property": pid, "cfg": j["cfg"], "params": j["params"], "script": s, "err": e["err"],
                           "monitor": "P_C06"},
                          "%s_%d" % (label, len(res.violations)))
        if label == "random":
            res.samples.append({"random_history": jobs[0]["scripts"][0][:30], "cfg": jobs[0]["cfg"]})
    return flow.finish(
        res, "model_checking",
        "TLC explores L1||P_C06 for every physically consistent schedule over 1-2 one-shot keys and 2 plain keys "
        "(<=3 pending, every gap) per end-variant/timeout/rapid-event-delay instance; every model transition is replayed "
        "on the real code; random schedules (gaps around T) and a 20-fold stacked one-shot burst are recorded from the "
        "code and validated by TLC against P_C06.",
        assumptions=["deterministic stepper", "one-shot stack bounded to 3 entries in the exhaustive instances",
                     "one-shot actions use otherwise-unused modifier keys"])
