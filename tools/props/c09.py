"""C09 - input chords fire for exactly the pressed key set, in any press order (defchords v1, defchordsv2)."""
import itertools
from props.common import *

K = lambda k: {"t": "key", "k": k}
IND = {"a": "x", "b": "y", "c": "z", "d": "q", "e": "w", "f": "v"}        # individual outputs (distinct, otherwise unused)
CHO = ["1", "2", "3", "4"]                                       # chord outputs


def make_v1(T, singles, chords, plain=(), red=1, twin=None, layered=None, probe=None):
    """singles: chord keys with a single-key chord; chords: list of key-name tuples (>= 2 keys); plain: non-chord keys;
    twin: {physical key: chord key} - further physical keys that carry the chord key of another key (lsft and rsft both
    `(chord g s)`): P_C09 is told from the configuration text that either physical key stands for the chord key."""
    twin = twin or {}
    # layered: {chord index: "multi" | "lmulti"}: the chord's action is (multi <key> (layer-while-held l1)) /
    # (multi (layer-while-held l1) <key>)  (an output chord C-<key> is not used: it is released at the next action by
    # design, NormalKeyFlags::CLEAR_ON_NEXT_ACTION, so the probe key itself would end it); probe: (plain key, its output on layer l1) - the key that shows the layer
    layered = layered or {}
    cact = lambda i: {None: CHO[i], "multi": "(multi %s (layer-while-held %s))" % (CHO[i], cfgdesc.lname(1)),
                      "lmulti": "(multi (layer-while-held %s) %s)" % (cfgdesc.lname(1), CHO[i])}[layered.get(i)]
    ckeys = sorted(set(k for ch in chords for k in ch) | set(singles))
    keys = ckeys + sorted(twin) + list(plain)
    layer = {k: {"t": "chordv1", "group": "g", "key": k} for k in ckeys}
    for k, ck in twin.items():
        layer[k] = {"t": "chordv1", "group": "g", "key": ck}
    for k in plain:
        layer[k] = K(IND[k])
    entries = ["(%s) %s" % (k, IND[k]) for k in singles] + \
              ["(%s) %s" % (" ".join(ch), cact(i)) for i, ch in enumerate(chords)]
    layers = [layer] + ([{probe[0]: K(probe[1])}] if probe else [])
    desc = {"keys": keys, "layers": layers, "defcfg": {"rapid-event-delay": red},
            "extra": ["(defchords g %d %s)" % (T, " ".join(entries))]}
    params = {"ver": 1, "T": T,
              "keys": [{"c": cfgdesc.code(k), "o": cfgdesc.code(IND[k]) if (k in singles or k in plain) else 0,
                       "ol": cfgdesc.code(probe[1]) if probe and k == probe[0] else 0} for k in keys if k not in twin],
              "part": [cfgdesc.code(k) for k in ckeys],
              "chords": [{"ks": sorted(cfgdesc.code(k) for k in ch), "o": cfgdesc.code(CHO[i]), "u": "", "T": T,
                          "first": False, "dis": [], "ly": i in layered} for i, ch in enumerate(chords)],
              "same": [{"c": cfgdesc.code(k), "k": cfgdesc.code(ck)} for k, ck in sorted(twin.items())],
              "red": red, "minidle": 0, "lkey": 0, "slack": 2 * red + 10}
    return desc, params


def make_v2(chords, keys, red=1, minidle=5, lkey=None):
    """chords: list of (key names, T, 'all'|'first', disabled layers, None | 'r' (the action is (unicode r)) |
    '+r' (the action is (multi <key> (unicode r)): the key shows the hold, the character every performance))."""
    ind = lambda k: IND.get(k, k)       # keys beyond a-f (large tables) deliver themselves
    # the chord output key of entry i: the chords whose action is only a unicode character do not use one
    cho = lambda i: CHO[sum(1 for ch in chords[:i] if not (ch[4] and ch[4][0] != "+"))]
    layer = {k: K(ind(k)) for k in keys}
    layers = [layer]
    allkeys = list(keys)
    if lkey:
        layer[lkey] = {"t": "lwh", "l": 1}
        layers.append({})          # layer 1: everything transparent
        allkeys.append(lkey)
    ent = []
    for i, (ks, T, rel, dis, uni) in enumerate(chords):
        act = cho(i) if not uni else "(unicode %s)" % uni if uni[0] != "+" else "(multi %s (unicode %s))" % (cho(i), uni[1:])
        ent.append("(%s) %s %d %s (%s)" % (" ".join(ks), act, T,
                                            "first-release" if rel == "first" else "all-released",
                                            " ".join(cfgdesc.lname(l) for l in dis)))
    desc = {"keys": allkeys, "layers": layers,
            "defcfg": {"concurrent-tap-hold": "yes", "rapid-event-delay": red, "chords-v2-min-idle": minidle},
            "extra": ["(defchordsv2 %s)" % " ".join(ent)]}
    part = sorted(set(k for ch in chords for k in ch[0]))
    params = {"ver": 2, "T": 0,
              "keys": [{"c": cfgdesc.code(k), "o": cfgdesc.code(ind(k)), "ol": 0} for k in keys],
              "part": [cfgdesc.code(k) for k in part],
              "chords": [{"ks": sorted(cfgdesc.code(k) for k in ks),
                          "o": 0 if (uni and uni[0] != "+") else cfgdesc.code(cho(i)),
                          "u": (uni or "").lstrip("+"), "T": T, "first": rel == "first", "dis": list(dis), "ly": False}
                         for i, (ks, T, rel, dis, uni) in enumerate(chords)],
              "same": [],
              "red": red, "minidle": minidle, "lkey": cfgdesc.code(lkey) if lkey else 0, "slack": 2 * red + 10}
    return desc, params


def episodes(rng, keys, n_episodes, gaps, settle, same=()):
    """Random schedule made of short bursts (2-8 physically consistent events with gaps around the timeout), each
    followed by the release of everything and a pause long enough for kanata to settle."""
    s = []
    for _ in range(n_episodes):
        s += rand_history(rng, keys, rng.randint(2, 8), gaps, release_all=True, tail=settle)
    # at most three inputs between two ticks (a longer burst only lengthens the queue the release waits in)
    # the physical keys of one chord key are not down at the same time (environment assumption of P_C09's `same`)
    grp = {}
    for tw in same:
        grp[tw["c"]] = grp[tw["k"]] = tw["k"]
    down, skipped, s2 = set(), set(), []
    for st in s:
        if st[0] == "d" and st[1] in grp and any(grp.get(k) == grp[st[1]] for k in down):
            skipped.add(st[1])
            continue
        if st[0] == "u" and st[1] in skipped:
            skipped.discard(st[1])
            continue
        if st[0] == "d":
            down.add(st[1])
        elif st[0] == "u":
            down.discard(st[1])
        s2.append(st)
    s = s2
    out, run = [], 0
    for st in s:
        if st[0] == "t":
            run = 0
        else:
            run += 1
            if run > 3:
                out.append(["t", 1])
                run = 1
        out.append(st)
    return out


def family(tier):
    """(name, (desc, params), mc options).  `depth`: only schedules of at most that many steps (the full graph of the
    chords-v2 tables with a third key is too large for the time budget); without it: the full graph."""
    v1_pair = lambda T: make_v1(T, "ab", [("a", "b")])
    v1_plain = lambda T, red=1: make_v1(T, "ab", [("a", "b")], plain="d", red=red)
    v1_sub = lambda T: make_v1(T, "abc", [("a", "b"), ("a", "b", "c")])          # sub-chord + superset; (a c), (b c) undefined
    v1_ovl = lambda T: make_v1(T, "ac", [("a", "b"), ("b", "c")])                # overlapping, (b) and (a b c) undefined
    v2_first = lambda T: make_v2([(("a", "b"), T, "first", [], None)], "ab")
    # a first-release chord, a key without chords and four queued events: the chord's presses are processed together with
    # a tap of the foreign key (the foreign-release finding repaired by 6fd250f; model mutant chv2_foreign_release)
    v2_firstx = lambda T: make_v2([(("a", "b"), T, "first", [], None)], "abc")
    v2_uni = lambda T: make_v2([(("a", "b"), T, "all", [], "+r")], "ab")
    v2_pair = lambda T: make_v2([(("a", "b"), T, "all", [], None)], "abc")        # c: a key without chords
    v2_sub = lambda T: make_v2([(("a", "b"), T, "all", [], None), (("a", "b", "c"), T, "first", [], None)], "abc")
    # nested / overlapping chords with DIFFERENT timeouts: the window of a pressed set is the shortest timeout of the
    # chords that can still be completed from it, not of a chord the latest press has ruled out
    v2_tmix = lambda T1, T2: make_v2([(("a", "b"), T1, "all", [], None), (("a", "c"), T2, "first", [], None),
                                      (("a", "b", "c"), T2, "all", [], None)], "abc")
    # two physical keys (a and e) carry the chord key a
    v1_twin = lambda T: make_v1(T, "ab", [("a", "b")], twin={"e": "a"})
    # chords v1 whose action holds a layer next to a key ((multi <key> (layer-while-held l1))); d is a plain key whose
    # meaning differs on that layer: the release rule (held until the last participant is released) covers the layer
    v1_lay = lambda T: make_v1(T, "ab", [("a", "b")], plain="d", layered={0: "multi"}, probe=("d", "v"))
    v2_layer = lambda T: make_v2([(("a", "b"), T, "all", [1], None)], "ab", lkey="d")
    if tier == "quick":
        return [
            ("v1_pair_T3", v1_pair(3), {"qmax": 3}),
            ("v1_plain_T2", v1_plain(2), {"qmax": 2}),
            ("v1_sub_T2", v1_sub(2), {"qmax": 2, "depth": 16}),
            ("v2_first_T2", v2_first(2), {"qmax": 2}),
            ("v2_firstx_T2", v2_firstx(2), {"qmax": 4, "depth": 10}),
            ("v2_uni_T2", v2_uni(2), {"qmax": 2}),
            ("v2_pair_T2", v2_pair(2), {"qmax": 2, "depth": 22}),
            ("v2_sub_T2", v2_sub(2), {"qmax": 2, "depth": 22}),
            ("v2_layer_T2", v2_layer(2), {"qmax": 2, "depth": 20}),
            ("v2_tmix_T24", v2_tmix(2, 4), {"qmax": 2, "depth": 18}),
            ("v1_twin_T2", v1_twin(2), {"qmax": 2, "depth": 18}),
            ("v1_lay_T2", v1_lay(2), {"qmax": 2, "depth": 16}),
        ]
    return [
        ("v1_pair_T3", v1_pair(3), {"qmax": 3}),
        ("v1_pair_T2", v1_pair(2), {"qmax": 3}),
        ("v1_plain_T2", v1_plain(2), {"qmax": 2}),
        ("v1_plain_T3", v1_plain(3), {"qmax": 2}),
        ("v1_sub_T3", v1_sub(3), {"qmax": 2}),
        ("v1_ovl_T2", v1_ovl(2), {"qmax": 2, "depth": 30}),
        ("v1_red5_T3", v1_plain(3, 5), {"qmax": 2, "depth": 40}),
        ("v2_first_T2", v2_first(2), {"qmax": 3}),
        ("v2_first_T3", v2_first(3), {"qmax": 2}),
        ("v2_firstx_T2", v2_firstx(2), {"qmax": 4, "depth": 14}),
        ("v2_uni_T2", v2_uni(2), {"qmax": 2}),
        ("v2_uni_T3", v2_uni(3), {"qmax": 2}),
        ("v2_pair_T2", v2_pair(2), {"qmax": 2, "depth": 30}),
        ("v2_sub_T2", v2_sub(2), {"qmax": 2, "depth": 30}),
        ("v2_layer_T2", v2_layer(2), {"qmax": 2, "depth": 27}),
        ("v2_tmix_T24", v2_tmix(2, 4), {"qmax": 2, "depth": 26}),
        ("v2_tmix_T13", v2_tmix(1, 3), {"qmax": 3, "depth": 20}),
        ("v1_twin_T2", v1_twin(2), {"qmax": 2}),
        ("v1_twin_T3", v1_twin(3), {"qmax": 3, "depth": 24}),
        ("v1_lay_T2", v1_lay(2), {"qmax": 2, "depth": 26}),
        # overlapping chords with different release rules; an undefined superset (a b c)
        ("v2_ovl_T2", make_v2([(("a", "b"), 2, "all", [], None), (("b", "c"), 2, "first", [], None)], "abc"),
         {"qmax": 2, "depth": 22}),
        # a defined superset two keys larger: (a b c) pressed is an undefined set between two chords
        ("v2_super_T2", make_v2([(("a", "b"), 2, "all", [], None), (("a", "b", "c", "d"), 2, "all", [], None)], "abcd"),
         {"qmax": 2, "depth": 15}),
        # chords v1 without single-key chords: undefined singles are consumed silently
        ("v1_nosingle_T2", make_v1(2, "", [("a", "b"), ("a", "b", "c")]), {"qmax": 2, "depth": 28}),
    ]


def mc_instance(name, desc, params, opts):
    kbd = cfgdesc.render_kbd(desc)
    keys = [cfgdesc.code(k) for k in desc["keys"]]
    inst = {"name": "c09_" + name, "kbd": kbd, "keys": keys, "qmax": opts.get("qmax", 3),
            "monitor": {"module": "P_C09", "params": params},
            # presses that are never accounted for (a swallowed key is flagged at the next idle point) are not piled up
            "constraint": "PendBound",
            "extra_defs": "PendBound == mon.err # \"\" \\/ (Len(mon.pend) <= %d)" % (opts.get("qmax", 3) + 1)}
    if opts.get("depth"):      # quick tier: every schedule of at most `depth` steps (inputs and ticks)
        inst["extra_defs"] = inst["extra_defs"][:-1] + " /\\ Len(hist) <= %d)" % opts["depth"]
    for tw in params["same"]:  # the physical keys of one chord key are not down at the same time
        inst["extra_defs"] = inst["extra_defs"][:-1] + " /\\ ~({%d, %d} \\subseteq phys))" % (tw["c"], tw["k"])
    if params["ver"] == 2:
        inst["universe"] = keys + [0]          # TRIGGER_TAPHOLD_COORD (0, 0) is dequeued like a key
        inst["view"] = "<<CvCanonK(K), phys, mon>>"
        inst["extra_guard"] = "/\\ Len(K.L.chv2.q) + Len(K.L.queue) < QMax"
        # Model sanity probe: a chord whose participants are all up, with no release of them left to process, must not
        # stay active (this was the finding repaired by 6c7bac1).  Such a state would be reported as a witness and
        # judged on the code by the monitor; it is not expanded further.
        inst["extra_defs"] = (
            "Chv2Leak == \\E i \\in DOMAIN K.L.chv2.ach : K.L.chv2.ach[i].st = \"R\" /\\ K.L.chv2.ach[i].ks \\cap phys = {}\n"
            "              /\\ ~\\E j \\in DOMAIN K.L.chv2.q : ~K.L.chv2.q[j].p /\\ K.L.chv2.q[j].y \\in K.L.chv2.ach[i].ks\n"
            "LeakProbe == ~Chv2Leak \\/ PrintT(<<\"MONERR\", ToJson([h |-> hist, err |-> \"L1: an active chord can no longer be released\"])>>)\n"
            + inst["extra_defs"][:-1] + " /\\ Len(K.L.chv2.ach) <= 3 /\\ ~Chv2Leak)")
        inst["invariants"] = ["LeakProbe"]
    return inst, kbd, keys


# ---- the schedule family enumerated by TLC (all press orders / gaps / release orders of every key subset) --------
SCHED_CFG = """CONSTANT Keys = {%(keys)s}
CONSTANT Gaps = {%(gaps)s}
CONSTANT Hold = {%(hold)s}
CONSTANT RGaps = {%(rgaps)s}
CONSTANT Other = {%(other)s}
CONSTANT RProbe = {%(rprobe)s}
CONSTANT MinSize = %(minsize)d
CONSTANT AllRel = %(allrel)s
CONSTANT Pre <- PreDef
CONSTANT Post <- PostDef
CONSTANT TailT = %(tail)d
INIT Init
NEXT Next
CHECK_DEADLOCK FALSE
"""


def enumerate_schedules(wd, name, keys, gaps, hold, rgaps, other=(), minsize=1, tail=40, allrel=True, pre=(), post=(),
                        rprobe=()):
    """TLC enumerates Sched_C09 for the constants and prints every schedule; returns the scripts."""
    mod = "MC_Sched_" + name
    with open(os.path.join(wd, mod + ".tla"), "w") as f:
        f.write("---- MODULE %s ----\nEXTENDS Sched_C09\nPreDef == %s\nPostDef == %s\n====\n" % (
            mod, tla_val([list(x) for x in pre]), tla_val([list(x) for x in post])))
    with open(os.path.join(wd, mod + ".cfg"), "w") as f:
        f.write(SCHED_CFG % dict(keys=", ".join(map(str, keys)), gaps=", ".join(map(str, gaps)),
                                 hold=", ".join(map(str, hold)), rgaps=", ".join(map(str, rgaps)),
                                 other=", ".join(map(str, other)), rprobe=", ".join(map(str, rprobe)),
                                 minsize=minsize, tail=tail,
                                 allrel="TRUE" if allrel else "FALSE"))
    r = run_tlc(wd, mod, workers=1, timeout=600, heap="2g")
    if r["rc"] != 0 or r["error"]:
        raise ToolError("TLC failed on %s: %s (see %s)" % (mod, r["error"], r["out"]))
    dest = os.path.join(wd, mod + ".sched.ndjson")
    n = extract_prints(r["out"], "SCHED", dest)
    if n == 0:
        raise ToolError("no schedules enumerated by %s" % mod)
    return [json.loads(l) for l in open(dest)]


def schedule_family(tier):
    """(name, desc, params, enumeration constants): tables over 3-5 participating keys whose L1 state graph is too
    large for the quick exhaustive run; TLC enumerates the schedules, the real code runs them, P_C09 judges."""
    c = cfgdesc.code
    T = 3
    g3 = [0, 1, T - 1, T, T + 1] if tier != "quick" else [0, T - 1, T + 1]
    F = [
        ("s_v1_3", make_v1(T, "abc", [("a", "b"), ("a", "b", "c")], plain="d"),
         dict(keys=[c("a"), c("b"), c("c")], gaps=g3, hold=[6], rgaps=[0, 2], other=[c("d")])),
        ("s_v2_3", make_v2([(("a", "b"), T, "all", [], None), (("a", "b", "c"), T, "first", [], None)], "abcd"),
         dict(keys=[c("a"), c("b"), c("c")], gaps=g3, hold=[6], rgaps=[0, 2], other=[c("d")])),
        ("s_v2_uni", make_v2([(("a", "b"), T, "all", [], "+r"), (("b", "c"), T, "first", [], "s")], "abc"),
         dict(keys=[c("a"), c("b"), c("c")], gaps=g3, hold=[6], rgaps=[0, 2])),
    ]
    # a chord disabled on the held layer that is a strict sub-chord of two enabled chords; a foreign key at every position
    F.append(("s_v2_dis", make_v2([(("a", "b"), T, "all", [1], None), (("a", "b", "c"), T, "all", [], None),
                                    (("a", "b", "e"), T, "first", [], None)], "abcef", lkey="d"),
              dict(keys=[c("a"), c("b")], gaps=[0, 1], hold=[6], rgaps=[0], other=[c("f")], minsize=2,
                   pre=[["d", c("d")], ["t", 25]], post=[["t", 10], ["u", c("d")]])))
    # nested chords with different timeouts (short sub-chord, two longer supersets): presses inside the short window,
    # after it but inside the long one, and after the long one
    T1, T2 = 3, 8
    F.append(("s_v2_tmix", make_v2([(("a", "b"), T1, "all", [], None), (("a", "b", "c"), T2, "first", [], None),
                                     (("a", "b", "c", "d"), T2, "all", [], None)], "abcd"),
              dict(keys=[c("a"), c("b"), c("c"), c("d")], gaps=[0, T1 + 1] if tier == "quick" else [0, T1 - 1, T1 + 1, T2 + 1],
                   hold=[T2 + 2], rgaps=[0], minsize=3, allrel=False)))
    # chords v1, two physical keys (a, e) carry the chord key a: the schedules over each of the two physical keys
    twin = make_v1(T, "abc", [("a", "b"), ("a", "b", "c")], plain="d", twin={"e": "a"})
    for nm, first in (("s_v1_twin_e", "e"), ("s_v1_twin_a", "a")):
        F.append((nm, twin, dict(keys=[c(first), c("b"), c("c")], gaps=[0, T - 1, T + 1], hold=[6], rgaps=[0, 2],
                                 other=[c("d")] if tier != "quick" else [], allrel=tier != "quick")))
    # capacity of the candidate list of chords v2 (16 entries, overflow ignored): a two-key chord with 17 three-key
    # supersets, listed before them and after them; the small chord, the first-listed and the last-listed superset
    thirds = "cdefghijklmnoprst"                                   # 17 keys; outputs x y z q w v 1-4 are not among them
    sup = [(("a", "b", k), T, "all" if i % 2 else "first", [], "ABCDEFGHIJKLMNOPQ"[i]) for i, k in enumerate(thirds)]
    small = (("a", "b"), T, "all", [], None)
    for nm, tbl in (("s_v2_cap_last", sup + [small]), ("s_v2_cap_first", [small] + sup)):
        F.append((nm, make_v2(tbl, "ab" + thirds),
                  dict(keys=[c("a"), c("b"), c(thirds[-1])], gaps=[0, T + 1] if tier == "quick" else g3, hold=[6],
                       rgaps=[0, 2], other=[c(thirds[0])])))
    # chords v1 whose action is a multi of a key and a layer-while-held (either order): every press order, every
    # release order, the probe key (its meaning differs on the layer) tapped at every position of the release phase
    F.append(("s_v1_lay", make_v1(T, "abc", [("a", "b"), ("a", "b", "c")], plain="d", layered={0: "multi", 1: "lmulti"},
                                  probe=("d", "v")),
              dict(keys=[c("a"), c("b"), c("c")], gaps=[0, T + 1] if tier == "quick" else g3, hold=[6], rgaps=[0, 2],
                   rprobe=[c("d")], minsize=2)))
    if tier != "quick":
        g4 = [0, T + 1]
        F += [
            ("s_v1_4", make_v1(T, "abcd", [("a", "b"), ("c", "d"), ("a", "b", "c", "d")]),
             dict(keys=[c("a"), c("b"), c("c"), c("d")], gaps=g4, hold=[5], rgaps=[1], minsize=2)),
            ("s_v2_4", make_v2([(("a", "b"), T, "all", [], None), (("c", "d"), T, "first", [], None),
                                (("a", "b", "c", "d"), T, "all", [], None)], "abcd"),
             dict(keys=[c("a"), c("b"), c("c"), c("d")], gaps=g4, hold=[5], rgaps=[1], minsize=2)),
            ("s_v2_5", make_v2([(("a", "b", "c", "d", "e"), T, "all", [], None), (("a", "b"), T, "first", [], None)], "abcde"),
             dict(keys=[c("a"), c("b"), c("c"), c("d"), c("e")], gaps=[0, T + 1], hold=[5], rgaps=[0], minsize=5, allrel=False)),
            ("s_v1_5", make_v1(T, "abcde", [("a", "b", "c", "d", "e"), ("a", "b")]),
             dict(keys=[c("a"), c("b"), c("c"), c("d"), c("e")], gaps=[0, T + 1], hold=[5], rgaps=[0], minsize=5, allrel=False)),
        ]
    return F


def run(tier, seed):
    pid = "C09"
    res = flow.Result(pid, tier, seed)
    rng = random.Random(seed)
    wd = workdir("c09")
    only = os.environ.get("C09_ONLY")
    depth_override = os.environ.get("C09_DEPTH")
    jobs_random, witness_jobs = [], []
    build_harness()
    cfgdesc.keytable()
    todo = []
    for name, (desc, params), opts in family(tier):
        if only and only not in name:
            continue
        if depth_override:
            opts = dict(opts, depth=int(depth_override))
        todo.append((name, desc, params, opts) + mc_instance(name, desc, params, opts))

    def one(t):
        name, desc, params, opts, inst, kbd, keys = t
        if os.environ.get("C09_SKIP_MC"):      # development aid: only the recorded-trace part (sched + random)
            return {"name": inst["name"], "states": 0, "generated": 0, "tlc_wall_s": 0, "wall_s": 0,
                    "monerr_file": "/nonexistent", "panic_file": "/nonexistent"}
        # one work directory per instance: two TLC runs go on at a time
        return mc.check_instance(inst, workdir("c09/" + name), workers=6, timeout=1700)

    import concurrent.futures
    with concurrent.futures.ThreadPoolExecutor(max_workers=2) as ex:
        results = list(ex.map(one, todo))
    for (name, desc, params, opts, inst, kbd, keys), r in zip(todo, results):
        res.add_instance(r)
        res.instances[-1]["depth_bound"] = opts.get("depth")
        log("[c09] %s: %s states, %s edges, drift %s, monerr %s, tlc %ss, wall %ss" % (
            name, r["states"], r.get("edges"), r.get("drift"), r.get("n_monerr"), r["tlc_wall_s"], r["wall_s"]))
        if len(res.samples) < 4:
            res.samples.append({"instance": name, "kbd": kbd, "states": r["states"], "edges": r.get("edges")})
        ws = flow.witness_scripts(r["monerr_file"], 40) + flow.witness_scripts(r["panic_file"], 10)
        scripts = [flow.hist_to_script(w["h"], 30) for w in ws] + \
                  [flow.hist_to_script(d["h"], 30) for d in r.get("drift_samples", [])[:300]]
        if scripts:
            witness_jobs.append({"cfg": kbd, "params": params, "tag": "w:" + name, "scripts": scripts})
        n = 30 if tier == "quick" else 200
        T = max([params["T"]] + [c["T"] for c in params["chords"]])
        gaps = [0, 0, 1, 1, max(T - 1, 0), T, T + 1, T + params["minidle"] + 2, 3 * T + 12]
        settle = T + params["minidle"] + params["slack"] + 3 * params["red"] + 12
        scripts = [episodes(rng, keys, rng.randint(2, 6), gaps, settle, params["same"]) for _ in range(n)]
        jobs_random.append({"cfg": kbd, "params": params, "tag": "r:" + name, "scripts": scripts})
    sched_jobs = []
    nsched = 0
    for name, (desc, params), ec in schedule_family(tier):
        if (only and only not in name) or os.environ.get("C09_SKIP_SCHED"):
            continue
        scripts = enumerate_schedules(wd, name, **ec)
        nsched += len(scripts)
        log("[c09] %s: %d schedules enumerated by TLC" % (name, len(scripts)))
        sched_jobs.append({"cfg": cfgdesc.render_kbd(desc), "params": params, "tag": "s:" + name, "scripts": scripts})
    res.extra["schedules_enumerated_by_tlc"] = nsched
    # the documented short spellings of the action keywords in these configurations (same monitor parameters)
    sched_jobs += spelling_twins(sched_jobs)
    for label, jobs in (("witness", witness_jobs), ("sched", sched_jobs), ("random", jobs_random)):
        if not jobs:
            continue
        jobs = shard_local_index(jobs)
        if len(jobs) > 4000:
            # several TLC trace validations side by side (one work directory each)
            k = 4
            parts = [jobs[i::k] for i in range(k)]
            with concurrent.futures.ThreadPoolExecutor(max_workers=k) as ex:
                outs = list(ex.map(lambda ip: record_and_validate(res, "P_C09", ip[1], workdir("c09/%s%d" % (label, ip[0])),
                                                                   "c09_%s%d" % (label, ip[0])), enumerate(parts)))
            errs = [e for o in outs for e in o[0]]
        else:
            errs, trace = record_and_validate(res, "P_C09", jobs, wd, "c09_" + label)
        for e in errs:
            j, s = script_of(jobs, e["job"], 0)
            flow.classify(res, pid, e["err"], e["err"] + " cfg=" + j["cfg"],
                          {"property": pid, "cfg": j["cfg"], "params": j["params"], "script": s, "err": e["err"],
                           "monitor": "P_C09"},
                          "%s_%d" % (label, len(res.violations)))
        if label == "random":
            res.samples.append({"random_history": jobs[0]["scripts"][0][:30], "cfg": jobs[0]["cfg"]})
    return flow.finish(
        res, "model_checking",
        "TLC explores L1 (Layout.tla / ChordsV2.tla / Kanata.tla) || P_C09 per chord-table instance for every physically "
        "consistent schedule - every press order, every tick gap, every release order, <= qmax pending events - either "
        "over the full graph (instances without depth_bound: histories of any length) or for all schedules of at most "
        "depth_bound steps; every model transition is replayed on the real code (drift 0 = the exhaustive result "
        "transfers); for tables over 3-5 participating keys TLC enumerates Sched_C09 (every subset, every press "
        "permutation x gaps below/at/above the timeout x every release permutation, + one foreign key at every position) "
        "and the schedules are run on the real code; model-level witnesses, the enumerated schedules and random "
        "schedules (gaps around the timeout and the min-idle cool-down) are recorded from the code and validated by TLC "
        "against P_C09.",
        assumptions=["deterministic stepper", "chord / key actions are distinct otherwise-unused keys and/or a unicode character",
                     "P_C09 sharp-zone rules calibrated per DESIGN Appendix A (v1: last arrival t0+T-1, resolution on tick t0+T; "
                     "v2: arrivals up to t0+T-1 belong to the set, t0+T is soft, later ones do not)",
                     "a re-activation of a chord while its output key is still down is invisible at the OS level: presses that "
                     "may have been consumed that way are not claimed (P_C09 `hid`)"])
