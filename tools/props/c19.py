"""C19 - dynamic macros replay what was typed and never leave a key down."""
from props.common import *
import re
from kv import REPO

K = lambda k: {"t": "key", "k": k}
RAW = lambda t: {"t": "raw", "text": t}
# key names used for the control keys (their own keys are never output by anything else)
CTL = {"rec1": ("1", "rec", 1), "rec2": ("2", "rec", 2), "stop": ("3", "stop", 0), "stopt1": ("4", "stop", 1),
       "play1": ("5", "play", 1), "play2": ("6", "play", 2), "stopt2": ("7", "stop", 2)}
CTL_TEXT = {"rec": "(dynamic-macro-record %d)", "play": "(dynamic-macro-play %d)"}


def ctl_text(kind, n):
    if kind == "stop":
        return "dynamic-macro-record-stop" if n == 0 else "(dynamic-macro-record-stop-truncate %d)" % n
    return CTL_TEXT[kind] % n


def make(ctl, plain, mode="constant", maxp=1, layer=False, th=None, red=None):
    """ctl: names from CTL; plain: {key name: action desc}; layer: add lsft = (layer-while-held l1) with a second
    mapping of the plain keys; th: (key, T, tap, hold) one tap-hold key.
    Returns (desc for the .kbd text, monitor parameters) - two independent renderings of the description."""
    keys, l0, l0ref = [], {}, {}
    for n in ctl:
        k, kind, num = CTL[n]
        keys.append(k)
        l0[k] = RAW(ctl_text(kind, num))
        l0ref[k] = {"t": "xx"}
    for k, a in plain.items():
        keys.append(k)
        l0[k] = a
        l0ref[k] = a
    layers, layersref = [l0], [l0ref]
    if layer:
        keys.append("lsft")
        l0["lsft"] = l0ref["lsft"] = {"t": "lwh", "l": 1}
        alt = {"a": "x", "b": "y"}
        l1 = {k: K(alt[k]) for k in plain if k in alt}
        layers.append(l1)
        layersref.append(l1)
    ths = []
    if th:
        k, T, tap, hold = th
        keys.append(k)
        l0[k] = {"t": "th", "variant": "tap-hold", "tt": T, "ht": T, "tap": K(tap), "hold": K(hold)}
        l0ref[k] = {"t": "xx"}
        ths.append({"c": cfgdesc.code(k), "T": T, "tap": cfgdesc.code(tap), "hold": cfgdesc.code(hold)})
    defcfg = {"dynamic-macro-max-presses": maxp, "dynamic-macro-replay-delay-behaviour": mode}
    if red is not None:
        defcfg["rapid-event-delay"] = red
    desc = {"keys": keys, "layers": layers, "defcfg": defcfg}
    refdesc = {"keys": keys, "layers": layersref, "defcfg": {}}
    params = {"c04": cfgdesc.c04_params(refdesc),
              "ctl": [{"c": cfgdesc.code(CTL[n][0]), "k": CTL[n][1], "n": CTL[n][2]} for n in ctl],
              "th": ths, "max": maxp, "recorded": mode == "recorded", "red": 5 if red is None else red,
              # liveness bound (stepper calls per replayed event): the constant pace (5 today) and the pause after a nested
              # macro are not fixed by the statement
              "live": 50,
              # the gaps between recorded events are read with recorded delays: whether a gap is 2 ticks or more decides the
              # call in which the replayed event shows; a time-sensitive key needs the gap up to its timeout
              "gcap": (max(2, th[1] + 2) if th else 2) if mode == "recorded" else 0}
    return desc, params


ENV_TLA = r"""
\* ----- the typing environment of the C19 instances -------------------------------------------------
CtlCodes == %(ctl)s
RecCodes == %(rec)s
PlayCodes == %(play)s
CtlQueued == \E i \in DOMAIN K.L.queue : K.L.queue[i].p /\ K.L.queue[i].x = 0 /\ K.L.queue[i].y \in CtlCodes
\* no input while a control key press waits in the queue (the recording boundary would not be determined by
\* the input order); at most %(held)d keys are held at a time; after the last save only play keys are pressed%(replay_doc)s
\* while a recording is on kanata never reports idle (fix db302df) and the monitor gives a replay its full time budget:
\* nothing is typed between the end of such a replay and the end of its budget (only ticks)
EnvCan == Alive /\ Len(K.L.queue) < QMax %(ctl_guard)s
          /\ ~(K.dyn.rep = <<>> /\ K.dyn.rec # <<>> /\ mon.replaying)
EPress(c) == /\ EnvCan /\ c \notin phys /\ Cardinality(phys) < %(held)d %(press_guard)s
             /\ (c \notin PlayCodes => K.dyn.ns < %(saves)d)
             /\ K' = HandleInput(K, "d", c) /\ phys' = phys \cup {c}
             /\ mon' = Mon!MonIn(mon, [e |-> "d", c |-> c, out |-> K'.out])
             /\ hist' = Append(hist, <<"d", c>>)
ERelease(c) == /\ EnvCan /\ c \in phys %(release_guard)s
               /\ K' = HandleInput(K, "u", c) /\ phys' = phys \ {c}
               /\ mon' = Mon!MonIn(mon, [e |-> "u", c |-> c, out |-> K'.out])
               /\ hist' = Append(hist, <<"u", c>>)
"""


def instance(name, desc, params, D=1, qmax=1, maclen=3, free_replay=False, saves=1, held=2, drift_limit=150, late=False):
    """The exhaustive instance: every physically consistent typing history over the keys within the bounds: at most
    `saves` macros saved, at most `maclen` stored events in a recording, gaps 0..D ticks between recorded events,
    at most qmax unprocessed events.  States in which a macro was saved with two or more synthesized releases are
    not expanded (HashSet iteration order, DynMacro.tla)."""
    kbd = cfgdesc.render_kbd(desc)
    keys = [cfgdesc.code(k) for k in desc["keys"]]
    # the exhaustive instances run the monitor with a tighter liveness bound (the counter is part of the state graph)
    params = dict(params, live=12)
    ctl = "{" + ", ".join(str(c["c"]) for c in params["ctl"]) + "}"
    rec = "{" + ", ".join(str(c["c"]) for c in params["ctl"] if c["k"] == "rec") + "}"
    play = "{" + ", ".join(str(c["c"]) for c in params["ctl"] if c["k"] == "play") + "}"
    env = ENV_TLA % dict(
        ctl=ctl, rec=rec, play=play, saves=saves, held=held,
        # late=True: input may arrive while a control key press is still queued (the known defect class
        # `[late control key]`: TLC finds the rejections in the model, they are confirmed on the code)
        ctl_guard="" if late else "/\\ ~CtlQueued",
        replay_doc="" if free_replay else "; while a replay runs only control keys are released",
        press_guard="" if free_replay else "/\\ K.dyn.rep = <<>>",
        release_guard="" if free_replay else "/\\ (K.dyn.rep = <<>> \\/ c \\in CtlCodes)")
    bound = ("DynBound == /\\ ~K.dyn.amb /\\ mon.budget <= 200 /\\ K.dyn.ns <= %d /\\ (K.dyn.rec = <<>> \\/ (K.dyn.rec[1].delay <= %d /\\ "
             "Len(K.dyn.rec[1].items) <= %d))" % (saves, D, maclen))
    # vacuity probe: one line per transition on which the monitor has followed a replay to its end in its sharp mode
    probe = ("SyncDone == (mon.replaying /\\ ~mon'.replaying /\\ mon.mode = \"sync\" /\\ mon'.mode = \"sync\" /\\ mon'.err = \"\" "
             "/\\ ~mon.repLate) => PrintT(<<\"SYNCDONE\", \"1\">>)")
    return {"name": "c19_" + name, "kbd": kbd, "keys": keys, "qmax": qmax,
            "monitor": {"module": "P_C19", "params": params},
            "constraint": "DynBound\nACTION_CONSTRAINT SyncDone", "extra_defs": bound + "\n" + probe, "extra_guard": "/\\ FALSE",
            "extra_actions": env, "extra_next": "\\/ (\\E c \\in EnvKeys : EPress(c) \\/ ERelease(c))",
            "invariants": [], "drift_limit": drift_limit, "extra_tags": ["SYNCDONE"]}


def family(tier):
    A = {"a": K("a")}
    AB = {"a": K("a"), "b": {"t": "chord", "mods": ["lsft"], "k": "b"}}
    big = tier != "quick"
    F = [
        # record / stop key / play, the size limit (max-presses 1: a press arriving with 3 stored events stops)
        ("basic_const", make(["rec1", "stop", "play1"], A, "constant", 1), dict(D=1, saves=1, maclen=4 if big else 3)),
        # recorded delays: the gap runs as extra ticks inside one tick_ms call; the record key stops its own macro
        ("basic_rec", make(["rec1", "play1"], A, "recorded", 2), dict(D=2, saves=1, maclen=4 if big else 3)),
        # stop with truncation, an output chord
        ("trunc", make(["rec1", "stopt1", "play1"], AB, "constant", 2), dict(D=0, saves=1, maclen=3)),
        # two macros: re-recording, switching the recording by the other record key, nested play, the recursion guard
        ("nested", make(["rec1", "rec2", "play1", "play2"], A, "constant", 2),
         dict(D=0, saves=3 if big else 2, maclen=3, held=1)),
        # a layer-while-held key held across the boundaries
        ("layer", make(["rec1", "stop", "play1"], A, "constant", 2, layer=True), dict(D=0, saves=1, maclen=3)),
        # a time-sensitive mapping replayed with the recorded delays
        ("taphold", make(["rec1", "play1"], {}, "recorded", 2, th=("c", 3, "a", "lsft")),
         dict(D=5, saves=1, maclen=3, held=2 if big else 1)),
        # the record key still held when the time-sensitive key is typed: the first recorded event is its press, and
        # the pause since the recording began must not count into its recorded hold time
        ("taphold_held", make(["rec1", "stop", "play1"], {}, "recorded", 2, th=("c", 3, "a", "lsft")),
         dict(D=5, saves=1, maclen=2, held=2)),
        # re-recording: a second recording under the same id, also one that ends up empty (stop key pressed at once, the
        # record key still held, everything truncated): it replaces what was stored, the replay then types nothing
        ("rerec", make(["rec1", "stopt1", "play1"], A, "constant", 2), dict(D=0, saves=2, maclen=2, held=2)),
        # control keys processed later than they arrive: bursts that include the record / stop keys
        ("late", make(["rec1", "stop", "play1"], A, "constant", 2), dict(D=0, saves=1, maclen=2 if big else 1, qmax=2, late=True)),
    ]
    if big:
        F += [
            # bursts (two unprocessed events) and typing while the replay runs (quick: the `late` instance has the bursts)
            ("burst", make(["rec1", "play1"], A, "constant", 2), dict(D=0, saves=1, maclen=2, qmax=2, free_replay=True)),
            ("trunc2", make(["rec1", "stopt2", "play1"], A, "recorded", 2), dict(D=1, saves=1, maclen=4)),
            ("nested_held", make(["rec1", "rec2", "play1", "play2"], A, "constant", 2), dict(D=0, saves=2, maclen=2, held=2)),
            ("stop_rec", make(["rec1", "stop", "play1"], A, "recorded", 1), dict(D=1, saves=2, maclen=3, held=1)),
        ]
    return F


# model mutants (DESIGN 3.4): the monitor must reject the mutated model on the named instance
MODEL_MUTANTS = [("dm_trunc", "trunc"), ("dm_limit", "limit0"), ("dm_norecguard", "nested")]


def selftest_model(wd):
    """Can the monitor say no at the model level?  TLC on L1[Bug] || P_C19 must find a rejection."""
    out = []
    fam = {f[0]: f for f in family("quick")}
    # the size limit within the bound of 3 stored events: max-presses 0 (a press arriving with one stored event stops)
    fam["limit0"] = ("limit0", make(["rec1", "stop", "play1"], {"a": K("a")}, "constant", 0), dict(D=0, saves=1, maclen=3))
    for bug, iname in MODEL_MUTANTS:
        name, (desc, params), kw = fam[iname]
        inst = instance("mm_%s" % bug, desc, params, **kw)
        inst["bug"] = bug
        inst["edges"] = False
        r = mc.check_instance(inst, wd, workers=6, timeout=1500, replay=False)
        out.append({"bug": bug, "instance": iname, "states": r["states"], "rejections": r["n_monerr"]})
        log("[c19] model mutant %s on %s: %d rejections" % (bug, iname, r["n_monerr"]))
        if r["n_monerr"] == 0:
            raise ToolError("model mutant %s is not rejected by P_C19 on instance %s" % (bug, iname))
    return out


# ------------------------------------------------------------------ histories recorded from the real code (binding C)
def C(name):
    return cfgdesc.code(CTL[name][0]) if name in CTL else cfgdesc.code(name)


def tap(k, hold=1, after=1):
    return [["d", C(k)], ["t", hold], ["u", C(k)]] + ([["t", after]] if after else [])


def wait_replay(n_events, slack=25):
    return [["t", 6 * n_events + slack]]


def bodies(keys, maxlen):
    """every physically consistent event list over `keys` (names) of length <= maxlen, as (events, still down)"""
    out = []

    def rec(evs, down):
        out.append((list(evs), set(down)))
        if len(evs) == maxlen:
            return
        for k in keys:
            if k in down:
                rec(evs + [("u", k)], down - {k})
            else:
                rec(evs + [("d", k)], down | {k})
    rec([], frozenset())
    return out


def body_steps(evs, gaps):
    s = []
    for i, (e, k) in enumerate(evs):
        s.append([e, C(k)])
        g = gaps[i % len(gaps)]
        if g:
            s.append(["t", g])
    return s


def directed(cfgname, rng, tier):
    """Scenario scripts for the configuration family member `cfgname` (see CONFIGS): systematic enumeration of
    recorded bodies x keys held across the start boundary x the way the recording is stopped, plus nesting,
    recursion, re-recording, play while recording, the size limit."""
    S = []
    stops = ["stop", "stopt1", "stopt2", "rec1", "rec2"]
    plain = ["a", "b", "lsft"] if cfgname != "taphold" else ["c"]
    gapsets = [[1], [2, 1], [1, 3, 1]] if cfgname != "taphold" else [[1], [7], [1, 7], [7, 1, 1]]
    for evs, down in bodies(plain, 4 if tier == "thorough" else 3):
        for pre in ([], ["a"], ["lsft"], ["lsft", "a"]) if cfgname != "taphold" else ([],):
            if any(("d", k) == evs[0] for k in pre if evs):
                continue      # a pre-held key cannot be pressed again first
            # physically consistent with the pre-held keys
            dn, ok = set(pre), True
            for e, k in evs:
                if (e == "d") == (k in dn):
                    ok = False
                    break
                dn = dn - {k} if e == "u" else dn | {k}
            if not ok:
                continue
            for st in stops:
                gaps = rng.choice(gapsets)
                s = []
                for k in pre:
                    s += [["d", C(k)], ["t", 1]]
                s += tap("rec1")
                s += body_steps(evs, gaps)
                s += tap(st, 1, 2)
                if st == "rec2":
                    s += tap("stop", 1, 2)
                # release what is still held (sometimes only after the replay)
                late = rng.random() < 0.3
                rel = []
                for k in sorted(dn):
                    rel += [["u", C(k)], ["t", 1]]
                if not late:
                    s += rel
                s += tap("play1", 1, 0) + wait_replay(len(evs) + 3)
                if late:
                    s += rel
                # the second time the play key is held until the replay is over (nothing typed meanwhile: the pacing is judged)
                s += [["d", C("play1")]] + wait_replay(len(evs) + 3) + [["u", C("play1")], ["t", 2]]
                s += [["t", 30]]
                S.append(s)
    if cfgname == "taphold":
        # the recorded gaps around the tap-hold timeout (CONFIGS: T = 4; tap up to 2 ticks, hold from 6), with a pause
        # of w ticks between the start of the recording and the first key: record key still held (the first recorded
        # event is the press of the time-sensitive key), or released first
        F = []
        for w in (1, 3, 5, 9):
            for h in (1, 3, 4, 6):       # T - 1 is the last tick of the tap, T the first of the hold
                for st in ("stop", "stopt1", "rec1"):
                    # (the keys after the tap-hold key wait until its delayed release has been written: a control key
                    # typed earlier is processed late, the known defect class)
                    F.append([["d", C("rec1")], ["t", w]] + tap("c", h, 14) + [["u", C("rec1")], ["t", 2]] + tap(st, 1, 2) +
                             tap("play1", 1, 0) + wait_replay(6) + [["d", C("play1")]] + wait_replay(6) + [["u", C("play1")], ["t", 30]])
                F.append(tap("rec1", 1, w) + tap("c", h, 14) + tap("c", 1, 14) + tap("stop", 1, 2) + tap("play1", 1, 0) +
                         wait_replay(8) + [["t", 30]])
                F.append([["d", C("rec1")], ["t", w]] + tap("c", h, 2) + [["u", C("rec1")], ["t", 2]] + tap("stop", 1, 2) +
                         tap("play1", 1, 0) + wait_replay(8) + [["t", 30]])
        return S, F
    E, S = S, []
    # nesting / recursion / re-recording / play while recording / size limit
    def recmac(rk, body, stop="stop"):
        return tap(rk) + body + tap(stop, 1, 2)
    ab = tap("a") + tap("b")
    for inner in (tap("a"), ab, [["d", C("lsft")], ["t", 1]] + tap("a") + [["u", C("lsft")], ["t", 1]]):
        for outer_pre in ([], tap("b")):
            for outer_post in ([], tap("a", 2)):
                # macro 2 plays macro 1 (recorded live: the replay of 1 runs while 2 is recorded)
                s = recmac("rec1", inner) + tap("rec2") + outer_pre + tap("play1", 1, 0) + wait_replay(8) + outer_post + \
                    tap("stop", 1, 2) + tap("play2", 1, 0) + wait_replay(20) + [["t", 30]]
                S.append(s)
                # macro 2 recorded before macro 1 exists: the nested play uses what is stored when 2 is replayed
                s = tap("rec2") + outer_pre + tap("play1") + outer_post + tap("stop", 1, 2) + recmac("rec1", inner) + \
                    [["d", C("play2")]] + wait_replay(20) + [["u", C("play2")], ["t", 30]]
                S.append(s)
    # recursion: 1 contains play1; 1 -> 2 -> 1
    S.append(tap("rec1") + tap("a") + tap("play1") + tap("b") + tap("stop", 1, 2) + tap("play1", 1, 0) + wait_replay(12) + [["t", 30]])
    S.append(recmac("rec1", tap("a")) + tap("rec1") + tap("b") + tap("play1", 1, 0) + wait_replay(6) + tap("stop", 1, 2) +
             tap("play1", 1, 0) + wait_replay(12) + [["t", 30]])
    S.append(tap("rec1") + tap("a") + tap("play2") + tap("stop", 1, 2) + tap("rec2") + tap("b") + tap("play1", 1, 0) + wait_replay(10) +
             tap("stop", 1, 2) + tap("play1", 1, 0) + wait_replay(20) + tap("play2", 1, 0) + wait_replay(20) + [["t", 30]])
    # the same macro nested twice in a row, and twice with typing in between
    S.append(recmac("rec1", tap("a")) + tap("rec2") + tap("play1", 1, 0) + wait_replay(6) + tap("play1", 1, 0) + wait_replay(6) +
             tap("stop", 1, 2) + tap("play2", 1, 0) + wait_replay(20) + [["t", 30]])
    S.append(recmac("rec1", ab) + tap("rec2") + tap("play1", 1, 0) + wait_replay(8) + tap("b") + tap("play1", 1, 0) + wait_replay(8) +
             tap("stop", 1, 2) + tap("play2", 1, 0) + wait_replay(30) + tap("play2", 1, 0) + wait_replay(30) + [["t", 30]])
    # re-recording with a body of 0..1 events that ends up empty or not after the stop key and the truncated tail are
    # dropped, for every way of stopping, record key released or still held: the new recording replaces the old one
    for first in (tap("a"), ab):
        for body in ([], [["d", C("a")], ["t", 1]], tap("a")):
            for st in stops:
                for held in (False, True):
                    if held and st == "rec1":
                        continue
                    s2 = ([["d", C("rec1")], ["t", 2]] if held else tap("rec1")) + body + tap(st, 1, 2) + \
                         ([["u", C("rec1")], ["t", 1]] if held else []) + (tap("stop", 1, 2) if st == "rec2" else [])
                    rel = [["u", C("a")], ["t", 1]] if len(body) == 2 else []
                    S.append(recmac("rec1", first) + s2 + rel + [["d", C("play1")]] + wait_replay(6) + [["u", C("play1")], ["t", 30]])
    # re-recording replaces; switching by the other record key saves and starts
    S.append(recmac("rec1", ab) + tap("play1", 1, 0) + wait_replay(6) + recmac("rec1", tap("b")) + tap("play1", 1, 0) + wait_replay(6) + [["t", 30]])
    S.append(tap("rec1") + tap("a") + tap("rec2") + tap("b") + tap("rec2", 1, 2) + tap("play1", 1, 0) + wait_replay(6) + tap("play2", 1, 0) +
             wait_replay(6) + [["t", 30]])
    # a stop key replayed while another macro is recorded must not be in the macro (the stop key itself is excluded)
    S.append(recmac("rec1", tap("a")) + tap("rec2") + tap("play1", 1, 0) + wait_replay(6) + tap("b") + tap("stop", 1, 2) +
             tap("play2", 1, 0) + wait_replay(14) + [["t", 30]])
    S.append(recmac("rec1", tap("a"), "stopt1") + tap("rec2") + tap("play1", 1, 0) + wait_replay(6) + tap("b") + tap("a") + tap("stop", 1, 2) +
             tap("play2", 1, 0) + wait_replay(16) + [["t", 30]])
    # the size limit (max-presses of the configuration: see CONFIGS): type 2 .. 3*max+3 taps, then stop and play
    for n in range(1, 12):
        body = []
        for i in range(n):
            body += tap("a" if i % 2 == 0 else "b", 1, rng.choice([1, 1, 2]))
        S.append(tap("rec1") + body + tap("stop", 1, 2) + [["d", C("play1")]] + wait_replay(2 * n + 3) + [["u", C("play1")], ["t", 30]])
        # all presses first (keys held): the limit counts events, not keys
    S.append(tap("rec1") + [["d", C("a")], ["t", 1], ["d", C("b")], ["t", 1], ["d", C("lsft")], ["t", 1]] + tap("stop", 1, 2) +
             [["u", C("a")], ["t", 1], ["u", C("b")], ["t", 1], ["u", C("lsft")], ["t", 1]] + tap("play1", 1, 0) + wait_replay(8) + [["t", 30]])
    return E, S


def random_session(rng, cfgname, long=False):
    """a random typing session: recordings (random bodies, random way of stopping), plays, sometimes typing or
    control keys without waiting (soft zones of the monitor), everything released at the end"""
    plain = ["a", "b", "lsft"] if cfgname != "taphold" else ["c"]
    gaps = [0, 1, 1, 1, 2, 3, 6] if cfgname != "taphold" else [1, 1, 2, 3, 4, 5, 7]
    s, down = [], set()

    def typing(n, careful):
        for _ in range(n):
            k = rng.choice(plain)
            if k in down:
                s.append(["u", C(k)])
                down.discard(k)
            else:
                s.append(["d", C(k)])
                down.add(k)
            g = rng.choice(gaps)
            if careful and g == 0:
                g = 1
            if g:
                s.append(["t", g])

    for _ in range(rng.randint(2, 10 if long else 4)):
        what = rng.random()
        careful = rng.random() < 0.85
        if what < 0.5:
            typing(rng.randint(0, 2), careful)
            s.extend(tap(rng.choice(["rec1", "rec2"]), 1, 1 if careful else rng.choice([0, 1])))
            n = rng.randint(0, 14 if long else 6)
            typing(n, careful)
            if rng.random() < 0.25:
                s.extend(tap(rng.choice(["play1", "play2"]), 1, 0))
                s.append(["t", rng.choice([40, 40, 3])])
                typing(rng.randint(0, 3), careful)
            s.extend(tap(rng.choice(["stop", "stop", "stopt1", "stopt2", "rec1", "rec2"]), 1, 2 if careful else rng.choice([0, 1, 2])))
            if rng.random() < 0.3:
                s.extend(tap("stop", 1, 2))
        elif what < 0.9:
            if rng.random() < 0.6:
                for k in sorted(down):
                    s.extend([["u", C(k)], ["t", 1]])
                down.clear()
            s.extend(tap(rng.choice(["play1", "play2"]), rng.choice([1, 2, 8]), 0))
            s.append(["t", rng.choice([120, 120, 60, 4, 12])])
        else:
            typing(rng.randint(1, 5), careful)
    for k in sorted(down):
        s.extend([["u", C(k)], ["t", 1]])
    s.extend(tap("stop", 1, 2))
    s.append(["t", 200])
    return s


def CONFIGS():
    AB = {"a": K("a"), "b": {"t": "chord", "mods": ["lctl"], "k": "b"}}
    allctl = ["rec1", "rec2", "stop", "stopt1", "stopt2", "play1", "play2"]
    return [("full_const", make(allctl, AB, "constant", 3, layer=True)),
            ("full_rec", make(allctl, AB, "recorded", 3, layer=True)),
            ("full_big", make(allctl, AB, "recorded", 128, layer=True)),
            ("taphold", make(allctl, {}, "recorded", 8, th=("c", 4, "a", "lsft")))]


_SRC = {}


def panic_site(err):
    """`panic in the code under test: <file>:<line>` -> `<file relative to the tree> fn <name>` (line numbers shift)"""
    m = re.search(r"panic in the code under test: (\S+?):(\d+)", err)
    if not m:
        return ""
    path, line = m.group(1), int(m.group(2))
    full = path if os.path.isabs(path) else os.path.join(REPO, path)
    if full not in _SRC:
        try:
            _SRC[full] = open(full, encoding="utf-8", errors="replace").read().splitlines()
        except OSError:
            _SRC[full] = []
    fn = "?"
    for i in range(min(line, len(_SRC[full])) - 1, -1, -1):
        mm = re.match(r"\s*(?:pub(?:\([a-z]+\))?\s+)?fn\s+([A-Za-z0-9_]+)", _SRC[full][i])
        if mm:
            fn = mm.group(1)
            break
    rel = full[len(REPO) + 1:] if full.startswith(REPO + "/") else path
    return "C19 panic %s fn %s" % (rel, fn)


def run(tier, seed):
    pid = "C19"
    res = flow.Result(pid, tier, seed)
    rng = random.Random(seed)
    wd = workdir("c19")
    only = os.environ.get("C19_ONLY")
    witness_jobs = []
    # ---- bindings D + B: TLC explores L1 || P_C19 || typing environment; every transition replayed on the code
    fam = [f for f in family(tier) if not only or f[0] in only.split(",")]

    def one(f):
        name, (desc, params), kw = f
        # one directory per instance: the instances of the quick tier run concurrently
        return name, params, mc.check_instance(instance(name, desc, params, drift_limit=150 if tier == "quick" else 1500, **kw),
                                               workdir("c19/" + name),
                                               workers=2 if tier == "quick" else 6, timeout=3000)
    build_harness()
    cfgdesc.keytable()
    if tier == "quick":
        from concurrent.futures import ThreadPoolExecutor
        with ThreadPoolExecutor(max_workers=2) as ex:
            results = list(ex.map(one, fam))
    else:
        results = [one(f) for f in fam]
    for name, params, r in results:
        res.add_instance(r)
        log("[c19] %s: %s" % (name, {k: r.get(k) for k in ("states", "generated", "edges", "replayed", "drift", "n_monerr",
                                                         "n_panic", "tlc_wall_s", "wall_s")}))
        nsync = r["n_syncdone"]
        res.extra.setdefault("replays_followed_to_the_end_by_the_monitor", {})[name] = nsync
        if nsync == 0:
            raise ToolError("vacuous instance %s: the monitor never followed a replay to its end" % name)
        if len(res.samples) < 3:
            res.samples.append({"instance": name, "kbd": open(r["kbd"]).read(), "states": r["states"], "edges": r.get("edges")})
        ws = flow.witness_scripts(r["monerr_file"], 40) + flow.witness_scripts(r["panic_file"], 10)
        scripts = [flow.hist_to_script(w["h"], 80) for w in ws] + \
                  [flow.hist_to_script(d["h"], 80) for d in r.get("drift_samples", [])]
        if scripts:
            witness_jobs.append({"cfg": open(r["kbd"]).read(), "params": params, "tag": "w:" + name, "scripts": scripts})
    if tier != "quick" and not only:
        res.extra["model_mutants_rejected"] = selftest_model(wd)
    # ---- binding C: histories beyond the bounds of the instances, recorded from the code, validated by TLC
    directed_jobs, random_jobs = [], []
    if not only or "traces" in only.split(","):
        for cname, (desc, params) in CONFIGS():
            kbd = cfgdesc.render_kbd(desc)
            enum, fixed = directed(cname, rng, tier)     # fixed: nesting / recursion / limit scenarios, always run
            ds = (rng.sample(enum, 70) if tier == "quick" and len(enum) > 70 else enum) + fixed
            directed_jobs.append({"cfg": kbd, "params": params, "tag": "d:" + cname, "scripts": ds})
            n = 30 if tier == "quick" else 300
            random_jobs.append({"cfg": kbd, "params": params, "tag": "r:" + cname,
                                "scripts": [random_session(rng, cname, long=(i % 3 == 0)) for i in range(n)]})
    for label, jobs in (("witness", witness_jobs), ("directed", directed_jobs), ("random", random_jobs)):
        if not jobs:
            continue
        jobs = shard_local_index(jobs)
        errs, trace = record_and_validate(res, "P_C19", jobs, wd, "c19_" + label)
        for e in errs:
            if len(res.violations) >= 25:       # enough replay files; the rest is only counted
                res.extra["further_rejections_not_written"] = res.extra.get("further_rejections_not_written", 0) + 1
                continue
            j, sc = script_of(jobs, e["job"], 0)
            flow.classify(res, pid, e["err"], e["err"] + " " + panic_site(e["err"]) + " cfg=" + j["cfg"],
                          {"property": pid, "cfg": j["cfg"], "params": j["params"], "script": sc, "err": e["err"],
                           "monitor": "P_C19"},
                          "%s_%d" % (label, len(res.violations)))
        if label != "witness":
            res.samples.append({label + "_history": jobs[0]["scripts"][0][:40], "cfg": jobs[0]["cfg"]})
        log("[c19] %s: %d scripts, %d rejected" % (label, len(jobs), len(errs)))
    return flow.finish(
        res, "model_checking",
        "TLC explores L1 (Kanata.tla + DynMacro.tla) || P_C19 || typing environment for every physically consistent typing "
        "history within the bounds of each instance (record / stop / stop-truncate / record-key-as-stop / play keys, a plain key, "
        "an output chord, a layer-while-held key, a tap-hold key; constant and recorded replay delays; size limit; nested play and "
        "the recursion guard with two macros; bursts and typing during the replay); every model transition is replayed on the real "
        "code (stored macros, record/replay flags and the executed tick count compared); scenario scripts enumerated beyond the "
        "bounds (all bodies of <=3/4 events x keys held across the start x five ways of stopping; nesting, recursion, re-recording, "
        "play while recording, size limit) and random sessions are recorded from the code and validated by TLC against P_C19.",
        assumptions=["deterministic stepper",
                     "control key presses are processed before the next input arrives in the exhaustive instances (otherwise the "
                     "recording boundary is not determined by the input order; such histories are in the random sessions, where the "
                     "monitor keeps only the nothing-stays-down part)",
                     "exhaustive instances do not expand states where two or more keys were still down at the stop (unspecified release "
                     "order); the scenario scripts cover them on the code"])
