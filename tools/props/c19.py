"""C19 - dynamic macros replay what was typed and never leave a key down."""
from props.common import *

K = lambda k: {"t": "key", "k": k}
RAW = lambda t: {"t": "raw", "text": t}
# key names used for the control keys (their own keys are never output by anything else)
CTL = {"rec1": ("1", "rec", 1), "rec2": ("2", "rec", 2), "stop": ("3", "stop", 0), "stopt1": ("4", "stop", 1),
       "play1": ("5", "play", 1), "play2": ("6", "play", 2), "stopt2": ("7", "stop", 2)}
CTL_TEXT = {"rec": "(dynamic-macro-record %d)", "play": "(dynamic-macro-play %d)"}


def ctl_text(kind, n):
    if kind == "stop":
        return "dynamic-macro-record-stop" if n == 0 else "(dynamic-macro-record-stop-truncate %d)" % n
    return CTL_TEXT[kind] % n


def make(ctl, plain, mode="constant", maxp=1, layer=False, th=None):
    """ctl: names from CTL; plain: {key name: action desc}; layer: add lsft = (layer-while-held l1) with a second
    mapping of the plain keys; th: (key, T, tap, hold) one tap-hold key.
    Returns (desc for the .kbd text, monitor parameters) - two independent renderings of the description."""
    keys, l0, l0ref = [], {}, {}
    for n in ctl:
        k, kind, num = CTL[n]
        keys.append(k)
        l0[k] = RAW(ctl_text(kind, num))
        l0ref[k] = {"t": "xx"}
    for k, a in plain.items():
        keys.append(k)
        l0[k] = a
        l0ref[k] = a
    layers, layersref = [l0], [l0ref]
    if layer:
        keys.append("lsft")
        l0["lsft"] = l0ref["lsft"] = {"t": "lwh", "l": 1}
        alt = {"a": "x", "b": "y"}
        l1 = {k: K(alt[k]) for k in plain if k in alt}
        layers.append(l1)
        layersref.append(l1)
    ths = []
    if th:
        k, T, tap, hold = th
        keys.append(k)
        l0[k] = {"t": "th", "variant": "tap-hold", "tt": T, "ht": T, "tap": K(tap), "hold": K(hold)}
        l0ref[k] = {"t": "xx"}
        ths.append({"c": cfgdesc.code(k), "T": T, "tap": cfgdesc.code(tap), "hold": cfgdesc.code(hold)})
    defcfg = {"dynamic-macro-max-presses": maxp, "dynamic-macro-replay-delay-behaviour": mode}
    desc = {"keys": keys, "layers": layers, "defcfg": defcfg}
    refdesc = {"keys": keys, "layers": layersref, "defcfg": {}}
    params = {"c04": cfgdesc.c04_params(refdesc),
              "ctl": [{"c": cfgdesc.code(CTL[n][0]), "k": CTL[n][1], "n": CTL[n][2]} for n in ctl],
              "th": ths, "max": maxp, "recorded": mode == "recorded",
              # the gaps between recorded events are only read for time-sensitive keys replayed with recorded delays
              "gcap": (th[1] + 2) if (th and mode == "recorded") else 0}
    return desc, params


def instance(name, desc, params, D=1, qmax=2, maclen=None, free_replay=False, saves=2):
    """The exhaustive instance: every physically consistent typing history over the keys, every gap 0..D between
    recorded events.  Environment: no input while a control key press waits in the queue (the recording boundary
    would not be determined by the input order); unless free_replay, only control keys are released while a replay
    runs.  States in which a macro was saved with two or more synthesized releases are not expanded (HashSet
    iteration order, DynMacro.tla)."""
    kbd = cfgdesc.render_kbd(desc)
    keys = [cfgdesc.code(k) for k in desc["keys"]]
    ctl = "{" + ", ".join(str(c["c"]) for c in params["ctl"]) + "}"
    ctlq = "(\\E i \\in DOMAIN K.L.queue : K.L.queue[i].p /\\ K.L.queue[i].x = 0 /\\ K.L.queue[i].y \\in %s)" % ctl
    defs = ["DynBound == /\\ ~K.dyn.amb /\\ K.dyn.ns <= %d" % saves + " /\\ (K.dyn.rec = <<>> \\/ K.dyn.rec[1].delay <= %d)" % D
            + ("" if maclen is None else
               " /\\ (K.dyn.rec = <<>> \\/ Len(K.dyn.rec[1].items) <= %d)" % maclen)]
    guard = "/\\ ~" + ctlq
    inst = {"name": "c19_" + name, "kbd": kbd, "keys": keys, "qmax": qmax,
            "monitor": {"module": "P_C19", "params": params},
            "constraint": "DynBound", "extra_defs": "\n".join(defs), "extra_guard": guard,
            "invariants": []}
    if not free_replay:
        # while a replay runs only releases of control keys are typed
        inst["extra_guard"] = guard + " /\\ K.dyn.rep = <<>>"
        inst["extra_actions"] = ("RelCtl(c) == /\\ Alive /\\ Len(K.L.queue) < QMax /\\ K.dyn.rep # <<>> /\\ ~%s /\\ c \\in phys /\\ c \\in %s\n" % (ctlq, ctl) +
                                 "             /\\ K' = HandleInput(K, \"u\", c) /\\ phys' = phys \\ {c}\n"
                                 "             /\\ mon' = Mon!MonIn(mon, [e |-> \"u\", c |-> c, out |-> K'.out])\n"
                                 "             /\\ hist' = Append(hist, <<\"u\", c>>)")
        inst["extra_next"] = "\\/ (\\E c \\in EnvKeys : RelCtl(c))"
    return inst


def family(tier):
    F = []
    A = {"a": K("a")}
    AB = {"a": K("a"), "b": {"t": "chord", "mods": ["lsft"], "k": "b"}}
    F.append(("basic_const", make(["rec1", "stop", "play1"], A, "constant", 1), dict(D=1)))
    return F


def run(tier, seed):
    pid = "C19"
    res = flow.Result(pid, tier, seed)
    rng = random.Random(seed)
    wd = workdir("c19")
    for name, (desc, params), kw in family(tier):
        inst = instance(name, desc, params, **kw)
        r = mc.check_instance(inst, wd, workers=8, timeout=1500)
        res.add_instance(r)
        log("[c19] %s: %s" % (name, {k: r.get(k) for k in ("states", "generated", "edges", "replayed", "drift", "n_monerr",
                                                         "n_panic", "tlc_wall_s", "wall_s")}))
        if r.get("drift"):
            log(json.dumps(r["drift_samples"][:2])[:3000])
    return 0
