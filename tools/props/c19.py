"""C19 - dynamic macros replay what was typed and never leave a key down."""
from props.common import *

K = lambda k: {"t": "key", "k": k}
RAW = lambda t: {"t": "raw", "text": t}
# key names used for the control keys (their own keys are never output by anything else)
CTL = {"rec1": ("1", "rec", 1), "rec2": ("2", "rec", 2), "stop": ("3", "stop", 0), "stopt1": ("4", "stop", 1),
       "play1": ("5", "play", 1), "play2": ("6", "play", 2), "stopt2": ("7", "stop", 2)}
CTL_TEXT = {"rec": "(dynamic-macro-record %d)", "play": "(dynamic-macro-play %d)"}


def ctl_text(kind, n):
    if kind == "stop":
        return "dynamic-macro-record-stop" if n == 0 else "(dynamic-macro-record-stop-truncate %d)" % n
    return CTL_TEXT[kind] % n


def make(ctl, plain, mode="constant", maxp=1, layer=False, th=None):
    """ctl: names from CTL; plain: {key name: action desc}; layer: add lsft = (layer-while-held l1) with a second
    mapping of the plain keys; th: (key, T, tap, hold) one tap-hold key.
    Returns (desc for the .kbd text, monitor parameters) - two independent renderings of the description."""
    keys, l0, l0ref = [], {}, {}
    for n in ctl:
        k, kind, num = CTL[n]
        keys.append(k)
        l0[k] = RAW(ctl_text(kind, num))
        l0ref[k] = {"t": "xx"}
    for k, a in plain.items():
        keys.append(k)
        l0[k] = a
        l0ref[k] = a
    layers, layersref = [l0], [l0ref]
    if layer:
        keys.append("lsft")
        l0["lsft"] = l0ref["lsft"] = {"t": "lwh", "l": 1}
        alt = {"a": "x", "b": "y"}
        l1 = {k: K(alt[k]) for k in plain if k in alt}
        layers.append(l1)
        layersref.append(l1)
    ths = []
    if th:
        k, T, tap, hold = th
        keys.append(k)
        l0[k] = {"t": "th", "variant": "tap-hold", "tt": T, "ht": T, "tap": K(tap), "hold": K(hold)}
        l0ref[k] = {"t": "xx"}
        ths.append({"c": cfgdesc.code(k), "T": T, "tap": cfgdesc.code(tap), "hold": cfgdesc.code(hold)})
    defcfg = {"dynamic-macro-max-presses": maxp, "dynamic-macro-replay-delay-behaviour": mode}
    desc = {"keys": keys, "layers": layers, "defcfg": defcfg}
    refdesc = {"keys": keys, "layers": layersref, "defcfg": {}}
    params = {"c04": cfgdesc.c04_params(refdesc),
              "ctl": [{"c": cfgdesc.code(CTL[n][0]), "k": CTL[n][1], "n": CTL[n][2]} for n in ctl],
              "th": ths, "max": maxp, "recorded": mode == "recorded",
              # the gaps between recorded events are only read for time-sensitive keys replayed with recorded delays
              "gcap": (th[1] + 2) if (th and mode == "recorded") else 0}
    return desc, params


ENV_TLA = r"""
\* ----- the typing environment of the C19 instances -------------------------------------------------
CtlCodes == %(ctl)s
RecCodes == %(rec)s
CtlQueued == \E i \in DOMAIN K.L.queue : K.L.queue[i].p /\ K.L.queue[i].x = 0 /\ K.L.queue[i].y \in CtlCodes
\* no input while a control key press waits in the queue (the recording boundary would not be determined by
\* the input order); a recording is started only while fewer than Saves macros were saved; plain keys are
\* pressed only until the last save%(replay_doc)s
EnvCan == Alive /\ Len(K.L.queue) < QMax /\ ~CtlQueued
EPress(c) == /\ EnvCan /\ c \notin phys %(press_guard)s
             /\ (c \in RecCodes => K.dyn.ns < %(saves)d)
             /\ (c \notin CtlCodes => K.dyn.ns < %(saves)d)
             /\ K' = HandleInput(K, "d", c) /\ phys' = phys \cup {c}
             /\ mon' = Mon!MonIn(mon, [e |-> "d", c |-> c, out |-> K'.out])
             /\ hist' = Append(hist, <<"d", c>>)
ERelease(c) == /\ EnvCan /\ c \in phys %(release_guard)s
               /\ K' = HandleInput(K, "u", c) /\ phys' = phys \ {c}
               /\ mon' = Mon!MonIn(mon, [e |-> "u", c |-> c, out |-> K'.out])
               /\ hist' = Append(hist, <<"u", c>>)
"""


def instance(name, desc, params, D=1, qmax=1, maclen=3, free_replay=False, saves=1):
    """The exhaustive instance: every physically consistent typing history over the keys within the bounds: at most
    `saves` macros saved, at most `maclen` stored events in a recording, gaps 0..D ticks between recorded events,
    at most qmax unprocessed events.  States in which a macro was saved with two or more synthesized releases are
    not expanded (HashSet iteration order, DynMacro.tla)."""
    kbd = cfgdesc.render_kbd(desc)
    keys = [cfgdesc.code(k) for k in desc["keys"]]
    ctl = "{" + ", ".join(str(c["c"]) for c in params["ctl"]) + "}"
    rec = "{" + ", ".join(str(c["c"]) for c in params["ctl"] if c["k"] == "rec") + "}"
    env = ENV_TLA % dict(
        ctl=ctl, rec=rec, saves=saves,
        replay_doc="" if free_replay else "; while a replay runs only control keys are released",
        press_guard="" if free_replay else "/\\ K.dyn.rep = <<>>",
        release_guard="" if free_replay else "/\\ (K.dyn.rep = <<>> \\/ c \\in CtlCodes)")
    bound = ("DynBound == /\\ ~K.dyn.amb /\\ K.dyn.ns <= %d /\\ (K.dyn.rec = <<>> \\/ (K.dyn.rec[1].delay <= %d /\\ "
             "Len(K.dyn.rec[1].items) <= %d))" % (saves, D, maclen))
    return {"name": "c19_" + name, "kbd": kbd, "keys": keys, "qmax": qmax,
            "monitor": {"module": "P_C19", "params": params},
            "constraint": "DynBound", "extra_defs": bound, "extra_guard": "/\\ FALSE",
            "extra_actions": env, "extra_next": "\\/ (\\E c \\in EnvKeys : EPress(c) \\/ ERelease(c))",
            "invariants": []}


def family(tier):
    F = []
    A = {"a": K("a")}
    AB = {"a": K("a"), "b": {"t": "chord", "mods": ["lsft"], "k": "b"}}
    F.append(("basic_const", make(["rec1", "stop", "play1"], A, "constant", 1), dict(D=1, saves=1, maclen=3)))
    return F


def run(tier, seed):
    pid = "C19"
    res = flow.Result(pid, tier, seed)
    rng = random.Random(seed)
    wd = workdir("c19")
    for name, (desc, params), kw in family(tier):
        inst = instance(name, desc, params, **kw)
        r = mc.check_instance(inst, wd, workers=8, timeout=1500)
        res.add_instance(r)
        log("[c19] %s: %s" % (name, {k: r.get(k) for k in ("states", "generated", "edges", "replayed", "drift", "n_monerr",
                                                         "n_panic", "tlc_wall_s", "wall_s")}))
        if r.get("drift"):
            log(json.dumps(r["drift_samples"][:2])[:3000])
    return 0
