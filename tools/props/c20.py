"""C20 - zippychord leaves exactly the expansion on screen.
L1 = spec/Zippy.tla (transliteration of zippychord.rs, constants from the real parser via `kverif zippy-dump`),
L2 = spec/P_C20.tla (text-buffer model + expectation, parameters from the text-level dictionary description).
  D  TLC: (identity layout queue || Zippy) |= P_C20 for every history within the bounds
  B  every model transition replayed on the real code (`kverif zippy-edges`), OS output + idle compared
  C  random dictionaries x random typing histories recorded from the real code, validated by TLC against P_C20"""
import itertools
from props.common import *

MOD_NAMES = ["lsft", "rsft", "ralt"]
IGNORED = ["lsft", "rsft", "lmet", "rmet", "lctl", "rctl", "lalt", "ralt", "esc", "bspc", "del"]
CHAR_NAME = {" ": "spc", ",": "comm", ";": "scln"}
NAME_CHAR = {v: k for k, v in CHAR_NAME.items()}


def kname(ch):
    return CHAR_NAME.get(ch, ch)


def kchar(name):
    return NAME_CHAR.get(name, name)


# ---------------------------------------------------------------- description -> texts
# desc = {"lines": [{"chain": [[key names]...], "out": "Text"}], "D": int, "W": int, "ss": "none|add-space-only|full",
#         "punct": [key names] | None, "keys": [character key names of the environment], "mods": [modifier names]}
def dict_text(desc):
    """The dictionary file given to the real parser."""
    rows = []
    for ln in desc["lines"]:
        chords = []
        for ch in ln["chain"]:
            s = "".join(kchar(k) for k in ch if k != "spc")
            if "spc" in ch:
                s = " " + s
            chords.append(s)
        rows.append(" ".join(chords) + "\t" + ln["out"])
    return "\n".join(rows) + "\n"


def kbd_text(desc):
    keys = desc["keys"] + desc["mods"]
    opts = "on-first-press-chord-deadline %d idle-reactivate-time %d smart-space %s" % (desc["D"], desc["W"], desc["ss"])
    if desc.get("punct") is not None:
        opts += " smart-space-punctuation (%s)" % " ".join(desc["punct"])
    return "(defsrc %s)\n(deflayer l0 %s)\n(defzippy dict %s)\n" % (" ".join(keys), " ".join(keys), opts)


def out_spec(text):
    return [{"c": cfgdesc.code(kname(ch.lower())), "sh": ch.isupper(), "ag": False} for ch in text]


def params_of(desc, fwin, qcap):
    """Text-level parameters of P_C20 (independent of the parser)."""
    C = cfgdesc.code
    punct = desc.get("punct")
    if punct is None:
        # documented default `, . ;` ("." has no entry in the harness key table; it is never in the alphabet here)
        punct = ["comm", "scln"]
    return {"nodes": [{"chain": [[C(k) for k in ch] for ch in ln["chain"]], "out": out_spec(ln["out"])}
                      for ln in desc["lines"]],
            "D": desc["D"], "W": desc["W"], "ss": {"none": "none", "add-space-only": "add", "full": "full"}[desc["ss"]],
            "punct": [{"c": C(k), "sh": False, "ag": False} for k in punct],
            "lsft": C("lsft"), "rsft": C("rsft"), "ralt": C("ralt"), "bspc": C("bspc"), "spc": C("spc"),
            "chars": [C(k) for k in desc["keys"]], "fwin": fwin, "qcap": qcap}


def job_of(desc):
    return {"cfg": kbd_text(desc), "files": {"dict": dict_text(desc)}}


# ---------------------------------------------------------------- binding A: constants of Zippy.tla from the parser
def zippy_dump(desc, wd, name):
    build_harness()
    jf = os.path.join(wd, name + ".job.json")
    json.dump(job_of(desc), open(jf, "w"))
    dict_keys = sorted({cfgdesc.code(k) for ln in desc["lines"] for ch in ln["chain"] for k in ch})
    outp = os.path.join(wd, name + ".zdump.json")
    p = sh([HARNESS, "zippy-dump", jf, ",".join(map(str, dict_keys)), outp], check=False)
    if p.returncode != 0:
        raise ToolError("zippy-dump failed for %s:\n%s\n%s" % (name, p.stdout, dict_text(desc)))
    return json.load(open(outp)), jf


def has_empty_prefix_fix():
    """The empty-output arm of zch_press_key starts zchd_prior_activation_output_count anew for a non-follow-up chord
    (proposed_fixes/c20_empty_prefix_chord.diff): detected in the source text of the tree under test so that L1 follows it."""
    import re
    src = open(os.path.join(REPO, "src", "kanata", "output_logic", "zippychord.rs")).read()
    return re.search(r"if\s*!is_prioritized_activation\s*\{[^}]*zchd_prior_activation_output_count\s*=\s*0\s*;", src) is not None


def zippy_constants(dump, since_cap=12, bug="none"):
    """TLA+ constant definitions; also cross-checks that the 'equals / is a subset of a key' reading of
    parser/src/subset.rs reproduces the real answer for every subset of the dictionary keys."""
    C = cfgdesc.code
    maps = []
    for table in dump["maps"]:
        exact = [(frozenset(e["keys"]), e["n"]) for e in table if e["k"] == "H"]
        for e in table:
            s = frozenset(e["keys"])
            if not s:
                k = "S" if exact else "N"
            elif any(s == ks for ks, _ in exact):
                k = "H"
            elif any(s <= ks for ks, _ in exact):
                k = "S"
            else:
                k = "N"
            if k != e["k"]:
                raise ToolError("subset-map semantics differ from the model for key set %r: real %s, model %s" %
                                (sorted(s), e["k"], k))
        maps.append([{"keys": set(ks), "n": n} for ks, n in exact])
    nodes = [{"out": n["out"], "fmap": n["fmap"]} for n in dump["nodes"]]
    opts = {"deadline": dump["deadline"], "wait_enable": dump["wait_enable"], "smart_space": dump["smart_space"],
            "punct": "@PUNCT@", "top": dump["top"],
            "lsft": C("lsft"), "rsft": C("rsft"), "ralt": C("ralt"), "bspc": C("bspc"), "spc": C("spc"),
            "ignored": set(C(k) for k in IGNORED), "force_reset": 10000, "since_cap": since_cap, "hold_cap": 2,
            "old_empty_prefix": not has_empty_prefix_fix()}
    punct = "{" + ", ".join(tla_val(x) for x in dump["punct"]) + "}"
    return "\n".join([
        "ZMapsDef == " + tla_val(maps),
        "ZNodesDef == " + tla_val(nodes),
        "ZOptsDef == " + tla_val(opts).replace('"@PUNCT@"', punct),
        "ZBugDef == " + tla_val(bug)])


# ---------------------------------------------------------------- L3: the generated instance
MC_TEMPLATE = r'''---- MODULE %(mod)s ----
EXTENDS Zippy, Json
Mon == INSTANCE P_C20
%(consts)s
CharKeys == %(chars)s
ModKeys == %(mods)s
QMax == %(qmax)d
MaxEp == %(maxep)d
MaxMod == %(maxmod)d
MaxIdle == %(maxidle)d
MaxHold == %(maxhold)d
MonParams == %(monparams)s

\* q: the identity layout's event queue (one event leaves it per tick); np = <<character presses, modifier presses, idle ticks so far, character presses in the current hold>>
\* (the environment: at most MaxEp character presses, MaxMod modifier presses and MaxIdle ticks with an empty queue in a history)
VARIABLES z, q, phys, np, mon, hist
Init == z = ZInit /\ q = <<>> /\ phys = {} /\ np = <<0, 0, 0, 0>> /\ mon = Mon!MonInit(MonParams) /\ hist = <<>>
MonOk == mon.err = ""
CanInput == MonOk /\ Len(q) < QMax
\* a bound of 0 means "not bounded" (and the counter is not kept)
Cnt(i, bound) == IF bound = 0 THEN 0 ELSE np[i] + 1
Press(c) == /\ CanInput /\ c \notin phys
            /\ (IF c \in CharKeys THEN (MaxEp = 0 \/ np[1] < MaxEp) /\ np[4] < MaxHold
                                   ELSE (MaxMod = 0 \/ np[2] < MaxMod))
            /\ q' = Append(q, <<"d", c>>) /\ phys' = phys \cup {c}
            /\ np' = IF c \in CharKeys THEN <<Cnt(1, MaxEp), np[2], np[3], np[4] + 1>> ELSE <<np[1], Cnt(2, MaxMod), np[3], np[4]>>
            /\ mon' = Mon!MonIn(mon, [e |-> "d", c |-> c, out |-> <<>>])
            /\ hist' = Append(hist, <<"d", c>>) /\ UNCHANGED z
Release(c) == /\ CanInput /\ c \in phys
              /\ q' = Append(q, <<"u", c>>) /\ phys' = phys \ {c}
              /\ np' = IF phys' \cap CharKeys = {} THEN <<np[1], np[2], np[3], 0>> ELSE np
              /\ mon' = Mon!MonIn(mon, [e |-> "u", c |-> c, out |-> <<>>])
              /\ hist' = Append(hist, <<"u", c>>) /\ UNCHANGED z
\* src: kanata/mod.rs:846-863 tick_states: handle_keystate_changes (one queued event) then zippy_tick
StepTick == LET r == IF q = <<>> THEN [z |-> z, out |-> <<>>]
                     ELSE IF q[1][1] = "d" THEN ZPress(z, q[1][2]) ELSE ZRelease(z, q[1][2])
                z1 == ZTick(r.z)
                q1 == IF q = <<>> THEN q ELSE Tail(q)
            IN [z |-> z1, q |-> q1, out |-> r.out, idle |-> q1 = <<>> /\ ZIsIdle(z1)]
Tick == /\ MonOk /\ (q = <<>> => MaxIdle = 0 \/ np[3] < MaxIdle)
        /\ np' = IF q = <<>> THEN <<np[1], np[2], Cnt(3, MaxIdle), np[4]>> ELSE np
        /\ LET s == StepTick IN
           /\ z' = s.z /\ q' = s.q
           /\ mon' = Mon!MonTick(mon, s.out, s.idle, s.idle)
        /\ UNCHANGED phys
        /\ hist' = Append(hist, <<"t">>)
Next == (\E c \in CharKeys \cup ModKeys : Press(c) \/ Release(c)) \/ Tick
View == <<z, q, phys, np, mon>>
LastIsTick == hist'[Len(hist')][1] = "t"
Edge == PrintT(<<"EDGE", ToJson([h |-> hist', x |-> IF LastIsTick THEN [out |-> StepTick.out, idle |-> StepTick.idle]
                                                     ELSE [out |-> <<>>]])>>)
MonProbe == MonOk \/ PrintT(<<"MONERR", ToJson([h |-> hist, err |-> mon.err])>>)
\* coverage probes (vacuity): activations of each kind seen by the monitor
====
'''

MC_CFG = """CONSTANT ZMaps <- ZMapsDef
CONSTANT ZNodes <- ZNodesDef
CONSTANT ZOpts <- ZOptsDef
CONSTANT ZBug <- ZBugDef
INIT Init
NEXT Next
VIEW View
%(edge)s
CHECK_DEADLOCK FALSE
INVARIANT MonProbe
"""


def mod_name(name):
    return "MC_c20_" + name


def replay_zippy_edges(jobfile, edges_file, shards=None):
    build_harness()
    shards = shards or min(NCPU, 12)
    lines = open(edges_file).read().splitlines()
    if not lines:
        return {"edges": 0, "mismatches": 0, "panics": 0, "samples": []}
    n = max(1, min(shards, len(lines) // 500 + 1))
    procs = []
    for i in range(n):
        part = edges_file + ".part%d" % i
        with open(part, "w") as f:
            f.write("\n".join(lines[i::n]) + "\n")
        outp = part + ".res.json"
        procs.append((subprocess.Popen([HARNESS, "zippy-edges", jobfile, part, outp],
                                       stdout=subprocess.PIPE, stderr=subprocess.STDOUT, text=True), part, outp))
    tot = {"edges": 0, "mismatches": 0, "panics": 0, "samples": []}
    for p, part, outp in procs:
        so, _ = p.communicate()
        if p.returncode != 0:
            raise ToolError("zippy-edges failed: " + (so or ""))
        r = json.load(open(outp))
        for k in ("edges", "mismatches", "panics"):
            tot[k] += r[k]
        tot["samples"] += r["samples"]
        os.remove(part)
        os.remove(outp)
    tot["samples"].sort(key=lambda d: len(d["h"]))
    return tot


def check_instance(name, desc, wd, qmax=1, maxep=0, maxmod=0, maxidle=0, maxhold=3, since_cap=0, bug="none", edges=True, workers=6, timeout=900, replay=True):
    """TLC exhaustive run (binding D) + edge-cover replay on the real code (binding B)."""
    t0 = time.time()
    C = cfgdesc.code
    dump, jobfile = zippy_dump(desc, wd, name)
    if dump["deadline"] != desc["D"] or dump["wait_enable"] != desc["W"] or \
            dump["smart_space"] != {"none": "none", "add-space-only": "add", "full": "full"}[desc["ss"]]:
        # The options in force are not the written ones.  That is for P_C20 to judge (its parameters come from the text):
        # L1 would follow the parser (binding A) with the wrong, possibly huge, time constants, so the exhaustive
        # exploration of this instance is skipped and the traces recorded from the real code decide.
        return {"name": name, "states": 0, "generated": 0, "tlc_wall_s": 0, "wall_s": round(time.time() - t0, 1),
                "n_monerr": 0, "n_panic": 0, "n_nostutter": 0, "monerr_file": os.path.join(wd, mod_name(name) + ".none"),
                "skipped": "defzippy options in force differ from the text: written D=%s W=%s ss=%s, parser deadline=%s "
                           "wait_enable=%s smart_space=%s" % (desc["D"], desc["W"], desc["ss"], dump["deadline"],
                                                              dump["wait_enable"], dump["smart_space"])}
    consts = zippy_constants(dump, since_cap=since_cap, bug=bug)
    params = params_of(desc, fwin=10000, qcap=desc["W"] + 1)
    mod = "MC_c20_" + name
    text = MC_TEMPLATE % dict(mod=mod, consts=consts, chars=tla_val(set(C(k) for k in desc["keys"])),
                              mods=tla_val(set(C(k) for k in desc["mods"])), qmax=qmax, maxep=maxep, maxmod=maxmod, maxidle=maxidle, maxhold=maxhold,
                              monparams=tla_val(params))
    open(os.path.join(wd, mod + ".tla"), "w").write(text)
    open(os.path.join(wd, mod + ".cfg"), "w").write(MC_CFG % dict(edge="ACTION_CONSTRAINT Edge" if edges else ""))
    r = run_tlc(wd, mod, workers=workers, timeout=timeout, heap="4g")
    if r["rc"] == 124:
        raise ToolError("TLC timed out on %s" % mod)
    if r["error"] and not r["violated"]:
        raise ToolError("TLC error on %s: %s (see %s)" % (mod, r["error"], r["out"]))
    if not r["finished"]:
        raise ToolError("TLC did not finish on %s (see %s)" % (mod, r["out"]))
    res = {"name": name, "states": r["distinct"], "generated": r["generated"], "tlc_wall_s": round(r["wall_s"], 1),
           "jobfile": jobfile, "params": params}
    mf = os.path.join(wd, mod + ".monerr.ndjson")
    res["n_monerr"] = extract_prints(r["out"], "MONERR", mf)
    res["monerr_file"] = mf
    res["n_panic"] = 0
    res["n_nostutter"] = 0
    if edges:
        ef = os.path.join(wd, mod + ".edges.ndjson")
        res["edges"] = extract_prints(r["out"], "EDGE", ef)
        if replay and res["edges"]:
            rr = replay_zippy_edges(jobfile, ef)
            res["replayed"] = rr["edges"]
            res["drift"] = rr["mismatches"]
            res["drift_samples"] = rr["samples"]
            res["impl_panics"] = rr["panics"]
    res["wall_s"] = round(time.time() - t0, 1)
    return res


# ---------------------------------------------------------------- binding C: histories recorded from the real code
def chord_attempts(desc, rng, limit=None, d_gaps=None):
    """The quantifier of the statement, spelled out as harness scripts: every entry of the dictionary (its antecedent
    chords performed first), every permutation of its keys, gaps below the deadline, without / with a shift held,
    followed by 1-2 further keys (pressed while the chord is still held, right after releasing it, or after a pause)."""
    C = cfgdesc.code
    D, W = desc["D"], desc["W"]
    gaps = d_gaps or sorted({1, max(1, (D - 1) // 2), max(1, D - 1)})
    keys = [C(k) for k in desc["keys"]]
    shifts = [None] + [C(m) for m in desc["mods"] if m in ("lsft", "rsft")]
    out = []

    def chord(perm, gap, release=True):
        s = []
        for k in perm:
            s += [["d", k], ["t", gap]]
        if release:
            for k in perm:
                s += [["u", k], ["t", 1]]
        return s

    for ln in desc["lines"]:
        chain = [[C(k) for k in ch] for ch in ln["chain"]]
        for perm in itertools.permutations(chain[-1]):
            for gap in gaps:
                for sftk in shifts:
                    pre = []
                    for ch in chain[:-1]:
                        p = list(ch)
                        rng.shuffle(p)
                        pre += chord(p, 1)
                    head = pre + ([["d", sftk], ["t", 1]] if sftk else []) + chord(perm, gap, release=False)
                    rel = []
                    for k in perm:
                        rel += [["u", k], ["t", 1]]
                    usft = [["u", sftk], ["t", 1]] if sftk else []
                    tails = [rel + usft]
                    for k1 in keys:
                        tap1 = [["d", k1], ["t", 1], ["u", k1], ["t", 1]]
                        if k1 not in perm:
                            # a further key while the chord is still held (extension / overlap / literal)
                            tails.append([["d", k1], ["t", 1]] + rel + [["u", k1], ["t", 1]] + usft)
                        tails.append(rel + tap1 + usft)                       # right after the release
                        tails.append(rel + usft + [["t", W + 2]] + tap1)      # after the re-enable pause
                        k2 = rng.choice(keys)
                        if k2 != k1:
                            tails.append(rel + usft + [["d", k1], ["t", 1], ["d", k2], ["t", 1], ["u", k1], ["t", 1],
                                                       ["u", k2], ["t", 1]])
                    for tl in tails:
                        out.append(head + tl + [["t", W + D + 3]])
    if limit and len(out) > limit:
        out = rng.sample(out, limit)
    return out


def deadline_probes(desc):
    """"within the deadline" at realistic, non-default time constants: for every chord of the dictionary (antecedents
    performed first) and every permutation, the second key arrives 0.7 D after the first (must expand) resp. 1.5 D after
    it (zippy is disabled: literal), the remaining keys 1 tick apart; then everything is released and, after more than
    the idle-reactivate time, the chord is pressed again quickly (must expand again)."""
    C = cfgdesc.code
    D, W = desc["D"], desc["W"]
    out = []
    for ln in desc["lines"]:
        chain = [[C(k) for k in ch] for ch in ln["chain"]]
        if len(chain[-1]) < 2:
            continue
        for perm in itertools.permutations(chain[-1]):
            for gap in ((7 * D) // 10, D + D // 2):
                s = []
                for ch in chain[:-1]:
                    for k in ch:
                        s += [["d", k], ["t", 1]]
                    for k in ch:
                        s += [["u", k], ["t", 1]]
                s += [["d", perm[0]], ["t", max(gap, 1)]]
                for k in perm[1:]:
                    s += [["d", k], ["t", 1]]
                for k in perm:
                    s += [["u", k], ["t", 1]]
                s += [["t", W + D + 3]]
                if len(chain) == 1:
                    for k in perm:
                        s += [["d", k], ["t", 1]]
                    for k in perm:
                        s += [["u", k], ["t", 1]]
                    s += [["t", W + 3]]
                out.append(s)
    return out


def entry_pairs(desc):
    """One entry after another: for every ordered pair of dictionary lines the first line's chords are performed (each
    released), then the second line's."""
    C = cfgdesc.code
    out = []
    for l1 in desc["lines"]:
        for l2 in desc["lines"]:
            s = []
            for ln in (l1, l2):
                for ch in ln["chain"]:
                    for k in ch:
                        s += [["d", C(k)], ["t", 1]]
                    for k in ch:
                        s += [["u", C(k)], ["t", 1]]
            out.append(s + [["t", desc["W"] + desc["D"] + 3]])
    return out


def rand_typing(rng, desc, n_events):
    """Physically consistent random typing with gaps around the deadline / the re-enable time."""
    C = cfgdesc.code
    D, W = desc["D"], desc["W"]
    keys = [C(k) for k in desc["keys"]] * 3 + [C(k) for k in desc["mods"]]
    gaps = [1, 1, 1, 1, 2, max(1, D - 1), D, D + 1, W, W + 1, W + D + 2]
    s = rand_history(rng, keys, n_events, gaps, tail=W + D + 3)
    return s


LETTERS = "abcdehilnorst"


def rand_dict(rng, tier, small=False):
    """A random dictionary of <= 4 lines over {a, b, c, space}: overlapping chords, chords extending other chords,
    follow-up chords, lower/upper-case outputs, outputs sharing prefixes.  small: three keys, no modifier, short
    deadlines (an instance TLC explores exhaustively)."""
    alphabet = ["a", "b", "c", "spc"]
    if small:
        alphabet = sorted(rng.sample(alphabet, 3), key=alphabet.index)
    n = rng.randint(2, 4)
    ss = rng.choice(["none", "add-space-only"]) if small else rng.choice(["none", "none", "add-space-only", "full"])
    fol_alphabet = alphabet + (["comm", "comm"] if ss == "full" else [])
    lines, seen = [], set()
    stems = ["".join(rng.choice(LETTERS) for _ in range(rng.randint(1, 3))) for _ in range(2)]
    tries = 0
    while len(lines) < n and tries < 50:
        tries += 1
        if lines and rng.random() < 0.35:
            base = rng.choice(lines)["chain"]
            if rng.random() < 0.5 and len(base[-1]) < 3:       # extension of an existing chord
                extra = [k for k in alphabet if k not in base[-1]]
                chain = base[:-1] + [sorted(base[-1] + [rng.choice(extra)])]
            else:                                              # follow-up of an existing chord
                chain = base + [sorted(set(rng.sample(fol_alphabet, rng.randint(1, 2))), key=fol_alphabet.index)]
        else:
            chain = [sorted(rng.sample(alphabet, rng.randint(2, 3)))]
        if len(chain) > 3:
            continue
        key = tuple(tuple(c) for c in chain)
        if key in seen:
            continue
        seen.add(key)
        word = rng.choice(stems) + "".join(rng.choice(LETTERS) for _ in range(rng.randint(0, 3))) \
            if rng.random() < 0.6 else "".join(rng.choice(LETTERS) for _ in range(rng.randint(1, 5)))
        r = rng.random()
        if r < 0.25:
            word = word.capitalize()
        elif r < 0.35:
            word = word.upper()
        lines.append({"chain": chain, "out": word})
    # every antecedent of a follow-up must itself be a line (the parser requires it only implicitly: an antecedent
    # without its own line has an empty output)
    if small:
        return {"lines": lines, "D": rng.choice([2, 3]), "W": rng.choice([1, 2]), "ss": ss,
                "punct": None, "keys": alphabet, "mods": []}
    D = rng.choice([2, 3, 5, 20])
    W = rng.choice([1, 2, 3, 15])
    keys = ["a", "b", "c", "spc"] + (["comm"] if ss == "full" else [])
    # the punctuation list as written replaces the default one: a default member left out / another key added
    punct = rng.choice([None, ["scln"], ["c"], ["comm", "c"]]) if ss == "full" else None
    return {"lines": lines, "D": D, "W": W, "ss": ss, "punct": punct, "keys": keys,
            "mods": rng.choice([["lsft"], ["lsft", "rsft"], ["lsft", "ralt"]])}


# ---------------------------------------------------------------- the instance family
def _line(chain, out):
    return {"chain": [[("spc" if k == " " else k) for k in c] for c in chain], "out": out}


def _desc(lines, keys, mods=(), D=2, W=2, ss="none", punct=None):
    return {"lines": [_line(c, o) for c, o in lines], "keys": list(keys), "mods": list(mods), "D": D, "W": W, "ss": ss,
            "punct": punct}


def family(tier):
    """(name, description, bounds).  Dictionaries over {a, b, c, space} (+ comma for the punctuation rule):
    extension, overlap, outputs sharing a prefix, follow-up chords (one and two keys), upper/lower-case outputs,
    a shift held, smart space (add / full), the space key as a chord key.
    bounds: hold = character presses per hold (histories themselves are unbounded: the monitor forgets the committed
    text at quiescent points, all counters saturate)."""
    q = [
        ("ext", _desc([(["ab"], "Abba"), (["abc"], "alphabet")], "abc"), dict(hold=4)),
        ("pre", _desc([(["ab"], "he"), (["abc"], "help"), (["bc"], "x")], "abc", ss="add-space-only"), dict(hold=3)),
        ("fol", _desc([(["ab"], "day"), (["ab", "bc"], "Monday"), (["ab", "a"], "do")], "abc"), dict(hold=3)),
        # a top-level chord whose keys are a strict subset of a pending multi-key follow-up chord: it must still fire
        ("fsub", _desc([(["ab"], "day"), (["ab", "abc"], "Monday"), (["bc"], "hi")], "abc"), dict(hold=3)),
        ("sft", _desc([(["ab"], "Hi"), (["ab", "a"], "him")], "ab", ["rsft"]), dict(hold=3)),
        # smart space full; a follow-up chord started by a punctuation key (the space is erased, then the antecedent)
        ("ssp", _desc([(["ab"], "hi"), (["ab", ["comm"]], "ho")], ["a", "b", "comm"], ss="full"), dict(hold=3)),
        # a line whose first chord has no line of its own (empty-output prefix chord) next to a chord with follow-ups
        # smart-space-punctuation as written: c is punctuation, the default comma is not
        ("pct", _desc([(["ab"], "hi")], ["a", "b", "c", "comm"], ss="full", punct=["c"]), dict(hold=3)),
        ("spc", _desc([([" a"], "and"), ([" ab"], "about")], ["spc", "a", "b"], ss="add-space-only"), dict(hold=3)),
    ]
    if has_empty_prefix_fix():
        # explored only on a tree with the repair: before it the stale output count grows without bound (every press of
        # the prefix key adds to it), i.e. the state space of the faithful L1 is infinite
        q.append(("epf", _desc([(["ab"], "day"), (["ab", "a"], "do"), (["c", "ab"], "rec")], "abc"), dict(hold=3)))
    if tier == "quick":
        return q
    t = [
        ("ext4", _desc([(["ab"], "Abba"), (["abc"], "alphabet")], "abc", D=3, W=2), dict(hold=4)),
        ("pre4", _desc([(["ab"], "he"), (["abc"], "help"), (["bc"], "x")], "abc"), dict(hold=4)),
        ("fol4", _desc([(["ab"], "day"), (["ab", "c"], "Monday"), (["ab", "a"], "do")], "abc"), dict(hold=4)),
        ("fol2", _desc([(["ab"], "day"), (["ab", "bc"], "Monday"), (["ab", "bc", "a"], "Mon")], "abc", D=3, W=2), dict(hold=3)),
        ("shp", _desc([(["ab"], "he"), (["abc"], "hex")], "abc", ["lsft"]), dict(hold=3)),
        ("sfu", _desc([(["ab"], "Hello"), (["b"], "B")], "ab", ["lsft", "rsft"]), dict(hold=3)),
        ("agr", _desc([(["ab"], "hi"), (["ab", "a"], "ho")], "ab", ["ralt"]), dict(hold=3)),
        ("ssq", _desc([(["ab"], "hi"), (["abc"], "hint")], ["a", "b", "c", "comm"], ss="full", D=2, W=1), dict(hold=3)),
        ("ssf", _desc([(["ab"], "hi"), (["ab", "a"], "his ")], ["a", "b", "comm"], ss="full"), dict(hold=3)),
        ("sss", _desc([(["ab"], "Hi"), (["b"], "ho")], ["a", "b"], ["lsft"], ss="add-space-only"), dict(hold=3)),
        ("ovl", _desc([(["ab"], "x"), (["bc"], "y"), ([" c"], "Zed"), ([" abc"], "all")], ["spc", "a", "b", "c"], D=2, W=1),
         dict(hold=3)),
        ("w3", _desc([(["ab"], "Abba"), (["abc"], "alphabet")], "abc", D=3, W=3), dict(hold=3)),
    ]
    return q + t


def random_instances(rng, n):
    return [("rnd%d" % i, rand_dict(rng, "thorough", small=True), dict(hold=3)) for i in range(n)]


def complete(h, desc):
    """A model history -> harness script ending at a quiescent point (everything released, re-enable time passed)."""
    s = flow.hist_to_script(h)
    down = []
    for st in h:
        if st[0] == "d" and st[1] not in down:
            down.append(st[1])
        elif st[0] == "u" and st[1] in down:
            down.remove(st[1])
    s.append(["t", 1])
    for k in down:
        s += [["u", k], ["t", 1]]
    s.append(["t", desc["W"] + desc["D"] + 3])
    return s


def run(tier, seed):
    pid = "C20"
    res = flow.Result(pid, tier, seed)
    rng = random.Random(seed)
    wd = workdir("c20")
    quick = tier == "quick"
    groups = {"witness": [], "drift": [], "attempts": [], "random": []}

    def job(desc, tag, scripts):
        j = job_of(desc)
        j.update({"params": params_of(desc, fwin=10000, qcap=desc["W"] + 1), "tag": tag, "scripts": scripts})
        return j

    # D + B: TLC explores Zippy || P_C20, every transition replayed on the real code
    for name, desc, b in family(tier) + ([] if quick else random_instances(rng, 8)):
        r = check_instance(name, desc, wd, maxhold=b["hold"], workers=6, timeout=1500)
        res.add_instance(r)
        if r.get("skipped"):
            res.notes.append("instance %s not explored by TLC: %s" % (name, r["skipped"]))
        if len(res.samples) < 4 and not r.get("skipped"):
            res.samples.append({"instance": name, "dictionary": dict_text(desc), "defzippy": kbd_text(desc).splitlines()[-1],
                                "states": r["states"], "edges": r.get("edges"), "model_level_rejections": r["n_monerr"]})
        ws = flow.witness_scripts(r["monerr_file"], 25 if quick else 80)
        if ws:
            groups["witness"].append(job(desc, "w:" + name, [complete(w["h"], desc) for w in ws]))
        ds = r.get("drift_samples", [])
        if ds:
            pick = ds[:120] + rng.sample(ds[120:], min(len(ds) - 120, 80)) if len(ds) > 120 else ds
            groups["drift"].append(job(desc, "d:" + name, [complete(d["h"], desc) for d in pick]))
        groups["attempts"].append(job(desc, "a:" + name, entry_pairs(desc) + chord_attempts(desc, rng, limit=250 if quick else 2000)))
        groups["random"].append(job(desc, "r:" + name, [rand_typing(rng, desc, rng.randint(4, 40)) for _ in range(20 if quick else 150)]))
    # C beyond the bounds of the exhaustive instances: random dictionaries (<= 4 lines over {a, b, c, space}), larger
    # deadlines, both shifts / altgr, the quantifier's attempts and random typing
    # the written deadline / idle time at non-default values far from the 500 ms defaults (recorded runs only)
    for name, desc, b in family("quick"):
        if name in ("ext", "fsub", "ssp") or not quick:
            for D, W in ((1000, 60), (200, 700)):
                d2 = dict(desc, D=D, W=W)
                groups["attempts"].append(job(d2, "t:%s_D%d" % (name, D), deadline_probes(d2) + chord_attempts(d2, rng, limit=40 if quick else 300)))
    epf = _desc([(["ab"], "day"), (["ab", "a"], "do"), (["c", "ab"], "rec"), (["c", "b"], "re")], "abc", D=3, W=2)
    groups["attempts"].append(job(epf, "a:epf2", entry_pairs(epf) + chord_attempts(epf, rng, limit=60 if quick else 600)))
    for i in range(10 if quick else 100):
        desc = rand_dict(rng, tier)
        groups["attempts"].append(job(desc, "a:rd%d" % i, entry_pairs(desc) + chord_attempts(desc, rng, limit=120 if quick else 500)))
        groups["random"].append(job(desc, "r:rd%d" % i, [rand_typing(rng, desc, rng.randint(4, 60)) for _ in range(30 if quick else 120)]))
    nrej = 0
    classes = {}
    rejected = []
    for label in ("witness", "drift", "attempts", "random"):
        jobs = groups[label]
        if not jobs:
            continue
        jobs = shard_local_index(jobs)
        errs = []
        for ci in range(0, len(jobs), 4000):      # one TLC trace-validation run per 4000 recorded histories
            es, trace = record_and_validate(res, "P_C20", jobs[ci:ci + 4000], wd, "c20_%s_%d" % (label, ci // 4000))
            errs += es
        nviol = 0
        for e in errs:
            nrej += 1
            j, s = script_of(jobs, e["job"], 0)
            cls = e["err"].split("class=")[-1] if "class=" in e["err"] else e["err"]
            classes[cls] = classes.get(cls, 0) + 1
            if len(rejected) < 400:
                rejected.append({"err": e["err"], "cfg": j["cfg"], "files": j["files"], "params": j["params"], "script": s, "tag": j["tag"]})
            text = e["err"] + " dictionary=" + json.dumps(j["files"]["dict"]) + " " + j["cfg"].splitlines()[-1]
            known = any(flow.sig_matches(f, pid, text) for f in known_findings().get("findings", []))
            if not known and nviol >= 6:
                continue     # enough replay files for this group
            if flow.classify(res, pid, e["err"], text,
                             {"property": pid, "cfg": j["cfg"], "files": j["files"], "params": j["params"], "script": s,
                              "err": e["err"], "monitor": "P_C20"}, "%s_%d" % (label, len(res.violations))):
                nviol += 1
        if label == "attempts" and len(res.samples) < 6:
            res.samples.append({"attempt_script": jobs[0]["scripts"][0][:24], "dictionary": jobs[0]["files"]["dict"]})
    json.dump(rejected, open(os.path.join(wd, "rejected.json"), "w"))     # scratch, for triage (work/c20/show.py)
    res.extra["rejections_by_class"] = classes
    res.extra["recorded_traces_rejected"] = nrej
    return flow.finish(
        res, "model_checking",
        "TLC explores Zippy.tla (L1 transliteration of zippychord.rs, constants from the real parser) composed with the "
        "text-buffer reference model P_C20 for every physically consistent history over each instance's keys (all press orders, "
        "release interleavings and gaps; <= hold character presses per hold); every model transition is replayed on the real "
        "code (OS events + idle compared); model-level rejections, drifting edges, the quantifier's chord attempts (every entry x "
        "every permutation x gaps below the deadline x no shift/lsft/rsft x 1-2 further keys) and random typing over the instance "
        "and over random dictionaries are recorded from the real code and validated by TLC against P_C20.",
        assumptions=["deterministic stepper", "identity layout: one key event reaches the zippychord stage per tick",
                     "the OS ignores a press of a key that is already down (Obs.tla convention)",
                     "zippychord state is process-global: one Kanata at a time per harness process, re-initialised by "
                     "Kanata::new_from_str -> zch_configure -> zchd_reset"])
