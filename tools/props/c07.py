"""C07 - idle blocking is unobservable: sleeping while idle never changes behaviour.

Part 1 (model invariant, binding D+B): a family of L1 instances that together exercise every time-driven field of
`is_idle` / `can_block_update_idle_waiting` that the detailed model covers (queue, waiting, tap_hold_timeout, one-shot
timeout, active sequences, tap-dance-eager, action queue, macro-cancel timer, held virtual keys, on-idle counters,
switch key-timing history ages, live-reload-requested).  TLC checks in every reachable state that a tick taken where
the model's CanBlock is true is a stutter on everything that can influence the future and emits nothing
(`TickIsStutter`), composed with the one-behaviour monitor of spec/P_C07.tla; every model transition (incl. the
idle/can_block flags) is replayed on the real code.

Part 2 (paired runs on the real code, binding C, the decisive one): `kverif paired` runs, from every prefix at whose end
the REAL can_block_update_idle_waiting returned true, lane A = tick x K ; continuation and lane B = continuation, on
fresh instances; TLC (spec/C07PairTrace.tla -> P_C07!PairErr) judges every pair.  Prefixes: (i) TLC-generated edge
histories of the L1 instances, the model-level non-stutter witnesses and every drifting edge, (ii) random histories
(every first / last point of a blocked stretch, plus the whole history run by the blocking stepper) on the instance
configurations with real numbers, on hand-written configurations for the features L1 does not model (defseq, caps-word,
zippychord, mouse wheel / movement, chords v2, dynamic macros) and on configurations drawn from the whole action
grammar by tools/cfggen.py.

Part 3 (exploration): spec/Loop.tla - the processing thread (decide / blocking recv with last_tick = now - 1 ms / try_recv /
sleep / handle_time_ticks with the remainder carry) around an abstract kanata; TLC checks BlockedOnlyWhenIdle, RecvThenTick,
NoEventLost, OnIdleNotPostponed, TickBudget and rejects three seeded design errors; `kverif tick-budget` binds TickBudget to the
real handle_time_ticks (P_C07!TickClockErr).  `kverif loop-run` starts
the REAL Kanata::start_processing_loop in-process (simulated output) and sends events with randomized real-time gaps; on
time-insensitive configurations the OS event sequence must equal the stepper's (P_C07!LoopErr; a disagreement counts only if it
repeats)."""
import threading
from props.common import *
import cfggen

PID = "C07"
LOCK = threading.Lock()
TLC_SEM = threading.Semaphore(4)      # pair-validating TLC runs at a time (one worker, 2 GB each)
KS_BASE = [1, 2, 7]
K_LONG, K_HUGE = 1000, 12000

# The findings of C07.  Only the zippychord reset and extra_waiting (xw) are still open in known_findings.json; pause / os0 / kdiff / cv2 / drec
# were repaired in /repo (743d8bc, 594c697, 345be8d, 7d8a52c, db302df) and are listed under "fixed", so a pair showing
# one of them is a VIOLATION again - the table then only words the diagnosis (precondition + counterfactual) in the
# replay file.  A rejected pair is attributed to one of them only when the
# decision point shows the finding's precondition (public state read by the harness at the cut: `pre`) AND, where a
# counterfactual exists, the same pair taken `delay` ticks later - when the pending item is out of the way - agrees.
SIG_ZIPPY = "C07 [zippychord forced state reset after 10000 idle ticks"
FINDINGS = [
    # key, signature, precondition on pre, delay of the counterfactual (None: precondition only), wording
    ("pause", "C07 [rapid-event pause still pending at the may-block decision",
     lambda p: p["osp"] > 0, lambda p: p["osp"],
     "oneshot.pause_input_processing_ticks > 0"),
    ("os0", "C07 [one-shot end pending (oneshot.timeout = 0, keys non-empty) counted as idle",
     lambda p: p["ost"] == 0 and p["nosk"] > 0, lambda p: 1,
     "oneshot.timeout = 0 with one-shot keys still held"),
    ("kdiff", "C07 [key-state change still to be written at the may-block decision",
     lambda p: p["kdiff"], lambda p: 1,
     "layout.keycodes() differs from prev_keys"),
    ("cv2", "C07 [stale chords-v2 fast-path counter at the end of the chords-v2-min-idle window",
     lambda p: p["cv2edge"], lambda p: 1,
     "first tick at which chords v2 accepts chords again"),
    ("drec", "C07 [may-block while a dynamic macro is being recorded",
     lambda p: p["drec"], None,
     "dynamic_macro_record_state is Some"),
    ("xw", "C07 [may-block while a tap-hold / chord is still deciding in layout.extra_waiting",
     lambda p: p.get("xw", 0) > 0, None,
     "layout.extra_waiting is non-empty (is_idle only looks at layout.waiting)"),
]
FKEY = {f[0]: f for f in FINDINGS}
SIG_OF = {f[0]: f[1] for f in FINDINGS}
SIG_OF["long"] = SIG_ZIPPY


# ---------------------------------------------------------------- instance family (L1)
def L(keys, layer, extra="", red=1, opts=""):
    return "(defcfg rapid-event-delay %d%s)\n(defsrc %s)\n%s(deflayer l0 %s)\n" % (
        red, (" " + opts) if opts else "", " ".join(keys), extra, " ".join(layer))


def family(tier):
    """(name, kbd, keys, tmax, inst-options).  Every entry names the is_idle / can_block field it exercises."""
    F = []

    def add(name, kbd, keys, tmax, **kw):
        F.append({"name": name, "kbd": kbd, "keys": keys, "tmax": tmax, "opt": kw})

    for red in ((1, 0) if tier == "quick" else (1, 0, 3)):
        r = "_r%d" % red
        # waiting + last_press_tracker.tap_hold_timeout (tap-repress window) + queue + the rapid-event pause
        add("th" + r, L("ab", ["(tap-hold 3 3 x lsft)", "y"], red=red), "ab", 3)
        if red == 3 and tier != "quick":
            continue
        # one-shot timeout
        add("os" + r, L("ab", ["(one-shot 3 lsft)", "y"], red=red), "ab", 3,
            constraint="OsB", extra_defs="OsB == Len(K.L.os.keys) <= 2 /\\ Len(K.L.os.other) <= 2 /\\ Len(K.L.os.released) <= 2")
    # extra_waiting: two tap-holds waiting concurrently (a switch with a fallthrough case); the first one resolves and
    # leaves `waiting` empty while the second is still counting in extra_waiting
    add("xwait", L("ab", ["(switch () (tap-hold 0 2 x lsft) fallthrough () (tap-hold 0 5 y lctl) break)", "z"],
                   opts="concurrent-tap-hold yes"), "ab", 5, caps={"since": 12, "hist": 0}, constraint="XwB",
        extra_defs="XwB == Len(K.L.extra) <= 2 /\\ Len(K.L.states) <= 4")
    # last_press_tracker.tap_hold_timeout outliving everything else: tap-repress window 5 > hold timeout 2
    add("thtt", L("ab", ["(tap-hold 5 2 x lsft)", "y"]), "ab", 5)
    # oneshot.ticks_to_ignore_events (one-shot-pause-processing): a counter that only matters for a later one-shot must
    # not run - or must keep the loop awake - while nothing else is pending
    add("ospause", L("abc", ["(one-shot-pause-processing 4)", "(one-shot 6 lsft)", "z"]), "abc", 6,
        constraint="OsB", extra_defs="OsB == Len(K.L.os.keys) <= 2 /\\ Len(K.L.os.other) <= 2 /\\ Len(K.L.os.released) <= 2")
    # active sequences (macro with a delay)
    add("macro", L("ab", ["(macro x 2 S-y)", "z"]), "ab", 3)
    # tap-dance-eager
    add("tde", L("ab", ["(tap-dance-eager 3 (x y))", "z"]), "ab", 3)
    # vkeys_pending_release (hold-for-duration)
    add("hold", L("ab", ["(hold-for-duration 4 v)", "z"], "(defvirtualkeys v x)\n"), "ab", 4)
    # waiting_for_idle / ticks_since_idle (on-idle) - "counting" keeps the loop ticking
    add("onidle", L("ab", ["(on-idle 4 tap-vkey v)", "z"], "(defvirtualkeys v x)\n"), "ab", 4)
    # historical_keys ages vs switch_max_key_timing
    add("switch", L("ab", ["(switch ((key-timing 1 lt 4)) x break () y break)", "z"]), "ab", 4, caps={"hist": 1})
    # ... and a gt-ONLY threshold: the bound that can_block waits for must cover `gt` as well as `lt`
    add("swgt", L("ab", ["(switch ((key-timing 1 gt 4)) x break () y break)", "z"]), "ab", 6, caps={"hist": 1})
    # SeqCustomPending / SeqCustomActive: a macro ending in two custom items with a release (mouse buttons) and no
    # delay in between - the release of the last one is owed after active_sequences is already empty
    add("btn2", L("ab", ["(macro x mlft mrgt)", "z"]), "ab", 3, constraint="SqB",
        extra_defs="SqB == Len(K.L.seqs) <= 1 /\\ Len(K.L.states) <= 4")
    # action queue (chords v1 decomposition) + chord waiting
    # (a b) is not a chord of the group: pressing both is decomposed into a, b through the action queue
    add("chord", L("abc", ["(chord g a)", "(chord g b)", "z"], "(defchords g 2 (a) x (b) y)\n"), "abc", 2)
    # macro_on_press_cancel_duration
    add("mcancel", L("ab", ["(macro-cancel-on-press x 2 y)", "z"]), "ab", 6)
    # (dynamic_macro_record_state: a recording grows without bound, so it has no exhaustive instance here; the conjunct
    # is exercised on the real code by the "dynmacro" configuration of RICH and by C19's bounded instances)
    # scroll_state / hscroll_state (Kanata.tla HandleScrolling): events every `interval` ticks while the key is held
    add("mwheel", L("ab", ["(mwheel-up 3 120)", "(multi z (mwheel-left 2 10))"]), "ab", 3)
    # caps_word (Kanata.tla CwStep): the remaining ticks count down while the state is active; it ends by timeout
    add("capsword", L("abc", ["(caps-word-custom 4 (b) ())", "b", "z"]), "abc", 4)
    # live_reload_requested (stays requested in the stepper: never blocks again)
    add("lrld", L("ab", ["lrld", "z"]), "ab", 1)
    if tier != "quick":
        add("tdlazy", L("ab", ["(tap-dance 3 (x y))", "z"]), "ab", 3)
        add("mrel", L("ab", ["(macro-release-cancel x 2 y)", "z"]), "ab", 3)
        add("th_onidle", L("ab", ["(tap-hold 2 2 x lsft)", "(on-idle 3 tap-vkey v)"], "(defvirtualkeys v y)\n"), "ab", 3)
        add("os_switch", L("ab", ["(one-shot 3 lsft)", "(switch ((key-timing 1 lt 3)) x break () y break)"]), "ab", 3,
            caps={"hist": 1}, constraint="OsB",
            extra_defs="OsB == Len(K.L.os.keys) <= 2 /\\ Len(K.L.os.other) <= 2 /\\ Len(K.L.os.released) <= 2")
        add("hold_macro", L("ab", ["(hold-for-duration 3 v)", "(macro x 2 y)"], "(defvirtualkeys v z)\n"), "ab", 3)
        add("thpress", L("ab", ["(tap-hold-press 0 3 x lsft)", "y"], red=2), "ab", 3)
    return F


# model-level probes (soft invariants: print the shortest history reaching the state and go on).  The judgement
# IdleTickIsStutter is defined in spec/Kanata.tla; NOSTUTTERX = not covered by a recorded finding.
PROBE_DEFS = r'''
C07Probe == IdleTickIsStutter(K) \/ PrintT(<<"NOSTUTTER", ToJson([h |-> hist])>>)
C07ProbeX == IdleTickIsStutter(K) \/ IdleTickKnownDefect(K) \/ PrintT(<<"NOSTUTTERX", ToJson([h |-> hist])>>)
'''

# ---------------------------------------------------------------- hand-written configurations beyond L1
ZIPPY_DICT = "dy\tday\ndy 1\tMonday\nab\tAbba\n"
RICH = [
    # name, kbd, files, key names driven, numbers (for gap choice)
    ("zippy", "(defsrc d y 1 a b lsft)\n(deflayer l0 d y 1 a b lsft)\n"
              "(defzippy dict on-first-press-chord-deadline 50 idle-reactivate-time 30)\n", {"dict": ZIPPY_DICT},
     ["d", "y", "1", "a", "b", "lsft"], [30, 50]),
    ("defseq", "(defcfg sequence-timeout 40 sequence-input-mode visible-backspaced)\n(defsrc a b c)\n"
               "(defvirtualkeys v1 x v2 (macro y z))\n(deflayer l0 sldr b c)\n(defseq v1 (b c) v2 (c c b))\n", {},
     ["a", "b", "c"], [40]),
    ("defseq_hidden", "(defcfg sequence-timeout 30 sequence-input-mode hidden-delay-type)\n(defsrc a b c)\n"
                      "(defvirtualkeys v1 x)\n(deflayer l0 (sequence 20) b c)\n(defseq v1 (b c))\n", {},
     ["a", "b", "c"], [20, 30]),
    ("capsword", "(defsrc a b c spc)\n(deflayer l0 (caps-word 50) b c spc)\n", {}, ["a", "b", "c", "spc"], [50]),
    ("capsword_toggle", "(defsrc a b c)\n(deflayer l0 (caps-word-toggle 30) b (tap-hold 20 20 c lctl))\n", {},
     ["a", "b", "c"], [20, 30]),
    ("mouse", "(defsrc a b c d)\n(deflayer l0 (mwheel-up 10 120) (movemouse-left 5 2) (movemouse-accel-up 4 30 1 5) mlft)\n", {},
     ["a", "b", "c", "d"], [4, 5, 10, 30]),
    ("chordsv2", "(defcfg concurrent-tap-hold yes chords-v2-min-idle 20)\n(defsrc a b c d)\n(deflayer l0 a b c d)\n"
                 "(defchordsv2 (a b) x 15 all-released () (a b c) y 25 first-release ())\n", {},
     ["a", "b", "c", "d"], [15, 20, 25]),
    ("dynmacro", "(defcfg dynamic-macro-replay-delay-behaviour recorded)\n(defsrc a b c d)\n"
                 "(deflayer l0 (dynamic-macro-record 1) dynamic-macro-record-stop (dynamic-macro-play 1) d)\n", {},
     ["a", "b", "c", "d"], [5, 30]),
    ("defaults", "(defsrc a b c d)\n(defvirtualkeys v (macro x 10 y))\n"
                 "(deflayer l0 (tap-hold 200 200 a lsft) (one-shot 500 lctl) (multi c (on-idle 100 tap-vkey v)) "
                 "(switch ((key-timing 1 lt 300)) x break () d break))\n", {},
     ["a", "b", "c", "d"], [100, 200, 300, 500]),
    ("vkeys", "(defsrc a b c)\n(defvirtualkeys v lsft w x)\n"
              "(deflayer l0 (hold-for-duration 40 w) (on-press toggle-vkey v) (macro-cancel-on-press a 30 b))\n", {},
     ["a", "b", "c"], [30, 40]),
    ("macro_btn", "(defsrc a b c)\n(deflayer l0 (macro x mlft mrgt) (macro 5 mmid mlft) c)\n", {}, ["a", "b", "c"], [5]),
    ("switch_gt", "(defsrc a b c)\n(deflayer l0 (switch ((key-timing 1 gt 40)) x break () y break) b "
                  "(switch ((key-timing 2 gt 25)) 1 break () 2 break))\n", {}, ["a", "b", "c"], [25, 40]),
    ("concurrent_th", "(defcfg concurrent-tap-hold yes)\n(defsrc a b c)\n"
                      "(deflayer l0 (switch () (tap-hold 0 20 x lsft) fallthrough () (tap-hold 0 60 y lctl) break) "
                      "(tap-hold 0 40 b lalt) c)\n", {}, ["a", "b", "c"], [20, 40, 60]),
    ("os_pause", "(defsrc a b c d)\n(defvirtualkeys v (one-shot-pause-processing 25))\n"
                 "(deflayer l0 (one-shot-pause-processing 30) (one-shot 100 lsft) c (on-press tap-vkey v))\n", {},
     ["a", "b", "c", "d"], [25, 30, 100]),
    ("tapdance", "(defsrc a b)\n(deflayer l0 (tap-dance 50 (x y z)) (tap-dance-eager 40 (1 2)))\n", {}, ["a", "b"], [40, 50]),
    ("chordv1", "(defsrc a b c)\n(defchords g 30 (a) x (b) y (c) z (a b) 1 (a b c) 2)\n"
                "(deflayer l0 (chord g a) (chord g b) (chord g c))\n", {}, ["a", "b", "c"], [30]),
]


def alphabet(codes, extra=()):
    conts = []
    for c in codes:
        conts += [[["d", c]], [["u", c]], [["d", c], ["t", 1], ["u", c]]]
    if len(codes) >= 2:
        conts.append([["d", codes[0]], ["d", codes[1]], ["t", 2], ["u", codes[1]], ["u", codes[0]]])
        conts.append([["d", codes[1]], ["t", 1], ["d", codes[0]], ["u", codes[1]], ["t", 1], ["u", codes[0]]])
        # a tap of one key followed by a tap of another (e.g. a latched key - one-shot, tap-dance, leader - then the key
        # it applies to), every ordered pair
        for x in codes[:3]:
            for y in codes[:3]:
                if x != y:
                    conts.append([["d", x], ["t", 1], ["u", x], ["t", 1], ["d", y], ["t", 1], ["u", y]])
    return conts + list(extra)


def c07_history(rng, codes, n, numbers, repeat_p=0.05):
    """Physically consistent random history with gaps around the configuration's own numbers and long idle gaps."""
    gaps = [0, 0, 1, 1, 2, 3, 5, 6, 8, 20]
    for x in numbers:
        gaps += [max(x - 1, 0), x, x + 1, x + 7, 2 * x + 3]
    return rand_history(rng, codes, n, gaps, tail=min(max(numbers + [10]) * 3 + 20, 700), repeat_p=repeat_p)


# ---------------------------------------------------------------- running / judging pairs
PAIR_CFG = "INIT Init\nNEXT Next\nACTION_CONSTRAINT Judge\nPOSTCONDITION Accepted\nCHECK_DEADLOCK FALSE\n"


def run_paired(jobs, wd, name, shards=None, timeout=3000):
    """Shards the cases of `jobs` over `kverif paired` processes; returns the list of output files."""
    build_harness()
    shards = shards or min(NCPU, 12)
    flat = [(ji, ci) for ji, j in enumerate(jobs) for ci in range(len(j["cases"]))]
    n = max(1, min(shards, len(flat)))
    procs, outs = [], []
    for i in range(n):
        part = flat[i::n]
        pj = []
        for ji, ci in part:
            j = jobs[ji]
            # one job entry per case, tagged so that a pair maps back to (job, case)
            pj.append({"cfg": j["cfg"], "files": j.get("files", {}), "tag": "%d/%d" % (ji, ci), "cases": [j["cases"][ci]]})
        jf = os.path.join(wd, "%s.%d.pjob.json" % (name, i))
        of = os.path.join(wd, "%s.%d.pairs.ndjson" % (name, i))
        json.dump({"jobs": pj}, open(jf, "w"))
        procs.append((subprocess.Popen([HARNESS, "paired", jf, of], stdout=subprocess.PIPE, stderr=subprocess.STDOUT,
                                       text=True), of))
    for p, of in procs:
        try:
            so, _ = p.communicate(timeout=timeout)
        except subprocess.TimeoutExpired:
            p.kill()
            raise ToolError("kverif paired timed out")
        if p.returncode != 0:
            raise ToolError("kverif paired failed rc=%s: %s" % (p.returncode, (so or "")[-2000:]))
        outs.append(of)
    return outs


def validate_pairs(files, wd, name, timeout=1500):
    """TLC judges every recorded pair (P_C07!PairErr).  The trace is cut into chunks (each one TLC run of a few
    minutes at most; up to 4 at a time).
    Returns (stats, errs, notes, index) with index: global line number -> identity of the pair on that line."""
    stats = {"pairs": 0, "cases": 0, "points": 0, "points_used": 0, "ticks": 0, "cbticks": 0, "problems": 0}
    index = {}
    chunks = []            # (path, first global line - 1)
    g, ln, size, cl = None, 0, 0, 0
    for f in files:
        for line in open(f):
            r = json.loads(line)
            if r["e"] == "end":
                continue
            if g is None or size > 40_000_000 or cl >= 15000:
                if g is not None:
                    g.write('{"e":"end"}\n')
                    g.close()
                path = os.path.join(wd, "%s.pairs.c%d.ndjson" % (name, len(chunks)))
                chunks.append((path, ln))
                g, size, cl = open(path, "w"), 0, 0
            ln += 1
            cl += 1
            size += len(line)
            g.write(line)
            if r["e"] == "case":
                stats["cases"] += 1
                stats["points"] += r["points"]
                stats["points_used"] += r["used"]
                stats["ticks"] += r["ticks"]
                stats["cbticks"] += r["cbticks"]
                if r["problem"]:
                    stats["problems"] += 1
            elif r["e"] == "pair":
                stats["pairs"] += 1
                index[ln] = {"job": r["job"], "cut": r["cut"], "K": r["K"], "cont": r["cont"], "mode": r["mode"],
                             "pre": r["pre"], "guards": r.get("guards", {})}
    if g is not None:
        g.write('{"e":"end"}\n')
        g.close()
    mod = "C07PairTrace"
    errs, notes, problems = [], [], []
    def one(ci, path, off):
        with TLC_SEM:
            try:
                twd = os.path.join(wd, "tlc_%s_%d" % (name, ci))       # concurrent validations: one TLC directory each
                os.makedirs(twd, exist_ok=True)
                with open(os.path.join(twd, mod + ".cfg"), "w") as f:
                    f.write(PAIR_CFG)
                outp = os.path.join(twd, mod + ".out")
                r = run_tlc(twd, mod, workers=1, timeout=timeout, heap="2g", deque=True,
                            env_extra={"TRACE": os.path.abspath(path)}, stdout_path=outp)
                txt = open(outp, errors="replace").read()
                if r["rc"] != 0 or "Model checking completed. No error" not in txt:
                    raise ToolError("pair validation did not consume %s (rc=%s): %s" % (path, r["rc"], r["error"] or txt[-1500:]))
                for tag, dest in (("VERR", errs), ("PNOTE", notes)):
                    ef = outp + "." + tag.lower()
                    extract_prints(outp, tag, ef)
                    for x in open(ef):
                        if x.strip():
                            d = json.loads(x)
                            d["line"] += off
                            dest.append(d)
            except Exception as ex:
                problems.append(ex)
    ths = [threading.Thread(target=one, args=(ci, p, off)) for ci, (p, off) in enumerate(chunks)]
    for t in ths:
        t.start()
    for t in ths:
        t.join()
    if problems:
        raise problems[0]
    errs.sort(key=lambda e: e["line"])
    return stats, errs, notes, index


def expand_steps(steps):
    out = []
    for st in steps:
        if st[0] == "t":
            out += [["t", 1]] * (st[1] if len(st) > 1 else 1)
        else:
            out.append(list(st))
    return out


def compress_steps(atoms):
    out = []
    for st in atoms:
        if st[0] == "t" and out and out[-1][0] == "t":
            out[-1] = ["t", out[-1][1] + st[1]]
        else:
            out.append(list(st))
    return out


def pair_replay_obj(job, case, e, pair_line):
    """A self-contained replay description of one rejected pair."""
    atoms = expand_steps(case["hist"])
    prefix = compress_steps(atoms[:e["cut"]]) if e["mode"] == "gap" else case["hist"]
    if e["mode"] != "gap":
        cont = []
    elif e["cont"] == "rest":
        k = e["cut"]
        while k < len(atoms) and atoms[k][0] == "t":
            k += 1
        cont = compress_steps(atoms[k:k + case.get("rest", 0)])
    else:
        cont = case["conts"][e["cont"]]
    return {"kind": "c07pair", "property": PID, "cfg": job["cfg"], "files": job.get("files", {}), "mode": e["mode"],
            "prefix": prefix, "K": e["K"], "cont": cont, "tail": case.get("tail", 0), "err": e["err"],
            "pre": pair_line.get("pre", {}), "monitor": "P_C07"}


def replay_case(r):
    if r["mode"] in ("block", "blockg"):
        return {"hist": r["prefix"], "points": "none", "ks": [], "conts": [], "block": True}
    return {"hist": r["prefix"], "points": "end", "ks": [r["K"]], "conts": [r["cont"]], "tail": r["tail"]}


def replay(r, path, wd):
    """./check replay <file>: re-run one pair on the current tree and let TLC judge it again."""
    if r["mode"] == "tickclock":
        build_harness()
        tbk, tbo = os.path.join(wd, "tick_budget.kbd"), os.path.join(wd, "tick_budget.ndjson")
        open(tbk, "w").write("(defsrc a)\n(deflayer l0 a)\n")
        sh([HARNESS, "tick-budget", tbk, tbo], timeout=300)
        for line in open(tbo):
            print(line.rstrip()[:300])
        stats, errs, notes, index = validate_pairs([tbo], wd, "replay")
        for e in errs:
            print("REJECTED: %s" % e["err"])
        if errs:
            print("VIOLATION property=%s replay=%s" % (r["property"], path))
            return 1
        print("accepted by P_C07!TickClockErr (%d clean samples)" % stats["pairs"])
        return 0
    if r["mode"] == "loop":
        build_harness()
        jf, of = os.path.join(wd, "loop.job.json"), os.path.join(wd, "loop.pairs.ndjson")
        json.dump({"jobs": [{"cfg": r["cfg"], "tag": "loop0", "runs": [{"events": r["events"], "gaps_us": r["gaps_us"]}]}]}, open(jf, "w"))
        sh([HARNESS, "loop-run", jf, of])
        stats, errs, notes, index = validate_pairs([of], wd, "replay")
        for e in errs:
            print("REJECTED: %s" % e["err"])
        if errs:
            print("VIOLATION property=%s replay=%s" % (r["property"], path))
            return 1
        print("accepted by P_C07!LoopErr (real-time run: the schedule is not reproduced exactly)")
        return 0
    job = {"cfg": r["cfg"], "files": r.get("files", {}), "cases": [replay_case(r)]}
    files = run_paired([job], wd, "replay", shards=1)
    for line in open(files[0]):
        print(line.rstrip()[:1200])
    stats, errs, notes, index = validate_pairs(files, wd, "replay")
    if stats["pairs"] == 0:
        print("the prefix no longer ends in a may-block decision on this tree: nothing to compare")
        return 0
    if any(e["mode"] == "blockg" for e in errs) or not any(p["mode"] == "blockg" for p in index.values()):
        pass
    else:
        # the guarded blocking stepper agrees: what is left is attributed to the recorded findings
        errs = [e for e in errs if e["mode"] != "block"]
    for e in errs:
        print("REJECTED: %s" % e["err"])
    if errs:
        print("VIOLATION property=%s replay=%s" % (r["property"], path))
        return 1
    print("accepted by P_C07!PairErr")
    return 0


class Pairs:
    """Collects paired-run jobs, runs them, lets TLC judge, classifies rejected pairs."""

    def __init__(self, res, wd):
        self.res, self.wd = res, wd
        self.jobs = []
        self.stats = {"pairs": 0, "rejected": 0,  "raw_only_diffs": 0,
                      "points": 0, "cases": 0, "ticks_scanned": 0, "cb_ticks": 0}

    def add(self, cfg, files, cases, label, meta=None):
        if cases:
            self.jobs.append({"cfg": cfg, "files": files or {}, "cases": cases, "label": label, "meta": meta or {}})

    def lookup(self, tag):
        ji, ci = tag.split("/")
        j = self.jobs[int(ji)]
        return j, j["cases"][int(ci)]

    def record(self, name):
        """Runs the paired jobs on the real code (sharded over processes)."""
        self.name, self.files = name, []
        if self.jobs:
            t0 = time.time()
            self.files = run_paired(self.jobs, self.wd, name)
            self.t_rec = time.time() - t0

    def judge(self):
        """TLC judges the recorded pairs; rejected pairs are classified."""
        if not self.files:
            return
        name = self.name
        t1 = time.time()
        stats, errs, notes, index = validate_pairs(self.files, self.wd, name)
        log("[c07] %s: %d pairs from %d cases (%d may-block points, %d used) recorded in %.1fs, judged by TLC in %.1fs: "
            "%d rejected" % (name, stats["pairs"], stats["cases"], stats["points"], stats["points_used"],
                             self.t_rec, time.time() - t1, len(errs)))
        with LOCK:
            self.stats["pairs"] += stats["pairs"]
            self.stats["points"] += stats["points_used"]
            self.stats["cases"] += stats["cases"]
            self.stats["ticks_scanned"] += stats["ticks"]
            self.stats["cb_ticks"] += stats["cbticks"]
            self.stats["raw_only_diffs"] += len(notes)
            self.res.traces_validated += stats["pairs"]
            self.res.trace_lines += stats["pairs"]
        if errs:
            with LOCK:
                self.classify(errs, index, name)

    def run(self, name):
        self.record(name)
        self.judge()

    def classify(self, errs, index, name):
        self.stats["rejected"] += len(errs)
        bad = {e["line"] for e in errs}
        sib_ok = {}          # (job, cut, cont) -> gap lengths K whose pair was accepted
        okg = set()          # jobs whose guarded blocking-stepper pair was accepted
        for ln, p in index.items():
            if ln not in bad:
                sib_ok.setdefault((p["job"], p["cut"], json.dumps(p["cont"])), set()).add(p["K"])
                if p["mode"] == "blockg":
                    okg.add(p["job"])
        retest = []
        for e in errs:
            job, case = self.lookup(e["job"])
            pl = index[e["line"]]
            robj = pair_replay_obj(job, case, e, pl)
            text = e["err"]
            pre = pl["pre"]
            if e["mode"] == "gap":
                cands = [f for f in FINDINGS if f[2](pre)]
                if "defzippy" in job["cfg"] and e["K"] > 10000 and e["err"].startswith("C07 pair-diverges") and \
                        any(k <= K_LONG for k in sib_ok.get((e["job"], e["cut"], json.dumps(e["cont"])), ())):
                    text = SIG_ZIPPY + ": the pair with a gap of %d ticks diverges, the same pair with a gap <= %d agrees; " \
                        "configuration has defzippy] " % (e["K"], K_LONG) + e["err"]
                elif any(f[3] for f in cands):
                    retest.append((e, job, case, robj, cands))
                    continue
                elif cands:
                    text = " ".join("%s: %s]" % (f[1], f[4]) for f in cands) + " " + e["err"]
            elif e["mode"] == "block":
                g = pl["guards"]
                fired = [k for k in g if g[k]]
                if fired and e["job"] not in okg:
                    continue       # its guarded sibling is rejected as well: reported once, through that pair
                if fired and not ("long" in fired and "defzippy" not in job["cfg"]):
                    # the blocking stepper that keeps ticking in the states of the recorded findings agrees
                    text = " ".join(SIG_OF[k] + "]" for k in fired) + " blocking stepper vs ticking stepper on a whole " \
                        "history; the stepper that keeps ticking in those states agrees (decisions changed: %s): " % json.dumps(g) \
                        + e["err"]
            self.report(e, job, robj, text)
        if retest:
            # counterfactual: the same pair cut d ticks later, when the pending item is out of the way
            rj = []
            for e, job, case, robj, cands in retest:
                d = max(f[3](robj["pre"]) for f in cands if f[3])
                rj.append({"cfg": job["cfg"], "files": job.get("files", {}),
                           "cases": [{"hist": robj["prefix"] + [["t", d]], "points": "end", "ks": [robj["K"]],
                                      "conts": [robj["cont"]], "tail": robj["tail"]}]})
            files = run_paired(rj, self.wd, name + ".retest")
            stats, errs2, _, index2 = validate_pairs(files, self.wd, name + ".retest")
            still = {e2["job"] for e2 in errs2}
            have = {p["job"] for p in index2.values()}
            for i, (e, job, case, robj, cands) in enumerate(retest):
                tag = "%d/0" % i
                text = e["err"]
                timed = [f for f in cands if f[3]]
                untimed = [f for f in cands if not f[3]]
                if tag in have and tag not in still:
                    text = " ".join("%s: %s; the same pair taken %d tick(s) later agrees]" % (f[1], f[4], f[3](robj["pre"]))
                                    for f in timed) + " " + e["err"]
                elif untimed:
                    text = " ".join("%s: %s]" % (f[1], f[4]) for f in untimed) + " " + e["err"]
                self.report(e, job, robj, text)

    def report(self, e, job, robj, text):
        n_before = len(self.res.known)
        full = text + " cfg=" + job["cfg"]
        if len(self.res.violations) >= 25 and \
                not any(flow.sig_matches(f, PID, full) for f in known_findings().get("findings", [])):
            self.stats["violations_beyond_the_first_25"] = self.stats.get("violations_beyond_the_first_25", 0) + 1
            return
        is_v = flow.classify(self.res, PID, e["err"], text + " cfg=" + job["cfg"], robj,
                             "%s_%d" % (re.sub(r"\W+", "_", job["label"])[:30], len(self.res.violations)))
        if not is_v:
            for k, sg in SIG_OF.items():
                if text.startswith(sg):
                    self.stats["known_" + k] = self.stats.get("known_" + k, 0) + 1
                    break
            if len(self.res.known) > n_before or len(self.res.samples) < 6:
                self.res.samples.append({"known_finding_pair": text[:400], "cfg": job["cfg"], "prefix": robj["prefix"][-12:],
                                         "K": robj["K"], "cont": robj["cont"]})


# ---------------------------------------------------------------- part 3: the processing thread
LOOP_CFGS = [
    "(defsrc a b c d)\n(deflayer l0 x (layer-while-held l1) S-c (multi lctl d))\n(deflayer l1 1 _ 2 (layer-switch l0))\n",
    "(defcfg process-unmapped-keys yes)\n(defsrc a b)\n(deflayer l0 b a)\n",
    "(defsrc a b c d)\n(deflayer l0 (layer-switch l1) b C-S-c XX)\n(deflayer l1 (layer-switch l0) (multi x y) _ d)\n",
]
LOOP_CFG_TLC = """CONSTANT MaxTime = %d
CONSTANT MaxEvents = %d
CONSTANT W = 2
CONSTANT IdleD = 3
CONSTANT Bug = "%s"
INIT Init
NEXT Next
CHECK_DEADLOCK FALSE
%s
"""
LOOP_INVS = ["BlockedOnlyWhenIdle", "RecvThenTick", "NoEventLost", "OnIdleNotPostponed", "TickBudget"]
LOOP_MUTANTS = {"no_rewind": "RecvThenTick", "block_when_counting": "BlockedOnlyWhenIdle", "rem_double_count": "TickBudget"}


def loop_model(wd, quick):
    """TLC on spec/Loop.tla: the invariants must hold on the design and each seeded design error must be rejected."""
    mt, me = (28, 2) if quick else (40, 3)
    out = {}
    runs = [("design", "none", mt, me)] + [("mutant_" + b, b, 28, 2) for b in LOOP_MUTANTS]
    for name, bug, t, e in runs:
        d = os.path.join(wd, "loop_" + name)
        os.makedirs(d, exist_ok=True)
        with open(os.path.join(d, "Loop.cfg"), "w") as f:
            f.write(LOOP_CFG_TLC % (t, e, bug, "\n".join("INVARIANT " + i for i in LOOP_INVS)))
        r = run_tlc(d, "Loop", workers=4, timeout=1200, heap="4g")
        if r["rc"] == 124 or (r["error"] and not r["violated"]):
            raise ToolError("TLC on Loop.tla (%s): %s" % (name, r["error"] or "timeout"))
        out[name] = {"states": r["distinct"], "violated": r["violated"], "wall_s": round(r["wall_s"], 1)}
    if out["design"]["violated"]:
        raise ToolError("spec/Loop.tla: invariant %s is violated on the design - the loop model is wrong or the loop is; "
                        "see %s" % (out["design"]["violated"], os.path.join(wd, "loop_design", "Loop.out")))
    for b in LOOP_MUTANTS:
        if not out["mutant_" + b]["violated"]:
            raise ToolError("spec/Loop.tla: seeded design error %s is not rejected (vacuous invariants)" % b)
    return out


def loop_runs(rng, n):
    jobs = []
    for ci, cfg in enumerate(LOOP_CFGS):
        m = re.search(r"\(defsrc ([^)]*)\)", cfg)
        codes = [cfgdesc.code(k) for k in m.group(1).split()]
        runs = []
        for _ in range(n):
            evs, down = [], set()
            for _ in range(rng.randint(4, 18)):
                k = rng.choice(codes)
                if k in down:
                    evs.append(["u", k])
                    down.discard(k)
                else:
                    evs.append(["d", k])
                    down.add(k)
            for k in sorted(down):
                evs.append(["u", k])
            runs.append({"events": evs, "gaps_us": [rng.choice([0, 0, 100, 500, 1000, 2500, 5000, 30000]) for _ in evs]})
        jobs.append({"cfg": cfg, "tag": "loop%d" % ci, "runs": runs})
    return jobs


# ---------------------------------------------------------------- the check
def tick_ending(path, limit, rng, want_cb=True):
    """Edge histories ending in a tick: all with model cb = TRUE (sampled to `limit`), shortest first half."""
    yes, no = [], []
    for line in open(path):
        line = line.strip()
        if not line:
            continue
        if '"cb":true' in line:
            yes.append(line)
        elif '"cb":false' in line:
            no.append(line)
    def pick(ls, n):
        if len(ls) <= n:
            sel = ls
        else:
            ls.sort(key=len)
            sel = ls[:n // 2] + rng.sample(ls[n // 2:], n - n // 2)
        return [json.loads(x)["h"] for x in sel]
    return pick(yes, limit), pick(no, max(limit // 4, 5)), len(yes), len(no)


def run(tier, seed):
    res = flow.Result(PID, tier, seed)
    rng = random.Random(seed)
    wd = workdir("c07")
    quick = tier == "quick"
    only = os.environ.get("C07_ONLY", "")
    pairs = Pairs(res, wd)
    fam = [f for f in family(tier) if not only or any(f["name"].startswith(o) for o in only.split(","))]

    # part 3's model (spec/Loop.tla) is checked by TLC in the background
    loopres = {}

    def loop_bg():
        try:
            loopres["out"] = loop_model(wd, quick)
        except Exception as ex:
            loopres["err"] = ex
    lt = threading.Thread(target=loop_bg)
    if not only or "loop" in only:
        lt.start()

    # ---- part 1: TLC on L1 || P_C07 with the stutter probes, edges replayed on the code (D + B)
    results = {}
    errors = []
    sem = threading.Semaphore(3)

    def work(f):
        with sem:
            try:
                inst = {"name": "c07_" + f["name"], "kbd": f["kbd"], "keys": [cfgdesc.code(k) for k in f["keys"]],
                        "qmax": f["opt"].get("qmax", 2),
                        # the one-behaviour monitor of P_C07 is implied by IdleTickIsStutter and would end the
                        # exploration at the first recorded finding; the invariant itself is the L2 judgement here
                        "invariants": ["C07Probe", "C07ProbeX"],
                        "extra_defs": PROBE_DEFS + f["opt"].get("extra_defs", ""), "drift_limit": 300, "heap": "3g"}
                for k in ("caps", "constraint"):
                    if k in f["opt"]:
                        inst[k] = f["opt"][k]
                inst["extra_tags"] = ["NOSTUTTERX"]
                r = mc.check_instance(inst, wd, workers=4, timeout=1500)
                results[f["name"]] = r
            except Exception as ex:       # re-raised in the main thread
                errors.append(ex)

    cfgdesc.keytable()
    # the edge lists are needed below (TLC-generated prefixes); they and the TLC outputs are removed after use
    os.environ["KVERIF_KEEP"] = "1"
    ths = [threading.Thread(target=work, args=(f,)) for f in fam]
    for t in ths:
        t.start()
    for t in ths:
        t.join()
    if errors:
        raise errors[0]
    n_ns = n_nsx = 0
    for f in fam:
        r = results[f["name"]]
        res.add_instance(r)
        res.instances[-1]["n_nostutterx"] = r["n_nostutterx"]
        n_ns += r["n_nostutter"]
        n_nsx += r["n_nostutterx"]
        codes = [cfgdesc.code(k) for k in f["keys"]]
        tmax = f["tmax"]
        if len(res.samples) < 2:
            res.samples.append({"instance": f["name"], "kbd": f["kbd"], "states": r["states"], "edges": r.get("edges"),
                                "nostutter_witnesses": r["n_nostutter"]})
        # ---- part 2 (i): prefixes generated by TLC
        lim = 24 if quick else 250
        yes, no, nyes, nno = tick_ending(r["edges_file"], lim, rng)
        wit = [w["h"] for w in flow.witness_scripts(r["nostutter_file"], 6 if quick else 40)]
        witx = [w["h"] for w in flow.witness_scripts(os.path.join(wd, "MC_c07_" + f["name"] + ".nostutterx.ndjson"), 40)]
        mon = [w["h"] for w in flow.witness_scripts(r["monerr_file"], 40)]
        drift = [d["h"] for d in r.get("drift_samples", []) if d["h"] and d["h"][-1][0] == "t"]
        conts = alphabet(codes)
        ks_all = sorted(set(KS_BASE + [tmax + 1, K_LONG, K_HUGE]))
        ks_small = sorted(set([1, tmax + 1, K_LONG]))
        cases = []
        seen = set()
        for gi, (group, ks) in enumerate(((witx, ks_all), (mon, ks_all), (wit, ks_all), (drift, ks_small),
                                          (yes, None), (no, ks_small))):
            for hi, h in enumerate(group):
                key = json.dumps(h)
                if key in seen:
                    continue
                seen.add(key)
                k = ks if ks is not None else (ks_all if hi % 6 == 0 else ks_small)
                cases.append({"hist": flow.hist_to_script(h), "points": "end", "ks": k, "conts": conts,
                              "tail": 3 * tmax + 12})
        pairs.add(f["kbd"], {}, cases, "l1:" + f["name"], {"model_cb_edges": nyes})
        for k in ("tlc_out", "edges_file"):
            if r.get(k) and os.path.exists(r[k]):
                os.remove(r[k])
        # ---- part 2 (ii a): random histories on the same configuration, every blocked stretch, + blocking stepper
        n = 6 if quick else 60
        cases = []
        for _ in range(n):
            h = c07_history(rng, codes, rng.randint(4, 30 if quick else 120), [tmax])
            cases.append({"hist": h, "points": "firstlast", "max_points": 6 if quick else 20,
                          "ks": sorted(set([1, tmax, tmax + 1, rng.choice([2, 7, 50, K_LONG])])),
                          "conts": rng.sample(conts, min(len(conts), 3)), "rest": 40, "tail": 3 * tmax + 12, "block": True})
        pairs.add(f["kbd"], {}, cases, "rnd:" + f["name"])
    res.extra["model_nonstutter_states"] = n_ns
    res.extra["model_nonstutter_states_not_covered_by_a_recorded_finding"] = n_nsx
    pairs.record("l1")
    judges = [pairs]

    # ---- part 2 (ii b): hand-written feature-rich configurations (features L1 does not model)
    if not only or "rich" in only:
        pr = Pairs(res, wd)
        pr.stats = pairs.stats
        for name, kbd, files, keys, nums in RICH:
            codes = [cfgdesc.code(k) for k in keys]
            conts = alphabet(codes[:3])
            cases = []
            for _ in range(5 if quick else 30):
                h = c07_history(rng, codes, rng.randint(4, 40 if quick else 100), nums)
                big = rng.random() < (0.25 if quick else 0.3)
                cases.append({"hist": h, "points": "firstlast", "max_points": 5 if quick else 10,
                              "ks": sorted(set([1, rng.choice(nums), max(nums) + 1] + ([K_LONG, K_HUGE] if big else [rng.choice([2, 7, K_LONG])]))),
                              "conts": rng.sample(conts, min(len(conts), 3)), "rest": 60,
                              "tail": 3 * max(nums) + 20, "block": True})
            pr.add(kbd, files, cases, "rich:" + name)
        # the documented reproducer of the zippychord finding (DESIGN 6 #12)
        C = cfgdesc.code
        pr.add(RICH[0][1], RICH[0][2],
               [{"hist": [["d", C("d")], ["t", 2], ["d", C("y")], ["t", 5], ["u", C("d")], ["t", 2], ["u", C("y")], ["t", 20]],
                 "points": "end", "ks": [1, K_LONG, 9000, K_HUGE], "conts": [[["d", C("1")], ["t", 3], ["u", C("1")]]],
                 "tail": 40}], "zippy-reproducer")
        # directed history of the repaired chords-v2 finding (7d8a52c): tap c in one ms, min-idle window, then d + release c
        cv = [r for r in RICH if r[0] == "chordsv2"][0]
        pr.add(cv[1], cv[2],
               [{"hist": [["d", C("c")], ["u", C("c")], ["t", 20]], "points": "firstlast", "ks": [1, 2, 26],
                 "conts": [[["d", C("d")], ["u", C("c")]], [["d", C("d")], ["u", C("d")]], [["d", C("a")], ["d", C("b")]]],
                 "tail": 60}], "chv2-min-idle-edge")
        pr.record("rich")
        judges.append(pr)
        pr = Pairs(res, wd)
        pr.stats = pairs.stats

        # ---- part 2 (ii c): configurations drawn from the whole action grammar
        ncfg = 40 if quick else 240
        texts, metas = [], []
        crng = random.Random(seed * 7919 + 13)
        for _ in range(ncfg):
            t, m = cfggen.gen_config(crng, depth=rng.choice([1, 2, 2, 3]), latch_free=True)
            texts.append(t)
            metas.append(m)
        acc, st = cfggen.accepted(texts, wd, "c07acc")
        res.extra["generated_configs"] = {"texts": st["texts"], "accepted": st["accepted"], "rejected": st["rejected"]}
        used = 0
        for t, m, a in zip(texts, metas, acc):
            if not a or not a["mapped"]:
                continue
            codes = [c for c in a["mapped"] if c < 700][:8]
            if not codes:
                continue
            used += 1
            nums = [x for x in m["numbers"] if 0 < x <= 600][:6] or [5]
            conts = alphabet(codes[:2])
            cases = []
            for _ in range(2 if quick else 4):
                h = c07_history(crng, codes, crng.randint(4, 40 if quick else 80), nums)
                cases.append({"hist": h, "points": "firstlast", "max_points": 4 if quick else 8,
                              "ks": sorted(set([1, crng.choice(nums) + 1, crng.choice([2, 7, K_LONG, K_HUGE])])),
                              "conts": crng.sample(conts, min(len(conts), 2)), "rest": 60,
                              "tail": min(3 * max(nums) + 20, 600), "block": True})
            pr.add(t, {}, cases, "gen:" + m["hash"])
        res.extra["generated_configs"]["driven"] = used
        pr.record("gen")
        judges.append(pr)
    jerrs = []

    def judge(p):
        try:
            p.judge()
        except Exception as ex:
            jerrs.append(ex)
    jt = [threading.Thread(target=judge, args=(p,)) for p in judges]
    for t in jt:
        t.start()
    for t in jt:
        t.join()
    if jerrs:
        raise jerrs[0]

    # ---- part 3: the loop thread - TLC on spec/Loop.tla, and the real thread against the stepper (exploration)
    if not only or "loop" in only:
        lt.join()
        if "err" in loopres:
            raise loopres["err"]
        res.extra["loop_model"] = loopres["out"]
        res.states += res.extra["loop_model"]["design"]["states"] or 0
        # the tick clock on the real handle_time_ticks (binding of Loop!TickBudget to the code): clean samples of two
        # back-to-back calls < 0.9 ms after "0 ms elapsed", judged by TLC (P_C07!TickClockErr)
        tbk, tbo = os.path.join(wd, "tick_budget.kbd"), os.path.join(wd, "tick_budget.ndjson")
        open(tbk, "w").write("(defsrc a)\n(deflayer l0 a)\n")
        sh([HARNESS, "tick-budget", tbk, tbo], timeout=300)
        tstats, terrs, _, _ = validate_pairs([tbo], wd, "tickclock")
        res.traces_validated += tstats["pairs"]
        res.extra["tick_clock_samples"] = {"clean_samples": tstats["pairs"], "rejected": len(terrs)}
        if tstats["pairs"] == 0:
            res.notes.append("tick clock: no clean sample (< 0.9 ms of wall clock) could be taken on this machine; not judged")
        for e in terrs[:1]:
            flow.classify(res, PID, e["err"], e["err"],
                          {"kind": "c07pair", "property": PID, "mode": "tickclock", "err": e["err"], "monitor": "P_C07"},
                          "tickclock_%d" % len(res.violations))
        ljobs = loop_runs(rng, 3 if quick else 20)
        jf, of = os.path.join(wd, "loop.job.json"), os.path.join(wd, "loop.pairs.ndjson")
        json.dump({"jobs": ljobs}, open(jf, "w"))
        p = sh([HARNESS, "loop-run", jf, of], check=False, timeout=1800)
        if p.returncode != 0:
            raise ToolError("kverif loop-run failed: " + (p.stdout or "")[-1500:])
        lerr = [json.loads(x) for x in open(of) if '"e":"looperror"' in x]
        if lerr:
            raise ToolError("kverif loop-run could not run the processing thread: %s" % lerr[0]["msg"])
        stats, errs, notes, index = validate_pairs([of], wd, "loop")
        res.traces_validated += stats["pairs"]
        res.extra["real_thread_runs"] = {"runs": stats["pairs"], "rejected": len(errs)}
        for e in errs:
            j = ljobs[int(e["job"][4:])]
            run_ = j["runs"][e["case"]]
            # a real-time run: a disagreement counts only if it shows again on the same events and gaps (twice)
            again = 0
            for rep in range(2):
                jf2, of2 = os.path.join(wd, "loop.re.job.json"), os.path.join(wd, "loop.re.pairs.ndjson")
                json.dump({"jobs": [{"cfg": j["cfg"], "tag": "loop0", "runs": [run_]}]}, open(jf2, "w"))
                sh([HARNESS, "loop-run", jf2, of2], timeout=600)
                _, e2, _, _ = validate_pairs([of2], wd, "loopre")
                again += 1 if e2 else 0
            res.extra["real_thread_runs"].setdefault("rerun", []).append({"first": e["err"][:200], "rejected_again": again})
            if again < 2:
                res.notes.append("a real-thread run disagreed once and agreed when repeated (real time; not counted): " + e["err"][:200])
                continue
            flow.classify(res, PID, e["err"], e["err"] + " cfg=" + j["cfg"],
                          {"kind": "c07pair", "property": PID, "mode": "loop", "cfg": j["cfg"], "events": run_["events"],
                           "gaps_us": run_["gaps_us"], "err": e["err"], "monitor": "P_C07"}, "loop_%d" % len(res.violations))
    res.extra["pairs"] = pairs.stats
    res.samples.append({"pair_statistics": dict(pairs.stats)})
    if pairs.stats["pairs"] == 0 and not only:
        raise ToolError("no may-block point was reached: the paired runs compared nothing")
    return flow.finish(
        res, "model_checking",
        "TLC checks on every L1 instance (one per time-driven field of is_idle/can_block that the model covers) the invariant "
        "IdleTickIsStutter (Kanata.tla): a tick taken where CanBlock holds emits nothing and is a stutter on everything that can "
        "influence the future; every model transition incl. the idle/can_block flags is replayed on the real code (drift 0). From "
        "TLC-generated prefixes (edges, non-stutter witnesses, drifting edges), random histories on the instance, hand-written "
        "(defseq, caps-word, zippychord, mouse, chords v2, dynamic macros) and generated configurations, at every point where the "
        "REAL can_block decision was true, lane A = K ticks + continuation and lane B = continuation are recorded from fresh "
        "instances for K in {1,2,7,Tmax+1,1000,12000} and judged by TLC (P_C07!PairErr): silent gap, decision kept, equal OS events "
        "at equal offsets; whole histories are also run by the blocking stepper against the ticking stepper. A rejected pair is "
        "attributed to a recorded finding only if the decision point shows its precondition and the counterfactual pair agrees. "
        "Part 3: TLC on spec/Loop.tla (5 invariants, 3 seeded design errors rejected), the tick clock of the real handle_time_ticks "
        "(P_C07!TickClockErr) and the real processing thread against the "
        "stepper on time-insensitive configurations (exploration).",
        assumptions=["deterministic stepper: one tick = tick_ms(1); can_block_update_idle_waiting(1)",
                     "a blocked wake-up is `input; tick` (last_tick = now - 1 ms)",
                     "the real threaded loop (part 3) is not part of this verdict",
                     "process-global zippychord state: lanes run sequentially, each after a fresh configuration load"])
