"""C17 - tap-dance performs exactly the action for the number of taps."""
from props.common import *

K = lambda k: {"t": "key", "k": k}
OUTS = ["x", "y", "z", "1"]


def make(eager, T, nacts, red, keys=("a", "b")):
    td = {"t": "td", "timeout": T, "acs": [K(o) for o in OUTS[:nacts]], "eager": eager}
    layer = {"a": td, "b": K("q")}
    if len(keys) > 2:
        layer["c"] = K("w")
    desc = {"keys": list(keys), "layers": [layer], "defcfg": {"rapid-event-delay": red}}
    params = {"k": cfgdesc.code("a"), "T": T, "outs": [cfgdesc.code(o) for o in OUTS[:nacts]], "eager": eager,
              "others": [{"c": cfgdesc.code("b"), "o": cfgdesc.code("q")}] +
                        ([{"c": cfgdesc.code("c"), "o": cfgdesc.code("w")}] if len(keys) > 2 else []),
              "red": red}
    return desc, params


def family(tier):
    if tier == "quick":
        combos = [(False, 3, 3, 1), (False, 2, 2, 1), (True, 3, 3, 1), (False, 3, 1, 0), (True, 2, 4, 1)]
    else:
        combos = [(e, T, n, r) for e in (False, True) for T in (2, 3) for n in (1, 2, 3, 4) for r in (0, 1)] + \
                 [(False, 4, 3, 5), (True, 4, 3, 5)]
    return [("%s_T%d_n%d_r%d" % ("eager" if e else "lazy", T, n, r), make(e, T, n, r)) for (e, T, n, r) in combos]


def run(tier, seed):
    pid = "C17"
    res = flow.Result(pid, tier, seed)
    rng = random.Random(seed)
    wd = workdir("c17")
    jobs_random, witness_jobs = [], []
    for name, (desc, params) in family(tier):
        kbd = cfgdesc.render_kbd(desc)
        keys = [cfgdesc.code(k) for k in desc["keys"]]
        inst = {"name": "c17_" + name, "kbd": kbd, "keys": keys, "qmax": 3,
                "monitor": {"module": "P_C17", "params": params},
                # a swallowed tap (known finding) stays unconsumed for ever; histories that pile up more than
                # two unconsumed taps are not expanded further (the monitor flags them at the next idle point)
                "constraint": "TapBound", "extra_defs": "TapBound == mon.err # \"\" \/ mon.taps <= %d" % (len(params["outs"]) + 1)}
        r = mc.check_instance(inst, wd, workers=8, timeout=1500)
        res.add_instance(r)
        if len(res.samples) < 3:
            res.samples.append({"instance": name, "kbd": kbd, "states": r["states"], "edges": r.get("edges")})
        ws = flow.witness_scripts(r["monerr_file"], 40) + flow.witness_scripts(r["panic_file"], 10)
        scripts = [flow.hist_to_script(w["h"], 60) for w in ws] + \
                  [flow.hist_to_script(d["h"], 60) for d in r.get("drift_samples", [])]
        if scripts:
            witness_jobs.append({"cfg": kbd, "params": params, "tag": "w:" + name, "scripts": scripts})
        n = 30 if tier == "quick" else 200
        T = params["T"]
        scripts = [rand_history(rng, keys, rng.randint(4, 40 if tier == "quick" else 200),
                                [0, 1, 1, max(T - 1, 0), T, T + 1, 3 * T], tail=120) for _ in range(n)]
        jobs_random.append({"cfg": kbd, "params": params, "tag": "r:" + name, "scripts": scripts})
    for label, jobs in (("witness", witness_jobs), ("random", jobs_random)):
        if not jobs:
            continue
        jobs = shard_local_index(jobs)
        errs, trace = record_and_validate(res, "P_C17", jobs, wd, "c17_" + label)
        for e in errs:
            j, s = script_of(jobs, e["job"], 0)
            flow.classify(res, pid, e["err"], e["err"] + " cfg=" + j["cfg"],
                          {"property": pid, "cfg": j["cfg"], "params": j["params"], "script": s, "err": e["err"],
                           "monitor": "P_C17"},
                          "%s_%d" % (label, len(res.violations)))
        if label == "random":
            res.samples.append({"random_history": jobs[0]["scripts"][0][:30], "cfg": jobs[0]["cfg"]})
    return flow.finish(
        res, "model_checking",
        "TLC explores L1||P_C17 for every physically consistent schedule over the tap-dance key and one other key "
        "(<=4 pending, every gap) per form/timeout/list-length instance; every model transition is replayed on the real code; "
        "model-level counterexamples and random schedules (gaps around T) are recorded from the code and validated by TLC "
        "against P_C17.",
        assumptions=["deterministic stepper", "listed actions are distinct otherwise-unused keys"])
