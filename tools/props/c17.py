"""C17 - tap-dance performs exactly the action for the number of taps."""
from props.common import *

K = lambda k: {"t": "key", "k": k}
OUTS = ["x", "y", "z", "1"]
OUTS2 = ["7", "8", "9", "0"]      # listed actions of a second tap-dance key (distinct from the first key's)


def td_params(key, eager, T, outs, red, others):
    return {"k": cfgdesc.code(key), "T": T, "outs": [cfgdesc.code(o) for o in outs], "eager": eager,
            "others": [{"c": cfgdesc.code(c), "o": cfgdesc.code(o)} for c, o in others], "red": red}


def make(eager, T, nacts, red, keys=("a", "b")):
    """one tap-dance key (a) + one or two plain keys"""
    td = {"t": "td", "timeout": T, "acs": [K(o) for o in OUTS[:nacts]], "eager": eager}
    layer = {"a": td, "b": K("q")}
    if len(keys) > 2:
        layer["c"] = K("w")
    desc = {"keys": list(keys), "layers": [layer], "defcfg": {"rapid-event-delay": red}}
    params = td_params("a", eager, T, OUTS[:nacts], red, [("b", "q")] + ([("c", "w")] if len(keys) > 2 else []))
    return desc, params


def make2(A, B, red, plain=False):
    """two tap-dance keys a, b (each (eager, T, nacts)) in one configuration (+ a plain key c): the count of one is
    ended by the press of the other, which starts its own"""
    tds, layer = [], {}
    for key, outs, (eager, T, nacts) in (("a", OUTS, A), ("b", OUTS2, B)):
        layer[key] = {"t": "td", "timeout": T, "acs": [K(o) for o in outs[:nacts]], "eager": eager}
        tds.append(td_params(key, eager, T, outs[:nacts], red, [("c", "w")] if plain else []))
    keys = ["a", "b"] + (["c"] if plain else [])
    if plain:
        layer["c"] = K("w")
    desc = {"keys": keys, "layers": [layer], "defcfg": {"rapid-event-delay": red}}
    return desc, {"tds": tds}


# ---- listed actions of other kinds than plain keys (docs: "tap-dance ... list of actions"; the guide's own
# tap-dance-eager example lists three macros).  An entry: ("key", k) | ("macro", [k1, k2..]) | ("multi", [k1, k2..]) |
# ("xx",) | ("relkey", k) (k is never down: no output) | ("lwh", layer).  The monitor learns each entry's observable
# effect from this description: kind, marker key (first key typed / pressed), further keys.
def entry_action(e):
    if e[0] == "key":
        return K(e[1])
    if e[0] == "macro":
        return {"t": "macro", "variant": "macro", "items": list(e[1])}
    if e[0] == "multi":
        return {"t": "multi", "acs": [K(k) for k in e[1]]}
    if e[0] == "xx":
        return {"t": "xx"}
    if e[0] == "relkey":
        return {"t": "relkey", "k": e[1]}
    if e[0] == "lwh":
        return {"t": "lwh", "l": e[1]}
    raise ToolError("c17 entry %r" % (e,))


def entry_params(e):
    """(kind, marker code, further codes)"""
    if e[0] == "key":
        return "key", cfgdesc.code(e[1]), []
    if e[0] in ("macro", "multi"):
        return e[0], cfgdesc.code(e[1][0]), [cfgdesc.code(k) for k in e[1][1:]]
    return "silent", 0, []


def make_kinds(eager, T, entries, red):
    """one tap-dance key (a) whose list entries are actions of several kinds + one plain key (b -> q; w on the layer
    a listed layer-while-held activates)"""
    td = {"t": "td", "timeout": T, "acs": [entry_action(e) for e in entries], "eager": eager}
    layers = [{"a": td, "b": K("q")}]
    if any(e[0] == "lwh" for e in entries):
        layers.append({"b": K("w")})
    desc = {"keys": ["a", "b"], "layers": layers, "defcfg": {"rapid-event-delay": red}}
    eps = [entry_params(e) for e in entries]
    params = {"k": cfgdesc.code("a"), "T": T, "outs": [m for _, m, _ in eps], "eager": eager,
              "others": [{"c": cfgdesc.code("b"), "o": cfgdesc.code("q")}], "red": red,
              "kinds": [k for k, _, _ in eps], "also": [a for _, _, a in eps]}
    return desc, params


MAC = lambda *ks: ("macro", list(ks))
# (name, eager, T, entries, red, queue bound)
KINDS_QUICK = [
    # the config guide's example shape: every entry a macro typing its own keys
    ("mac", True, 3, [MAC("x", "r"), MAC("y"), MAC("z")], 1, 3),
    ("xx1", True, 2, [("xx",), ("key", "y"), MAC("z")], 1, 3),
    ("rel1", True, 2, [("relkey", "n"), ("multi", ["y", "t"])], 0, 3),
    ("mix", False, 2, [MAC("x"), ("xx",)], 1, 2),
]
KINDS_THOROUGH = KINDS_QUICK + [
    ("rel3", True, 3, [("relkey", "n"), ("multi", ["y", "t"]), ("lwh", 1)], 0, 3),
    ("mix3", False, 2, [MAC("x"), ("xx",), ("key", "z")], 1, 3),
    ("mix2", False, 3, [("multi", ["x", "r"]), ("relkey", "n"), MAC("z", "t")], 0, 3),
    ("mac", False, 3, [MAC("x", "r"), MAC("y"), MAC("z")], 1, 2),
    ("xx1", False, 2, [("xx",), ("key", "y"), MAC("z")], 0, 2),
    ("lwh1", False, 3, [("lwh", 1), ("key", "y"), ("xx",)], 1, 2),
    ("mac4", True, 2, [MAC("x"), ("xx",), MAC("z", "t"), ("key", "1")], 0, 3),
    ("one", True, 3, [MAC("x", "r")], 1, 3),
    ("key1", True, 3, [("key", "x"), MAC("y"), ("xx",)], 1, 3),
]


def form(e):
    return "eager" if e else "lazy"


def family(tier):
    if tier == "quick":
        combos = [(False, 3, 3, 1), (False, 2, 2, 1), (True, 3, 3, 1), (False, 3, 1, 0), (True, 2, 4, 1),
                  # eager dances continued past the end of the list (L + 2 taps in succession), L = 1, 2
                  (True, 3, 2, 1), (True, 2, 1, 0)]
        # (first key, second key, rapid-event-delay, plain third key, queue bound)
        pairs = [((True, 3, 2), (True, 3, 2), 1, False, 3), ((True, 3, 2), (False, 2, 2), 1, False, 2),
                 ((False, 2, 2), (False, 2, 1), 0, False, 2)]
    else:
        combos = [(e, T, n, r) for e in (False, True) for T in (2, 3) for n in (1, 2, 3, 4) for r in (0, 1)] + \
                 [(False, 4, 3, 5), (True, 4, 3, 5)]
        pairs = [((True, 3, 2), (True, 3, 2), 1, False, 3), ((True, 3, 2), (False, 2, 2), 1, False, 3),
                 ((False, 2, 2), (False, 2, 1), 0, False, 3),
                 ((True, 3, 3), (True, 2, 2), 0, False, 3), ((True, 3, 2), (True, 3, 3), 1, True, 2),
                 ((True, 3, 3), (False, 3, 2), 0, False, 2), ((False, 3, 2), (True, 3, 3), 1, False, 2),
                 ((False, 2, 2), (False, 3, 2), 1, False, 2)]
    fam = [("%s_T%d_n%d_r%d" % (form(e), T, n, r), make(e, T, n, r), 3) for (e, T, n, r) in combos]
    fam += [("two_%s_T%d_n%d_%s_T%d_n%d_r%d%s%s" % (form(A[0]), A[1], A[2], form(B[0]), B[1], B[2], r, "_c" if pl else "",
                                                   "" if q == 3 else "_q%d" % q),
             make2(A, B, r, pl), q) for (A, B, r, pl, q) in pairs]
    fam += [("kinds_%s_%s_T%d_r%d%s" % (form(e), nm, T, r, "" if q == 3 else "_q%d" % q), make_kinds(e, T, ents, r), q)
            for (nm, e, T, ents, r, q) in (KINDS_QUICK if tier == "quick" else KINDS_THOROUGH)]
    only = os.environ.get("C17_ONLY")      # development aid: run the instances whose name contains this text
    if only:
        fam = [f for f in fam if only in f[0]]
    return fam


def all_params(params):
    return params["tds"] if "tds" in params else [params]


def cover_scripts(path, rng, head=120, sample=120):
    """COVER witnesses (TLC: one shortest history per composed state of the class): the shortest `head` + a seeded
    sample of the rest, as harness scripts."""
    ws = flow.witness_scripts(path, 10 ** 9)
    pick = ws[:head] + (rng.sample(ws[head:], min(sample, len(ws) - head)) if len(ws) > head else [])
    return len(ws), [flow.hist_to_script(w["h"], 30) for w in pick]


def run(tier, seed):
    pid = "C17"
    res = flow.Result(pid, tier, seed)
    rng = random.Random(seed)
    wd = workdir("c17")
    jobs_random, witness_jobs, cover_jobs = [], [], []
    n_cover = 0
    for name, (desc, params), qmax in family(tier):
        kbd = cfgdesc.render_kbd(desc)
        keys = [cfgdesc.code(k) for k in desc["keys"]]
        inst = {"name": "c17_" + name, "kbd": kbd, "keys": keys, "qmax": qmax,
                "monitor": {"module": "P_C17", "params": params},
                # histories that pile up more unconsumed taps of a key than its list length + 1 are not expanded
                # further (a swallowed tap stays unconsumed for ever; the monitor flags it at the next idle point).
                # Eager taps are consumed one tick after they are typed, so this does not bound eager successions:
                # those are explored up to the monitor's succession depth (list length + 2, capped counter `succ`)
                "constraint": "TapBound",
                "invariants": ["StutterProbe", "CoverProbe"], "extra_tags": ["COVER"],
                "extra_defs": "TapBound == mon.err # \"\" \\/ Mon!TapsBounded(mon)\n"
                              "CoverProbe == ~Mon!CoverClass(mon) \\/ PrintT(<<\"COVER\", ToJson([h |-> hist])>>)"}
        r = mc.check_instance(inst, wd, workers=4, timeout=1500)
        res.add_instance(r)
        if len(res.samples) < 3 or (name.startswith("two_") and len(res.samples) < 5):
            res.samples.append({"instance": name, "kbd": kbd, "states": r["states"], "edges": r.get("edges")})
        ws = flow.witness_scripts(r["monerr_file"], 40) + flow.witness_scripts(r["panic_file"], 10)
        scripts = [flow.hist_to_script(w["h"], 60) for w in ws] + \
                  [flow.hist_to_script(d["h"], 60) for d in r.get("drift_samples", [])]
        if scripts:
            witness_jobs.append({"cfg": kbd, "params": params, "tag": "w:" + name, "scripts": scripts})
        # class witnesses enumerated by TLC (taps past the end of an eager list; a dance begun by interrupting another
        # key's dance): recorded from the real code and judged by the monitor whether or not the replay drifted
        nc, cs = cover_scripts(r["cover_file"], rng, *((120, 120) if tier == "quick" else (600, 600)))
        n_cover += nc
        if cs:
            cover_jobs.append({"cfg": kbd, "params": params, "tag": "c:" + name, "scripts": cs})
        n = 30 if tier == "quick" else 200
        Ts = sorted({p["T"] for p in all_params(params)})
        gaps = [0, 1, 1] + [g for T in Ts for g in (max(T - 1, 0), T, T + 1)] + [3 * Ts[-1]]
        scripts = [rand_history(rng, keys, rng.randint(4, 40 if tier == "quick" else 200), gaps, tail=120)
                   for _ in range(n)]
        jobs_random.append({"cfg": kbd, "params": params, "tag": "r:" + name, "scripts": scripts})
    res.extra["class_witness_states"] = n_cover
    for label, jobs in (("witness", witness_jobs), ("cover", cover_jobs), ("random", jobs_random)):
        if not jobs:
            continue
        jobs = shard_local_index(jobs)
        errs, trace = record_and_validate(res, "P_C17", jobs, wd, "c17_" + label)
        for e in errs:
            j, s = script_of(jobs, e["job"], 0)
            flow.classify(res, pid, e["err"], e["err"] + " cfg=" + j["cfg"],
                          {"property": pid, "cfg": j["cfg"], "params": j["params"], "script": s, "err": e["err"],
                           "monitor": "P_C17"},
                          "%s_%d" % (label, len(res.violations)))
        if label == "random":
            res.samples.append({"random_history": jobs[0]["scripts"][0][:30], "cfg": jobs[0]["cfg"]})
        if label == "cover":
            res.samples.append({"class_witness": jobs[0]["scripts"][0][:30], "cfg": jobs[0]["cfg"]})
    return flow.finish(
        res, "model_checking",
        "TLC explores L1||P_C17 for every physically consistent schedule over one tap-dance key and one other key, or two "
        "tap-dance keys (eager+eager, eager+lazy, lazy+lazy) (<=4 pending, every gap; eager successions up to list "
        "length + 2 taps) per form/timeout/list-length instance; every model transition is replayed on the real code; "
        "model-level counterexamples, TLC-enumerated class witnesses (taps past the end of an eager list, a dance begun "
        "by interrupting another key's dance) and random schedules (gaps around T) are recorded from the code and "
        "validated by TLC against P_C17. `kinds_*` instances: the listed actions are macros (typing their own keys), XX, "
        "release-key, multi and layer-while-held; the monitor knows each entry's observable effect from the description "
        "(marker key and tick, further keys, or no output at all).",
        assumptions=["deterministic stepper", "listed actions use distinct otherwise-unused keys",
                     "a listed macro's first key appears one tick after a key action would (calibrated)"])
