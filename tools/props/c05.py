"""C05 - tap-hold resolves every press to exactly one of tap / hold / timeout, on time."""
from props.common import *

VARIANTS = {
    "default": "tap-hold", "press": "tap-hold-press", "release": "tap-hold-release",
    "press-timeout": "tap-hold-press-timeout", "release-timeout": "tap-hold-release-timeout",
    "release-keys": "tap-hold-release-keys", "except-keys": "tap-hold-except-keys",
}
K = lambda k: {"t": "key", "k": k}


# actions of the other keys: plain key | fork (outputs its left key: the trigger key is never held) | XX (no output at all);
# keys without an output are not listed in params["others"] (the monitor only sees them as "another key pressed")
OTHER_ACTIONS = {
    "key": lambda o: (K(o), o),
    "fork": lambda o: ({"t": "fork", "left": K(o), "right": K("w"), "trig": ["rctl"]}, o),
    "xx": lambda o: ({"t": "xx"}, None),
}


def make(variant, H, W, conc, red, keys=("a", "b", "c"), wrap=False, other=("key", "key")):
    th = {"t": "th", "variant": VARIANTS[variant], "tt": W, "ht": H, "tap": K("x"), "hold": K("lsft")}
    if variant.endswith("-timeout"):
        th["timeout"] = K("lctl")
    if variant.endswith("-keys"):
        th["keys"] = ["b"]
    outs = {"b": "y", "c": "z"}
    okind = {"b": other[0], "c": other[1]}
    # the documented Linux workaround: (multi f24 (tap-hold ...)) must behave like the bare tap-hold
    layer = {"a": {"t": "multi", "acs": [K("f24"), th]} if wrap else th}
    for k in keys[1:]:
        layer[k], outs[k] = OTHER_ACTIONS[okind[k]](outs[k])
    desc = {"keys": list(keys), "layers": [layer],
            "defcfg": {"rapid-event-delay": red, "concurrent-tap-hold": "yes" if conc else "no"}}
    params = {"k": cfgdesc.code("a"), "H": H, "W": W, "variant": variant,
              "tapK": cfgdesc.code("x"), "holdK": cfgdesc.code("lsft"),
              "toK": cfgdesc.code("lctl") if variant.endswith("-timeout") else cfgdesc.code("lsft"),
              "listed": [cfgdesc.code("b")] if variant.endswith("-keys") else [],
              "others": [{"c": cfgdesc.code(k), "o": cfgdesc.code(outs[k])} for k in keys[1:] if outs[k]],
              "cq": 1 if conc else 0, "red": red}
    custom = []
    if variant == "release-keys":
        custom = [("release-keys", [cfgdesc.code("b")])]
    if variant == "except-keys":
        custom = [("except-keys", [cfgdesc.code("b")])]
    return desc, params, custom


def family(tier):
    F = []
    if tier == "quick":
        combos = [("default", 3, 0, False, 1), ("default", 2, 2, True, 1), ("press", 3, 0, False, 1),
                  ("release", 3, 0, True, 1), ("press-timeout", 2, 0, False, 2), ("release-timeout", 3, 0, False, 1),
                  ("release-keys", 3, 0, False, 1), ("except-keys", 2, 0, False, 1)]
    else:
        combos = [(v, H, W, c, r) for v in VARIANTS for H in (2, 3) for W in (0, 2) for c in (False, True)
                  for r in ((1,) if (H, W) != (3, 0) else (1, 5))]
    for (v, H, W, c, r) in combos:
        # except-keys may stay undecided for ever (large age counters): two keys keep the graph small
        keys = ("a", "b") if v == "except-keys" else ("a", "b", "c")
        F.append(("%s_H%d_W%d_%s_r%d" % (v.replace("-", ""), H, W, "cq" if c else "nq", r), make(v, H, W, c, r, keys)))
        if v == "except-keys":
            # ... and the same with a key that is NOT in the list (b stays the listed key): "behaves as tap-hold"
            F.append(("%s_H%d_W%d_%s_r%d_nl" % (v.replace("-", ""), H, W, "cq" if c else "nq", r),
                      make(v, H, W, c, r, ("a", "c"))))
    # tap-repress window long enough for: tap, ANOTHER key, re-press + hold, all inside the window.  The other keys
    # are a plain key / a fork / XX, the tap-hold is bare and wrapped in multi (docs: the f24 workaround).
    WL = 10
    # quick: two-key instances (tap-hold key + ONE other key), which keeps the graph near 100 k states with the window counter
    # (with concurrent-tap-hold a tap needs H >= 3: the key is processed one tick after it arrives)
    wins = [("default", 3, WL, True, 1, False, ("xx",)), ("default", 3, WL, True, 1, True, ("key",)),
            ("default", 2, WL, False, 1, True, ("fork",))]
    if tier != "quick":
        # (a subset of variant x concurrency x wrapping x other-key action that keeps the tier within its time budget)
        wins += [(v, 3 if c else 2, WL, c, 1, w, o) for (v, c) in (("default", False), ("press", False), ("press", True),
                                                                   ("release", True), ("release", False))
                 for w in (False, True) for o in ((("xx",), ("fork",)) if w else (("key",), ("fork",)))]
        wins += [("default", 3, WL, True, 1, w, o) for (w, o) in ((False, ("key", "xx")), (True, ("fork", "key")))]
        wins = sorted(set(wins), key=wins.index)
    for (v, H, W, c, r, w, o) in wins:
        keys = ("a", "b", "c")[:1 + len(o)]
        F.append(("%s_H%d_W%d_%s_r%d_%s_%s" % (v.replace("-", ""), H, W, "cq" if c else "nq", r, "multi" if w else "bare",
                                               "".join(o)), make(v, H, W, c, r, keys, w, tuple(o) + ("key",))))
    return F


def th_history(rng, keys, H, n):
    """random schedule with gaps drawn around the hold timeout"""
    return rand_history(rng, keys, n, [0, 1, 1, max(H - 1, 0), H, H + 1, H + 4], tail=40)


def run(tier, seed):
    pid = "C05"
    res = flow.Result(pid, tier, seed)
    rng = random.Random(seed)
    wd = workdir("c05")
    jobs_random, witness_jobs = [], []
    only = os.environ.get("C05_ONLY", "")     # development aid: restrict the family to the instances whose name contains it
    fam = [f for f in family(tier) if not only or only in f[0]]

    def explore(f):
        name, (desc, params, custom) = f
        kbd = cfgdesc.render_kbd(desc)
        keys = [cfgdesc.code(k) for k in desc["keys"]]
        inst = {"name": "c05_" + name, "kbd": kbd, "keys": keys, "qmax": 3, "custom_th": custom,
                "monitor": {"module": "P_C05", "params": params}}
        if params["variant"] == "except-keys":
            # the key may stay undecided for ever: bound the age counters of the model (state constraint)
            inst["caps"] = {"since": 3 * (params["H"] + params["red"] + 2)}
        if params["W"] > params["H"] + 4:
            # TLC also prints one input history per distinct state in which the tap-hold key has just been re-pressed while
            # its tap-repress window is open ("re") or was closed by another key / a hold ("fr"): each is continued with
            # "hold past the timeout, release" and recorded on the real code below
            inst["extra_defs"] = 'QtwProbe == mon.wk = "" \\/ PrintT(<<"QTW", ToJson([h |-> hist, k |-> mon.wk])>>)'
            inst["invariants"] = ["StutterProbe", "QtwProbe"]
            inst["extra_tags"] = ["QTW"]
        iwd = os.path.join(wd, "mc_" + name)      # one work directory per instance: three instances are explored at a time
        os.makedirs(iwd, exist_ok=True)
        return mc.check_instance(inst, iwd, workers=4, timeout=1200)

    from concurrent.futures import ThreadPoolExecutor
    build_harness()
    cfgdesc.keytable()
    with ThreadPoolExecutor(max_workers=3) as ex:
        explored = list(ex.map(explore, fam))
    for (name, (desc, params, custom)), r in zip(fam, explored):
        kbd = cfgdesc.render_kbd(desc)
        keys = [cfgdesc.code(k) for k in desc["keys"]]
        res.add_instance(r)
        if len(res.samples) < 3:
            res.samples.append({"instance": name, "kbd": kbd, "states": r["states"], "edges": r.get("edges")})
        ws = flow.witness_scripts(r["monerr_file"], 30) + flow.witness_scripts(r["panic_file"], 10)
        scripts = [flow.hist_to_script(w["h"], 6) for w in ws] + \
                  [flow.hist_to_script(d["h"], 6) for d in r.get("drift_samples", [])]
        if r.get("n_qtw"):
            qw = flow.witness_scripts(r["qtw_file"], 10 ** 9)
            fr = [w for w in qw if w["k"] == "fr"]
            re_ = [w for w in qw if w["k"] == "re"]
            pick = fr[:150] + rng.sample(fr[150:], min(len(fr) - 150, 100) if len(fr) > 150 else 0) + re_[:60]
            res.samples.append({"instance": name, "tap_repress_witnesses": {"fr": len(fr), "re": len(re_), "recorded": len(pick)}})
            scripts += [flow.hist_to_script(w["h"], params["H"] + 3) + [["u", params["k"]], ["t", 12]] for w in pick]
        if scripts:
            witness_jobs.append({"cfg": kbd, "params": params, "tag": "w:" + name, "scripts": scripts})
        n = 30 if tier == "quick" else 200
        scripts = [th_history(rng, keys, params["H"], rng.randint(4, 40 if tier == "quick" else 200)) for _ in range(n)]
        jobs_random.append({"cfg": kbd, "params": params, "tag": "r:" + name, "scripts": scripts})
    # the documented short spellings of the variant keywords denote the same variants (the monitor's parameters come
    # from the description, so a keyword mapped to another variant is rejected)
    jobs_random += spelling_twins(jobs_random)
    for label, jobs in (("witness", witness_jobs), ("random", jobs_random)):
        if not jobs:
            continue
        jobs = shard_local_index(jobs)
        errs, trace = record_and_validate(res, "P_C05", jobs, wd, "c05_" + label)
        for e in errs:
            j, s = script_of(jobs, e["job"], 0)
            flow.classify(res, pid, e["err"], e["err"] + " cfg=" + j["cfg"],
                          {"property": pid, "cfg": j["cfg"], "params": j["params"], "script": s, "err": e["err"],
                           "monitor": "P_C05"},
                          "%s_%d" % (label, len(res.violations)))
        if label == "random":
            res.samples.append({"random_history": jobs[0]["scripts"][0][:30], "cfg": jobs[0]["cfg"]})
    return flow.finish(
        res, "model_checking",
        "TLC explores L1||P_C05 for every physically consistent schedule over the tap-hold key and two other keys "
        "(<=3 pending events, every tick gap), per variant/H/W/concurrency instance; every model transition is replayed on "
        "the real code; random schedules with real gaps around H are recorded from the code and validated by TLC "
        "against P_C05.",
        assumptions=["deterministic stepper", "P_C05 sharp-zone rules calibrated per DESIGN Appendix A",
                     "tap/hold/timeout actions are distinct otherwise-unused keys"])
